/-
C06 ∘ C05 — the C06 broad-phase / self-collision theorems for the ARRAY-level tree that the
driver executes, without the run-time hypothesis `linkCheck`.

`D3.Properties.C06` proves its query and `detect` theorems for every state accepted by the
decidable `linkCheck`, and `poses_current_tree` only on the tree layer (`buildT`, C05's
`T.insert`).  `D3.Properties.C05Insert` proves that the array-level `insert_leaf` /
`insert_aabbs` implement `T.insert` for every insertion history.  This file composes the two
(helper lemmas: `D3/Proofs/BvhLink.lean`):

* `rebuild_is_insertion_history` — the loop of `update_collider_poses` (one `insert_aabb` per
  collider) is a C05 insertion history of one-box batches with data `0, 1, 2, …`;
* `history_never_raises`       — no `add_collider` / `update_collider_poses` call of any
  history raises, given that every collider's AABB function returns `lo ≤ hi`;
* `synced_after_update`, `synced_fresh_history` — after `update_collider_poses`, and after every
  operation of a history whose `add_collider` frames are pairwise distinct, tree and
  `external_data_list` are exactly what inserting the current `colliders_` entries in dict
  order produces (`Bvh.Synced`);
* `poses_current_arrays`       — array-level form of `C06.poses_current_tree`: in a synced
  state the arrays pass `wfCheck`, encode exactly the tree-layer tree `buildT` of the current
  AABBs, and `linkCheck` holds — proved, so it need not be run;
* `update_poses_current_arrays` — the same stated directly for a history ending in
  `update_collider_poses`;
* `synced_overlapping_colliders_exact`, `synced_self_exact`, `synced_other_bvh_exact`,
  `synced_detect_complete`, `synced_detect_sound`, `synced_detect_any_iff` — the C06 theorems
  with the hypothesis `linkCheck … = some (some t)` replaced by "synced and current AABBs
  valid" (empty BVH included);
* `update_then_queries_exact`  — end to end for a history ending in `update_collider_poses`;
* `valid_of_encloses_tight`, `c04_box_valid_encloses` — C04 discharges the validity hypothesis:
  a box that encloses a set and is tight on it has `lo ≤ hi`; so has every `aabb()` of a
  well-formed C04 collider;
* `synced_detect_eq_brute_force`, `synced_detect_any_eq_brute_force` — **the property as a
  whole**: if the current AABBs enclose the shapes (C04) and the narrow phase reports `True`
  only for shapes that share a point, then `detect` marks exactly the frames that the
  brute-force double loop over all non-whitelisted pairs marks (symmetric `hit` and
  whitelists), and `detect_any` is `True` exactly when the brute-force search finds a pair —
  the AABB conjunct of `C06.detect_complete` / `detect_sound` is eliminated;
* `synced_detect_eq_brute_force_colliders` — the same with the shapes given as colliders of
  C03's model (the point sets the support functions and GJK work on), their AABBs computed by
  C04's `Collider.aabb` as coded (via `C04Link.collider_sets_iff`).
-/
import D3.Properties.C06
import D3.Properties.C04
import D3.Properties.C04Link
import D3.Proofs.BvhLink

namespace D3
namespace C06Link
open Aabb Bvh

/-- every collider's current AABB has `lo ≤ hi` on every axis (C04 proves this for the AABB
functions of the library's shapes) -/
def ValidCurrent (s : State ℝ) : Prop := ∀ x ∈ s.colliders, x.2.box.Valid

/-- **`update_collider_poses` rebuilds by a C05 insertion history.**  Calling
`insert_aabb(collider.aabb(), (frame, collider))` for the entries `l` of `colliders_` in order,
starting from tree `tree` and an `external_data_list` with `pl.size` payloads, is exactly the
`AabbTree.insert_aabbs` history of the one-box batches `([box_k], [pl.size + k], mode none)`
(same result, same error), and appends the entries to the payload list. -/
theorem rebuild_is_insertion_history (l : List (Frame × Collider ℝ)) (tree : Aabb.Tree ℝ)
    (pl : Array (Frame × Collider ℝ)) :
    rebuild tree pl l =
      (match runHistory tree (batchesFrom pl.size l) with
       | .error e => .error e
       | .ok tr => .ok (tr, pl ++ l.toArray)) :=
  rebuild_eq l tree pl

/-- **No call raises.**  Run any history of `add_collider` / `update_collider_poses` calls on a
fresh BVH.  If the AABB function of every collider handed to `add_collider` returns a box
with `lo ≤ hi` at every pose, every call returns normally: no `IndexError` in the array code,
the cost assertion of `insert_leaf` never fires, no loop runs out of fuel. -/
theorem history_never_raises (ops : List (Op ℝ)) (hv : ∀ o ∈ ops, Op.ValidAabb o) :
    ∃ s', run State.empty ops = .ok s' :=
  let ⟨s', h, _⟩ := run_total ops State.empty totalInv_empty hv
  ⟨s', h⟩

/-- **Synced after `update_collider_poses`.**  After any history that ends in
`update_collider_poses` and returned normally, the tree is the result of the insertion
history "one `insert_aabb` per entry of `colliders_`, in dict order, on a fresh tree",
`external_data_list`'s payloads are these entries, and the frames are distinct. -/
theorem synced_after_update (ops : List (Op ℝ)) (getT : Frame → Pose ℝ) (s' : State ℝ)
    (h : run State.empty (ops ++ [Op.update getT]) = .ok s') : Synced s' := by
  rw [run_append] at h
  cases h1 : run State.empty ops with
  | error e => simp [h1] at h
  | ok s1 =>
    simp only [h1, run, step] at h
    cases hu : updateColliderPoses getT s1 with
    | error e => simp [hu] at h
    | ok s2 =>
      simp only [hu, Except.ok.injEq] at h
      subst h
      obtain ⟨hn, _⟩ := run_keys ops State.empty s1 h1 (by simp [State.empty, dKeys])
      exact synced_update getT s1 s2 hn hu

/-- **Synced after every operation, fresh frames.**  In a history in which no frame is handed
to `add_collider` twice, the same holds after *every* prefix (a prefix of such a history is
such a history): tree and payloads never lag behind `colliders_`.  (If a frame is added
twice the dict entry is replaced but the old leaf stays in the tree until the next
`update_collider_poses`; that is the only way to leave the synced states.) -/
theorem synced_fresh_history (ops : List (Op ℝ)) (s' : State ℝ)
    (hfresh : (addedFrames ops).Nodup) (h : run State.empty ops = .ok s') : Synced s' :=
  run_synced ops State.empty s' synced_empty hfresh (by intro f _; simp [State.empty, dKeys]) h

/-- **C06 poses, array level** (closes the gap named under `poses_current_tree`).  In a synced
state with at least one collider and valid current AABBs, the *arrays* `nodes`/`aabbs` of the
implementation-level tree pass C05's `wfCheck` and encode exactly the tree-layer tree `buildT`
of the current AABBs (`T.insert` folded over them; so every conclusion of
`C06.poses_current_tree` is a statement about the arrays), and the leaf ↔ collider link
`linkCheck` holds.  In particular `t` is tight, has `2n-1` nodes and its leaves are exactly
the current AABBs, the `k`-th in row `slotLeaf k`. -/
theorem poses_current_arrays (s : State ℝ) (hs : Synced s) (hv : ValidCurrent s)
    (hne : s.colliders ≠ []) :
    ∃ t, wfCheck s.tree.core = some (some t) ∧ buildT (s.current.map (·.2)) = some t ∧
      linkCheck s = some (some t) ∧ t.Tight ∧
      t.leaves.Perm (tagFrom 0 (s.current.map (·.2))) ∧ t.size = 2 * s.colliders.length - 1 := by
  obtain ⟨t, h1, h2, h3, h4, h5⟩ := linkCheck_of_history s hs.hist hs.pay hv hs.nodup hne
  obtain ⟨tr, t2, g1, g2, g3⟩ := runHistory_buildT s.colliders hne hv
  rw [hs.hist] at g1
  simp only [Except.ok.injEq] at g1
  subst g1
  have := Bvh.TInv.wfCheck_eq g2
  rw [h2] at this
  simp only [Option.some.injEq] at this
  subst this
  refine ⟨t, h2, ?_, h1, h3, h4, h5⟩
  rw [← g3]
  simp [State.current, List.map_map, Function.comp_def]

/-- a synced state without colliders is the empty BVH (`linkCheck = some none`) -/
theorem synced_empty_linkCheck (s : State ℝ) (hs : Synced s) (he : s.colliders = []) :
    linkCheck s = some none :=
  linkCheck_of_synced_nil s hs he

/-- **C06 poses, array level, for a history ending in `update_collider_poses`.**  After any
sequence of `add_collider` / `update_collider_poses` calls that ends in
`update_collider_poses`, with at least one collider and current AABBs with `lo ≤ hi`: every
collider carries the transform manager's current transform (`C06.poses_current`), and the
tree arrays encode exactly `buildT` of the current AABBs and satisfy `linkCheck`. -/
theorem update_poses_current_arrays (ops : List (Op ℝ)) (getT : Frame → Pose ℝ) (s' : State ℝ)
    (h : run State.empty (ops ++ [Op.update getT]) = .ok s') (hv : ValidCurrent s')
    (hne : s'.colliders ≠ []) :
    (∀ f c, (f, c) ∈ s'.colliders → c.pose = getT f) ∧
    ∃ t, wfCheck s'.tree.core = some (some t) ∧ buildT (s'.current.map (·.2)) = some t ∧
      linkCheck s' = some (some t) ∧ t.Tight ∧
      t.leaves.Perm (tagFrom 0 (s'.current.map (·.2))) ∧ t.size = 2 * s'.colliders.length - 1 := by
  obtain ⟨s1, _, _, _, _, hp, _, _⟩ := C06.poses_current ops getT s' h
  exact ⟨fun f c hfc => (hp f c hfc).1,
    poses_current_arrays s' (synced_after_update ops getT s' h) hv hne⟩

/-! ### the C06 query / detect theorems without the run-time hypothesis -/

/-- **`aabb_overlapping_colliders`, no run-time check.**  In every synced state with valid
current AABBs (in particular after `update_collider_poses`) the call does not raise and
returns a dict whose key set is exactly the frames whose current AABB overlaps the query
collider's AABB, minus the whitelist; each returned collider has its frame's current AABB. -/
theorem synced_overlapping_colliders_exact (s : State ℝ) (hs : Synced s) (hv : ValidCurrent s)
    (qc : Collider ℝ) (whitelist : List Frame) :
    ∃ res, aabbOverlappingColliders s qc whitelist = .ok res ∧ (dKeys res).Nodup ∧
      (∀ f, f ∈ dKeys res ↔
        (∃ c, (f, c) ∈ s.colliders ∧ overlap c.box qc.box = true) ∧ f ∉ whitelist) ∧
      (∀ f c, (f, c) ∈ res → ∃ c', (f, c') ∈ s.colliders ∧ c'.box = c.box) := by
  by_cases hne : s.colliders = []
  · obtain ⟨h1, _⟩ := C06.empty_bvh s (synced_empty_linkCheck s hs hne) qc whitelist
      (fun _ _ => false) (fun _ => none)
    refine ⟨[], h1, List.nodup_nil, ?_, ?_⟩
    · intro f; simp [dKeys, hne]
    · intro f c hfc; cases hfc
  · obtain ⟨t, _, _, hl, _⟩ := poses_current_arrays s hs hv hne
    exact C06.overlapping_colliders_exact s t hl qc whitelist

/-- **`aabb_overlapping_with_self`, no run-time check**: every ordered pair of two different
frames with overlapping current AABBs, each exactly once, and nothing else. -/
theorem synced_self_exact (s : State ℝ) (hs : Synced s) (hv : ValidCurrent s) :
    ∃ res : List ((Frame × Collider ℝ) × (Frame × Collider ℝ)),
      aabbOverlappingWithSelf s = .ok (res.map fun p => (some p.1, some p.2)) ∧
      (res.map fun p => (p.1.1, p.2.1)).Nodup ∧
      (∀ f g, (f, g) ∈ (res.map fun p => (p.1.1, p.2.1)) ↔
        f ≠ g ∧ ∃ c d, (f, c) ∈ s.colliders ∧ (g, d) ∈ s.colliders ∧ overlap c.box d.box = true) ∧
      (∀ p ∈ res, ∃ c d, (p.1.1, c) ∈ s.colliders ∧ (p.2.1, d) ∈ s.colliders ∧
        c.box = p.1.2.box ∧ d.box = p.2.2.box) := by
  by_cases hne : s.colliders = []
  · obtain ⟨_, h2, _⟩ := C06.empty_bvh s (synced_empty_linkCheck s hs hne) ⟨default, fun _ => default⟩ []
      (fun _ _ => false) (fun _ => none)
    refine ⟨[], h2, List.nodup_nil, ?_, ?_⟩
    · intro f g; simp [hne]
    · intro p hp; cases hp
  · obtain ⟨t, _, _, hl, _⟩ := poses_current_arrays s hs hv hne
    exact C06.self_exact s t hl

/-- **`aabb_overlapping_with_other_bvh`, no run-time check** (two non-empty synced BVHs):
exactly the frame pairs `(f, g)` with `f`'s current AABB in this BVH overlapping `g`'s in the
other, each once, no `None` entry. -/
theorem synced_other_bvh_exact (s o : State ℝ) (hs : Synced s) (ho : Synced o)
    (hvs : ValidCurrent s) (hvo : ValidCurrent o) (hns : s.colliders ≠ []) (hno : o.colliders ≠ []) :
    ∃ res : List ((Frame × Collider ℝ) × (Frame × Collider ℝ)),
      aabbOverlappingWithOtherBvh s o = .ok (res.map fun p => (some p.1, some p.2)) ∧
      (res.map fun p => (p.1.1, p.2.1)).Nodup ∧
      (∀ f g, (f, g) ∈ (res.map fun p => (p.1.1, p.2.1)) ↔
        ∃ c d, (f, c) ∈ s.colliders ∧ (g, d) ∈ o.colliders ∧ overlap c.box d.box = true) ∧
      (∀ p ∈ res, ∃ c d, (p.1.1, c) ∈ s.colliders ∧ (p.2.1, d) ∈ o.colliders ∧
        c.box = p.1.2.box ∧ d.box = p.2.2.box) := by
  obtain ⟨t1, _, _, h1, _⟩ := poses_current_arrays s hs hvs hns
  obtain ⟨t2, _, _, h2, _⟩ := poses_current_arrays o ho hvo hno
  exact C06.other_bvh_exact s o t1 t2 h1 h2

/-- **`detect` is complete, no run-time check.**  Synced state, valid current AABBs, whitelists
with an entry for every collider frame: `detect` does not raise, has an entry for every
collider frame, and marks `f` whenever `hit f g` for a collider frame `g` outside `f`'s
whitelist whose current AABB overlaps `f`'s. -/
theorem synced_detect_complete (s : State ℝ) (hs : Synced s) (hv : ValidCurrent s)
    (hit : Frame → Frame → Bool) (wl : Whitelists)
    (hwl : ∀ f ∈ dKeys s.colliders, ∃ w, wl f = some w) :
    ∃ contacts, detect s hit wl = .ok contacts ∧
      (∀ f, f ∈ dKeys s.colliders → (dGet contacts f).isSome = true) ∧
      (∀ f g cf cg w, (f, cf) ∈ s.colliders → (g, cg) ∈ s.colliders → wl f = some w → g ∉ w →
        hit f g = true → overlap cg.box cf.box = true → dGet contacts f = some true) := by
  by_cases hne : s.colliders = []
  · obtain ⟨_, _, h3, _⟩ := C06.empty_bvh s (synced_empty_linkCheck s hs hne)
      ⟨default, fun _ => default⟩ [] hit wl
    refine ⟨[], h3, ?_, ?_⟩
    · intro f hf; simp [hne, dKeys] at hf
    · intro f g cf cg w hf; simp [hne] at hf
  · obtain ⟨t, _, _, hl, _⟩ := poses_current_arrays s hs hv hne
    exact C06.detect_complete s t hl hit wl hwl

/-- **`detect` is sound, no run-time check**: a frame is marked only because of a `hit` with a
non-whitelisted frame whose current AABB overlaps (in either role, see `C06.detect_sound`). -/
theorem synced_detect_sound (s : State ℝ) (hs : Synced s) (hv : ValidCurrent s)
    (hit : Frame → Frame → Bool) (wl : Whitelists)
    (hwl : ∀ f ∈ dKeys s.colliders, ∃ w, wl f = some w)
    (contacts : List (Frame × Bool)) (hd : detect s hit wl = .ok contacts) (f : Frame)
    (hf : dGet contacts f = some true) :
    ∃ g cf cg, (f, cf) ∈ s.colliders ∧ (g, cg) ∈ s.colliders ∧
      ((hit f g = true ∧ overlap cg.box cf.box = true ∧ ∃ w, wl f = some w ∧ g ∉ w) ∨
       (hit g f = true ∧ overlap cf.box cg.box = true ∧ ∃ w, wl g = some w ∧ f ∉ w)) := by
  by_cases hne : s.colliders = []
  · obtain ⟨_, _, h3, _⟩ := C06.empty_bvh s (synced_empty_linkCheck s hs hne)
      ⟨default, fun _ => default⟩ [] hit wl
    rw [h3] at hd
    simp only [Except.ok.injEq] at hd
    subst hd
    simp [dGet] at hf
  · obtain ⟨t, _, _, hl, _⟩ := poses_current_arrays s hs hv hne
    exact C06.detect_sound s t hl hit wl hwl contacts hd f hf

/-- **`detect_any`, no run-time check**: `True` exactly when some collider frame `f` has a
collider frame `g` outside `f`'s whitelist with overlapping current AABBs and `hit f g`. -/
theorem synced_detect_any_iff (s : State ℝ) (hs : Synced s) (hv : ValidCurrent s)
    (hit : Frame → Frame → Bool) (wl : Whitelists)
    (hwl : ∀ f ∈ dKeys s.colliders, ∃ w, wl f = some w) :
    ∃ b, detectAny s hit wl = .ok b ∧
      (b = true ↔ ∃ f g cf cg w, (f, cf) ∈ s.colliders ∧ (g, cg) ∈ s.colliders ∧
        wl f = some w ∧ g ∉ w ∧ overlap cg.box cf.box = true ∧ hit f g = true) := by
  by_cases hne : s.colliders = []
  · obtain ⟨_, _, _, h4⟩ := C06.empty_bvh s (synced_empty_linkCheck s hs hne)
      ⟨default, fun _ => default⟩ [] hit wl
    refine ⟨false, h4, ?_⟩
    simp [hne]
  · obtain ⟨t, _, _, hl, _⟩ := poses_current_arrays s hs hv hne
    exact C06.detect_any_iff s t hl hit wl hwl

/-- **End to end: build, refresh, query.**  Take any history of `add_collider` /
`update_collider_poses` calls with valid AABB functions, ending in `update_collider_poses`.
Nothing raises; afterwards every collider carries the manager's current transform, and
`aabb_overlapping_colliders` (any query collider, any whitelist) returns exactly the frames
whose *current* AABB overlaps the query AABB, minus the whitelist — all on the array-level
model that the driver executes, with no run-time check as hypothesis. -/
theorem update_then_queries_exact (ops : List (Op ℝ)) (getT : Frame → Pose ℝ)
    (hv : ∀ o ∈ ops, Op.ValidAabb o) (qc : Collider ℝ) (whitelist : List Frame) :
    ∃ s', run State.empty (ops ++ [Op.update getT]) = .ok s' ∧
      (∀ f c, (f, c) ∈ s'.colliders → c.pose = getT f) ∧
      (∀ f, f ∈ dKeys s'.colliders ↔ f ∈ addedFrames ops) ∧
      ∃ res, aabbOverlappingColliders s' qc whitelist = .ok res ∧ (dKeys res).Nodup ∧
        (∀ f, f ∈ dKeys res ↔
          (∃ c, (f, c) ∈ s'.colliders ∧ overlap c.box qc.box = true) ∧ f ∉ whitelist) := by
  obtain ⟨s', h, hinv⟩ := run_total (ops ++ [Op.update getT]) State.empty totalInv_empty (by
    intro o ho
    rcases List.mem_append.mp ho with ho | ho
    · exact hv o ho
    · simp only [List.mem_singleton] at ho
      subst ho; trivial)
  obtain ⟨s1, _, _, _, hk, hp, _, _⟩ := C06.poses_current ops getT s' h
  have hvc : ValidCurrent s' := fun x hx => hinv.1 x hx _
  obtain ⟨res, h1, h2, h3, _⟩ :=
    synced_overlapping_colliders_exact s' (synced_after_update ops getT s' h) hvc qc whitelist
  exact ⟨s', h, fun f c hfc => (hp f c hfc).1, hk, res, h1, h2, h3⟩

/-! ### concrete non-degenerate instances (non-vacuity of the hypotheses) -/

/-- AABB function of a cube of edge 1 (centre = pose translation) -/
noncomputable def cubeAabb (p : Pose ℝ) : Box ℝ :=
  ⟨p.t.x - 1/2, p.t.x + 1/2, p.t.y - 1/2, p.t.y + 1/2, p.t.z - 1/2, p.t.z + 1/2⟩

noncomputable def poseAt (x : ℝ) : Pose ℝ := ⟨⟨⟨1, 0, 0⟩, ⟨0, 1, 0⟩, ⟨0, 0, 1⟩⟩, ⟨x, 0, 0⟩⟩

theorem cubeAabb_valid (p : Pose ℝ) : (cubeAabb p).Valid := by
  simp only [Box.Valid, cubeAabb]
  refine ⟨?_, ?_, ?_⟩ <;> linarith

/-- three unit cubes added at stale poses (frame 1 is added twice), a refresh, and one more -/
noncomputable def exOps : List (Op ℝ) :=
  [.add 0 ⟨poseAt 5, cubeAabb⟩, .add 1 ⟨poseAt 7, cubeAabb⟩, .add 1 ⟨poseAt 8, cubeAabb⟩,
   .update (fun f => poseAt (f : ℝ)), .add 2 ⟨poseAt 9, cubeAabb⟩]

theorem exOps_valid : ∀ o ∈ exOps, Op.ValidAabb o := by
  intro o ho
  simp only [exOps, List.mem_cons, List.not_mem_nil, or_false] at ho
  rcases ho with rfl | rfl | rfl | rfl | rfl
  all_goals first | exact fun p => cubeAabb_valid p | trivial

/-- `history_never_raises` / `update_then_queries_exact` on the example: the hypotheses hold,
the history (with a duplicate `add_collider` frame, then refreshed) runs, and the refreshed
state has exactly the frames 0, 1, 2 -/
example : ∃ s', run State.empty (exOps ++ [Op.update fun f => poseAt (2 * (f : ℝ))]) = .ok s' ∧
    ∀ f, f ∈ dKeys s'.colliders ↔ f ∈ [0, 1, 1, 2] := by
  obtain ⟨s', h, _, hk, _⟩ := update_then_queries_exact exOps (fun f => poseAt (2 * (f : ℝ)))
    exOps_valid ⟨poseAt 0, cubeAabb⟩ []
  exact ⟨s', h, by simpa [exOps, addedFrames] using hk⟩

/-- the concrete state used below: the example history followed by a second refresh runs, the
final state is synced, its current AABBs are valid and it has three colliders -/
theorem exState_spec : ∃ s', run State.empty (exOps ++ [Op.update fun f => poseAt (2 * (f : ℝ))]) = .ok s' ∧
    Synced s' ∧ ValidCurrent s' ∧ s'.colliders.length = 3 := by
  obtain ⟨s', h, hinv⟩ := run_total (exOps ++ [Op.update fun f => poseAt (2 * (f : ℝ))])
    State.empty totalInv_empty (by
      intro o ho
      rcases List.mem_append.mp ho with ho | ho
      · exact exOps_valid o ho
      · simp only [List.mem_singleton] at ho
        subst ho; trivial)
  have hs := synced_after_update exOps _ s' h
  have hvc : ValidCurrent s' := fun x hx => hinv.1 x hx _
  obtain ⟨_, _, _, hn, hk, _⟩ := C06.poses_current exOps _ s' h
  have hlen : s'.colliders.length = 3 := by
    have hperm : (dKeys s'.colliders).Perm [0, 1, 2] := by
      rw [List.perm_ext_iff_of_nodup hn (by decide)]
      intro f
      rw [hk f]
      simp [exOps, addedFrames]
    have := hperm.length_eq
    simpa [dKeys] using this
  exact ⟨s', h, hs, hvc, hlen⟩

/-- `synced_fresh_history`: a history with pairwise distinct `add_collider` frames (adds before
and after a refresh) is synced at its end — and, being closed under prefixes, after every
operation -/
example : ∃ s', run State.empty ([.add 0 ⟨poseAt 5, cubeAabb⟩, .add 1 ⟨poseAt 7, cubeAabb⟩,
    .update (fun f => poseAt (f : ℝ)), .add 2 ⟨poseAt 9, cubeAabb⟩] : List (Op ℝ)) = .ok s' ∧
    Synced s' := by
  obtain ⟨s', h⟩ := history_never_raises ([.add 0 ⟨poseAt 5, cubeAabb⟩, .add 1 ⟨poseAt 7, cubeAabb⟩,
    .update (fun f => poseAt (f : ℝ)), .add 2 ⟨poseAt 9, cubeAabb⟩] : List (Op ℝ)) (by
      intro o ho
      simp only [List.mem_cons, List.not_mem_nil, or_false] at ho
      rcases ho with rfl | rfl | rfl | rfl
      all_goals first | exact fun p => cubeAabb_valid p | trivial)
  exact ⟨s', h, synced_fresh_history _ s' (by simp [addedFrames]) h⟩

/-- `poses_current_arrays` / `update_poses_current_arrays` on the example: the state after the
history passes `linkCheck` with a tree of `2·3 - 1 = 5` nodes that is `buildT` of the three
current AABBs -/
example : ∃ s' t, run State.empty (exOps ++ [Op.update fun f => poseAt (2 * (f : ℝ))]) = .ok s' ∧
    linkCheck s' = some (some t) ∧ buildT (s'.current.map (·.2)) = some t ∧ t.size = 5 := by
  obtain ⟨s', h, hs, hvc, hlen⟩ := exState_spec
  have hne : s'.colliders ≠ [] := by
    intro e; rw [e] at hlen; cases hlen
  obtain ⟨_, t, _, h2, h3, _, _, h6⟩ := update_poses_current_arrays exOps _ s' h hvc hne
  exact ⟨s', t, h, h3, h2, by rw [h6, hlen]⟩

/-- the hypotheses of `synced_overlapping_colliders_exact`, `synced_self_exact`,
`synced_other_bvh_exact`, `synced_detect_complete`, `synced_detect_sound`,
`synced_detect_any_iff` hold on the example state (three colliders, whitelist of `f` is `[f]`):
all six conclusions are obtained at once -/
example : ∃ s' res self other contacts b,
    aabbOverlappingColliders s' ⟨poseAt 0, cubeAabb⟩ [1] = .ok res ∧
    aabbOverlappingWithSelf s' = .ok self ∧ aabbOverlappingWithOtherBvh s' s' = .ok other ∧
    detect s' (fun f g => f != g) (fun f => some [f]) = .ok contacts ∧
    detectAny s' (fun f g => f != g) (fun f => some [f]) = .ok b := by
  obtain ⟨s', _, hs, hvc, hlen⟩ := exState_spec
  have hne : s'.colliders ≠ [] := by
    intro e; rw [e] at hlen; cases hlen
  obtain ⟨res, h1, _⟩ := synced_overlapping_colliders_exact s' hs hvc ⟨poseAt 0, cubeAabb⟩ [1]
  obtain ⟨self, h2, _⟩ := synced_self_exact s' hs hvc
  obtain ⟨other, h3, _⟩ := synced_other_bvh_exact s' s' hs hs hvc hvc hne hne
  obtain ⟨contacts, h4, _, _⟩ := synced_detect_complete s' hs hvc (fun f g => f != g)
    (fun f => some [f]) (fun f _ => ⟨_, rfl⟩)
  obtain ⟨b, h5, _⟩ := synced_detect_any_iff s' hs hvc (fun f g => f != g)
    (fun f => some [f]) (fun f _ => ⟨_, rfl⟩)
  have _ := synced_detect_sound s' hs hvc (fun f g => f != g) (fun f => some [f])
    (fun f _ => ⟨_, rfl⟩) contacts h4
  exact ⟨s', res, _, _, contacts, b, h1, h2, h3, h4, h5⟩

/-- `synced_empty_linkCheck`: the fresh BVH is synced and has no colliders -/
example : linkCheck (State.empty : State ℝ) = some none :=
  synced_empty_linkCheck _ synced_empty rfl

/-- `rebuild_is_insertion_history` on two cubes: the rebuild is the two-call history with the
data `0` and `1` -/
example : rebuild Aabb.Tree.empty #[]
      [(7, (⟨poseAt 0, cubeAabb⟩ : Collider ℝ)), (9, ⟨poseAt 3, cubeAabb⟩)] =
    (match runHistory Aabb.Tree.empty
        [⟨[cubeAabb (poseAt 0)], some [0], .none, []⟩, ⟨[cubeAabb (poseAt 3)], some [1], .none, []⟩] with
     | .error e => .error e
     | .ok tr => .ok (tr, #[(7, ⟨poseAt 0, cubeAabb⟩), (9, ⟨poseAt 3, cubeAabb⟩)])) :=
  rebuild_is_insertion_history _ _ _

/-! ### C04 ∘ C06: the broad phase never discards a real collision -/

/-- **a tight enclosing box is valid.**  If every point of a set lies within the bounds of `b`
and each bound is attained by a point of the set (C04's two conclusions), then `lo ≤ hi` on
every axis — the admissibility hypothesis of C05's insertion theorems. -/
theorem valid_of_encloses_tight {b : Box ℝ} {K : V → Prop} (he : Containment.Encloses b K)
    (ht : Containment.TightOn b K) : b.Valid := by
  obtain ⟨⟨p0, hp0, e0⟩, _, ⟨p1, hp1, e1⟩, _, ⟨p2, hp2, e2⟩, _⟩ := ht
  obtain ⟨_, a0, _, _, _, _⟩ := he p0 hp0
  obtain ⟨_, _, _, a1, _, _⟩ := he p1 hp1
  obtain ⟨_, _, _, _, _, a2⟩ := he p2 hp2
  exact ⟨e0 ▸ a0, e1 ▸ a1, e2 ▸ a2⟩

/-- **C04 discharges C06Link's hypotheses on the boxes.**  For every well-formed collider of
C04's model (any shape class, `Margin` wrappers included; a contained ellipsoid axis-aligned —
the known finding F-ellipsoid-aabb excludes rotated ones) `aabb()` as coded returns a box that
is valid and encloses the collider's point set. -/
theorem c04_box_valid_encloses (c : Containment.Collider ℝ) (h : c.WF)
    (hell : c.EllAll fun A _ => Containment.SignedPerm A.R) :
    ∃ b, c.aabb Containment.ellipsoidAabb_asIs = .ok b ∧ b.Valid ∧ Containment.Encloses b c.pts := by
  obtain ⟨b, hb, he, ht⟩ := C04.collider_aabb_spec_asIs c h hell
  exact ⟨b, hb, valid_of_encloses_tight he ht, he⟩

example : ∃ b, (Containment.Collider.margin (.sphere ⟨1, -2, 3⟩ 2) (1 / 4) : Containment.Collider ℝ).aabb
    Containment.ellipsoidAabb_asIs = .ok b ∧ b.Valid :=
  let ⟨b, h1, h2, _⟩ := c04_box_valid_encloses
    (Containment.Collider.margin (.sphere ⟨1, -2, 3⟩ 2) (1 / 4))
    ⟨by simp only [Containment.Collider.WF]; norm_num, by norm_num⟩ trivial
  ⟨b, h1, h2⟩

/-- **C06 as a whole: `detect` = brute force.**  Synced BVH state (e.g. after
`update_collider_poses`); `K f` = the point set of the shape in frame `f`; every current AABB
is valid and encloses its shape (C04: `c04_box_valid_encloses`); the narrow phase `hit`
answers `True` only for shapes that share a point (soundness of `gjk_intersection`, C02) and
is symmetric; the whitelists have an entry for every collider frame and are symmetric.  Then
`detect` does not raise, has an entry for every collider frame, and marks a frame `f` **iff**
the brute-force double loop does: some collider frame `g` outside `f`'s whitelist has
`hit f g`.  No AABB condition is left: the broad phase neither discards a real collision nor
adds a spurious one. -/
theorem synced_detect_eq_brute_force (s : State ℝ) (hs : Synced s) (hv : ValidCurrent s)
    (K : Frame → V → Prop)
    (henc : ∀ f c, (f, c) ∈ s.colliders → Containment.Encloses c.box (K f))
    (hit : Frame → Frame → Bool) (hhit : ∀ f g, hit f g = true → ∃ p, K f p ∧ K g p)
    (hsym : ∀ f g, hit f g = hit g f) (wl : Whitelists)
    (hwl : ∀ f ∈ dKeys s.colliders, ∃ w, wl f = some w)
    (hwsym : ∀ f g w w', wl f = some w → wl g = some w' → (g ∈ w ↔ f ∈ w')) :
    ∃ contacts, detect s hit wl = .ok contacts ∧
      (∀ f, f ∈ dKeys s.colliders → (dGet contacts f).isSome = true) ∧
      (∀ f, dGet contacts f = some true ↔
        f ∈ dKeys s.colliders ∧
          ∃ g w, g ∈ dKeys s.colliders ∧ wl f = some w ∧ g ∉ w ∧ hit f g = true) := by
  obtain ⟨contacts, hd, hkeys, hmark⟩ := synced_detect_complete s hs hv hit wl hwl
  refine ⟨contacts, hd, hkeys, ?_⟩
  intro f
  constructor
  · intro hf
    obtain ⟨g, cf, cg, hcf, hcg, h1 | h1⟩ :=
      synced_detect_sound s hs hv hit wl hwl contacts hd f hf
    · obtain ⟨hh, _, w, hw, hgw⟩ := h1
      exact ⟨mem_dKeys_of_mem _ _ hcf, g, w, mem_dKeys_of_mem _ _ hcg, hw, hgw, hh⟩
    · obtain ⟨hh, _, w, hw, hfw⟩ := h1
      obtain ⟨w', hw'⟩ := hwl f (mem_dKeys_of_mem _ _ hcf)
      refine ⟨mem_dKeys_of_mem _ _ hcf, g, w', mem_dKeys_of_mem _ _ hcg, hw', ?_, ?_⟩
      · intro hg; exact hfw ((hwsym f g w' w hw' hw).mp hg)
      · rw [hsym]; exact hh
  · rintro ⟨hfk, g, w, hgk, hw, hgw, hh⟩
    simp only [dKeys, List.mem_map] at hfk hgk
    obtain ⟨⟨f', cf⟩, hcf, rfl⟩ := hfk
    obtain ⟨⟨g', cg⟩, hcg, rfl⟩ := hgk
    obtain ⟨p, hpf, hpg⟩ := hhit _ _ hh
    exact hmark _ _ cf cg w hcf hcg hw hgw hh
      (Containment.overlap_of_common_point (henc _ _ hcg) (henc _ _ hcf) hpg hpf)

/-- **`detect_any` = brute force.**  Under the same hypotheses (no symmetry needed)
`detect_any` is `True` exactly when some collider frame `f` has a collider frame `g` outside
`f`'s whitelist with `hit f g`. -/
theorem synced_detect_any_eq_brute_force (s : State ℝ) (hs : Synced s) (hv : ValidCurrent s)
    (K : Frame → V → Prop)
    (henc : ∀ f c, (f, c) ∈ s.colliders → Containment.Encloses c.box (K f))
    (hit : Frame → Frame → Bool) (hhit : ∀ f g, hit f g = true → ∃ p, K f p ∧ K g p)
    (wl : Whitelists) (hwl : ∀ f ∈ dKeys s.colliders, ∃ w, wl f = some w) :
    ∃ b, detectAny s hit wl = .ok b ∧
      (b = true ↔ ∃ f g w, f ∈ dKeys s.colliders ∧ g ∈ dKeys s.colliders ∧ wl f = some w ∧
        g ∉ w ∧ hit f g = true) := by
  obtain ⟨b, hb, hiff⟩ := synced_detect_any_iff s hs hv hit wl hwl
  refine ⟨b, hb, ?_⟩
  rw [hiff]
  constructor
  · rintro ⟨f, g, cf, cg, w, hcf, hcg, hw, hgw, _, hh⟩
    exact ⟨f, g, w, mem_dKeys_of_mem _ _ hcf, mem_dKeys_of_mem _ _ hcg, hw, hgw, hh⟩
  · rintro ⟨f, g, w, hfk, hgk, hw, hgw, hh⟩
    simp only [dKeys, List.mem_map] at hfk hgk
    obtain ⟨⟨f', cf⟩, hcf, rfl⟩ := hfk
    obtain ⟨⟨g', cg⟩, hcg, rfl⟩ := hgk
    obtain ⟨p, hpf, hpg⟩ := hhit _ _ hh
    exact ⟨_, _, cf, cg, w, hcf, hcg, hw, hgw,
      Containment.overlap_of_common_point (henc _ _ hcg) (henc _ _ hcf) hpg hpf, hh⟩

/-- **`detect` = brute force, shapes given as colliders.**  `geom f` is the collider in frame
`f` as a value of C03's collider model (its point set `pointSet` is the set the support
function, hence GJK, works on); it is well-formed in C04's sense, a contained ellipsoid is
axis-aligned (known finding F-ellipsoid-aabb), and the current AABB stored for frame `f` is
what C04's `Collider.aabb` as coded returns for it.  Then — with a narrow phase that is
symmetric and reports `True` only for colliders sharing a point, and symmetric, total
whitelists — `detect` marks exactly the frames the brute-force double loop marks.  Validity
of the boxes and enclosure are no longer hypotheses: they are C04's theorems. -/
theorem synced_detect_eq_brute_force_colliders (s : State ℝ) (hs : Synced s)
    (geom : Frame → Support.Collider ℝ)
    (hwf : ∀ f, f ∈ dKeys s.colliders → (ContainmentLink.ofSupport (geom f)).WF ∧
      (ContainmentLink.ofSupport (geom f)).EllAll fun A _ => Containment.SignedPerm A.R)
    (hbox : ∀ f c, (f, c) ∈ s.colliders →
      (ContainmentLink.ofSupport (geom f)).aabb Containment.ellipsoidAabb_asIs = .ok c.box)
    (hit : Frame → Frame → Bool)
    (hhit : ∀ f g, hit f g = true → ∃ p, (geom f).pointSet p ∧ (geom g).pointSet p)
    (hsym : ∀ f g, hit f g = hit g f) (wl : Whitelists)
    (hwl : ∀ f ∈ dKeys s.colliders, ∃ w, wl f = some w)
    (hwsym : ∀ f g w w', wl f = some w → wl g = some w' → (g ∈ w ↔ f ∈ w')) :
    ∃ contacts, detect s hit wl = .ok contacts ∧
      (∀ f, f ∈ dKeys s.colliders → (dGet contacts f).isSome = true) ∧
      (∀ f, dGet contacts f = some true ↔
        f ∈ dKeys s.colliders ∧
          ∃ g w, g ∈ dKeys s.colliders ∧ wl f = some w ∧ g ∉ w ∧ hit f g = true) := by
  have key : ∀ f c, (f, c) ∈ s.colliders →
      c.box.Valid ∧ Containment.Encloses c.box (geom f).pointSet := by
    intro f c hfc
    obtain ⟨hw, he⟩ := hwf f (mem_dKeys_of_mem _ _ hfc)
    obtain ⟨b, hb, hv, hen⟩ := c04_box_valid_encloses _ hw he
    rw [hbox f c hfc] at hb
    simp only [Except.ok.injEq] at hb
    subst hb
    exact ⟨hv, ContainmentLink.encloses_congr (C04Link.collider_sets_iff (geom f) hw) hen⟩
  exact synced_detect_eq_brute_force s hs (fun x hx => (key x.1 x.2 hx).1)
    (fun f => (geom f).pointSet) (fun f c hfc => (key f c hfc).2) hit hhit hsym wl hwl hwsym

/-- non-vacuity of the geometric hypotheses of `synced_detect_eq_brute_force_colliders`: a sphere
of radius 1 about `(f, 0, 0)` in every frame `f` is well-formed, its AABB as coded is the cube
`[f-1, f+1] × [-1, 1]²`, and neighbouring spheres share the point `(f + 1/2, 0, 0)` -/
example (f : Frame) :
    (ContainmentLink.ofSupport (Support.Collider.sphere ⟨(f : ℝ), 0, 0⟩ 1)).WF ∧
    (ContainmentLink.ofSupport (Support.Collider.sphere ⟨(f : ℝ), 0, 0⟩ 1)).aabb
      Containment.ellipsoidAabb_asIs = .ok (Containment.sphereAabb ⟨(f : ℝ), 0, 0⟩ 1) ∧
    (Support.Collider.sphere (⟨(f : ℝ), 0, 0⟩ : V) 1).pointSet ⟨(f : ℝ) + 1 / 2, 0, 0⟩ ∧
    (Support.Collider.sphere (⟨((f + 1 : Nat) : ℝ), 0, 0⟩ : V) 1).pointSet ⟨(f : ℝ) + 1 / 2, 0, 0⟩ := by
  refine ⟨by simp [ContainmentLink.ofSupport, Containment.Collider.WF], rfl, ?_, ?_⟩ <;>
    (simp only [Support.Collider.pointSet, Support.ballSet, V3.normSq_def, V3.sub_x,
      V3.sub_y, V3.sub_z, Nat.cast_add, Nat.cast_one]; norm_num)

/-- unit cube about the pose translation (the shape behind `cubeAabb`) -/
def cubeSet (c : V) : V → Prop := fun p =>
  c.x - 1/2 ≤ p.x ∧ p.x ≤ c.x + 1/2 ∧ c.y - 1/2 ≤ p.y ∧ p.y ≤ c.y + 1/2 ∧
    c.z - 1/2 ≤ p.z ∧ p.z ≤ c.z + 1/2

/-- non-vacuity of `synced_detect_eq_brute_force`: unit cubes at `x = 0, 3/4, 3/2` (after a
refresh), exact narrow phase "the cubes share a point" for the pairs `0|1`, `1|2` and every
frame with itself, whitelist of `f` = `{f}`.  All hypotheses hold; the theorem applies. -/
example : ∃ s' contacts,
    run State.empty ([.add 0 ⟨poseAt 5, cubeAabb⟩, .add 1 ⟨poseAt 7, cubeAabb⟩,
      .add 2 ⟨poseAt 9, cubeAabb⟩] ++ [Op.update fun f => poseAt ((3 / 4 : ℝ) * f)]) = .ok s' ∧
    detect s' (fun f g => decide (f = g ∨ f + 1 = g ∨ g + 1 = f)) (fun f => some [f])
      = .ok contacts ∧
    ∀ f, f ∈ dKeys s'.colliders → (dGet contacts f).isSome = true := by
  set ops : List (Op ℝ) := [.add 0 ⟨poseAt 5, cubeAabb⟩, .add 1 ⟨poseAt 7, cubeAabb⟩,
      .add 2 ⟨poseAt 9, cubeAabb⟩] with hops
  have hvalid : ∀ o ∈ ops ++ [Op.update fun f => poseAt ((3 / 4 : ℝ) * f)], Op.ValidAabb o := by
    intro o ho
    simp only [hops, List.cons_append, List.nil_append, List.mem_cons, List.not_mem_nil,
      or_false] at ho
    rcases ho with rfl | rfl | rfl | rfl
    all_goals first | exact fun p => cubeAabb_valid p | trivial
  obtain ⟨s', h, hinv⟩ := run_total _ State.empty totalInv_empty hvalid
  have hs := synced_after_update ops _ s' h
  have hvc : ValidCurrent s' := fun x hx => hinv.1 x hx _
  obtain ⟨s1, hs1, hc, _, hk, hp, _, _⟩ := C06.poses_current ops _ s' h
  -- every collider is a cube at x = 3/4 f
  have hbox : ∀ f c, (f, c) ∈ s'.colliders → c.box = cubeAabb (poseAt ((3 / 4 : ℝ) * f)) := by
    intro f c hfc
    obtain ⟨hpose, c0, hc0, haabb⟩ := hp f c hfc
    have hc0' : c0.aabb = cubeAabb := by
      have hmem : ∀ (ops : List (Op ℝ)) (s s2 : State ℝ), run s ops = .ok s2 →
          (∀ o ∈ ops, ∀ f c, o = Op.add f c → c.aabb = cubeAabb) →
          (∀ x ∈ s.colliders, x.2.aabb = cubeAabb) → ∀ x ∈ s2.colliders, x.2.aabb = cubeAabb := by
        intro ops
        induction ops with
        | nil => intro s s2 h _ hs; simp only [run, Except.ok.injEq] at h; subst h; exact hs
        | cons o os ih =>
          intro s s2 h ho hs
          simp only [run] at h
          cases hst : step s o with
          | error e => simp [hst] at h
          | ok s3 =>
            simp only [hst] at h
            refine ih s3 s2 h (fun o' ho' => ho o' (List.mem_cons_of_mem _ ho')) ?_
            cases o with
            | add f c =>
              have := addCollider_colliders s s3 f c hst
              intro x hx
              rw [this] at hx
              rcases mem_dSet _ _ _ _ hx with rfl | hx
              · exact ho _ List.mem_cons_self f c rfl
              · exact hs x hx
            | update getT =>
              have := (update_spec getT s s3 hst).1
              intro x hx
              rw [this] at hx
              obtain ⟨_, c0, hc0, hab⟩ := pose_refreshed getT s.colliders x.1 x.2 hx
              rw [hab]; exact hs _ hc0
      refine hmem ops State.empty s1 hs1 ?_ (by intro x hx; cases hx) (f, c0) hc0
      intro o ho f c he
      simp only [hops, List.mem_cons, List.not_mem_nil, or_false] at ho
      rcases ho with rfl | rfl | rfl <;> (cases he; rfl)
    unfold Collider.box
    rw [haabb, hc0', hpose]
  obtain ⟨contacts, hd, hkeys, _⟩ := synced_detect_eq_brute_force s' hs hvc
    (fun f => cubeSet ⟨(3 / 4 : ℝ) * f, 0, 0⟩)
    (by
      intro f c hfc p hp
      rw [hbox f c hfc]
      simpa [cubeSet, cubeAabb, poseAt] using hp)
    (fun f g => decide (f = g ∨ f + 1 = g ∨ g + 1 = f))
    (by
      intro f g hfg
      simp only [decide_eq_true_eq] at hfg
      rcases hfg with rfl | rfl | rfl
      · exact ⟨⟨(3 / 4 : ℝ) * f, 0, 0⟩, by simp [cubeSet], by simp [cubeSet]⟩
      · refine ⟨⟨(3 / 4 : ℝ) * f + 1 / 2, 0, 0⟩, ?_, ?_⟩ <;>
          (simp only [cubeSet, Nat.cast_add, Nat.cast_one]; norm_num) <;> linarith
      · refine ⟨⟨(3 / 4 : ℝ) * g + 1 / 2, 0, 0⟩, ?_, ?_⟩ <;>
          (simp only [cubeSet, Nat.cast_add, Nat.cast_one]; norm_num) <;> linarith)
    (by
      intro f g
      simp only [decide_eq_decide]
      constructor <;> (intro h; rcases h with rfl | rfl | rfl <;> simp))
    (fun f => some [f]) (fun f _ => ⟨_, rfl⟩)
    (by
      intro f g w w' hw hw'
      simp only [Option.some.injEq] at hw hw'
      subst hw hw'
      simp only [List.mem_singleton]
      exact eq_comm)
  exact ⟨s', contacts, h, hd, hkeys⟩

end C06Link
end D3
