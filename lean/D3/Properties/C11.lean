/-
C11 — the primitive distance functions return the global minimum distance
(polygon / solid family: `point_to_triangle`, `point_to_rectangle`, `point_to_box`,
`point_to_disk`, `point_to_cylinder`, `point_to_circle`).

Property theorems only (helper lemmas live in `D3/Proofs/DistPoly*.lean`).  For each function
`f` of the family, at `α := ℝ`, on every well-formed input:

* `f_opt`  — the result is `.ok r` and **no point of the primitive is closer to the query point
             than `r.dist`** (`r.dist² ≤ |p − x|²` for every `x` of the set; optimality is stated
             against all competing points, never through an infimum);
* `f_mem`  — the returned closest point lies in the primitive (C10);
* `f_dist` — `r.dist ≥ 0` and `r.dist² = |p − r.cp|²` (C10).

The model functions are the faithful ones of `D3/Model/DistPoly.lean` (same branch structure,
checked divisions); `.ok` in the conclusion therefore also says that no division by zero
can happen on well-formed input.  The line/plane family is in `D3/Properties/C10.lean`
(colleague vertical).  `line_to_triangle` / `line_segment_to_triangle`: the conditional
`line_segment_to_triangle_opt_partial` is below; `line_to_triangle_opt` and the unconditional
`line_segment_to_triangle_opt` (outside the nearly-parallel tolerance band) are in
`D3/Properties/C11LineTriangle.lean`.
-/
import D3.Proofs.DistPolyTriangle
import D3.Proofs.DistPolyConvex
import D3.Proofs.DistPolyCircle
import D3.Proofs.DistPolySegment
import D3.Gen.Constants

namespace D3
namespace C11
open DistPoly

/-! ### point_to_triangle -/

/-- **C11, `point_to_triangle`.** For a triangle of non-zero area and any query point, in all
seven Voronoi regions: the function succeeds and no point of the triangle (convex combination
of the vertices) is closer to `p` than the returned distance. -/
theorem point_to_triangle_opt (p a b c : V) (h : 0 < V3.normSq (V3.cross (b - a) (c - a))) :
    ∃ r, pointToTriangle p a b c = .ok r ∧
      ∀ x, triangleSet a b c x → r.dist * r.dist ≤ V3.normSq (p - x) := by
  obtain ⟨r, h1, h2⟩ := pointToTriangle_spec p a b c h
  exact ⟨r, h1, h2.2.2.2⟩

/-- **C10, `point_to_triangle`.** The returned point is a point of the triangle. -/
theorem point_to_triangle_mem (p a b c : V) (h : 0 < V3.normSq (V3.cross (b - a) (c - a))) :
    ∃ r, pointToTriangle p a b c = .ok r ∧ triangleSet a b c r.cp := by
  obtain ⟨r, h1, h2⟩ := pointToTriangle_spec p a b c h
  exact ⟨r, h1, h2.1⟩

/-- **C10, `point_to_triangle`.** `d ≥ 0` and `d² = |p − cp|²`. -/
theorem point_to_triangle_dist (p a b c : V) (h : 0 < V3.normSq (V3.cross (b - a) (c - a))) :
    ∃ r, pointToTriangle p a b c = .ok r ∧ 0 ≤ r.dist ∧
      r.dist * r.dist = V3.normSq (p - r.cp) := by
  obtain ⟨r, h1, h2⟩ := pointToTriangle_spec p a b c h
  exact ⟨r, h1, h2.2.1, h2.2.2.1⟩

/-- non-vacuity: the unit right triangle has non-zero area -/
example : 0 < V3.normSq (V3.cross ((⟨1, 0, 0⟩ : V) - ⟨0, 0, 0⟩) (⟨0, 1, 0⟩ - ⟨0, 0, 0⟩)) := by
  norm_num [V3.normSq_def, V3.cross]

/-! ### point_to_rectangle -/

/-- **C11, `point_to_rectangle`.** Unit orthogonal axes, non-negative side lengths: no point
`c + s·ax0 + t·ax1` (`|s| ≤ l0/2`, `|t| ≤ l1/2`) is closer to `p` than the returned distance. -/
theorem point_to_rectangle_opt (p c ax0 ax1 : V) (l0 l1 : ℝ)
    (h00 : V3.dot ax0 ax0 = 1) (h11 : V3.dot ax1 ax1 = 1) (h01 : V3.dot ax0 ax1 = 0)
    (hl0 : 0 ≤ l0) (hl1 : 0 ≤ l1) :
    ∃ r, pointToRectangle p c ax0 ax1 l0 l1 = .ok r ∧
      ∀ x, rectSet c ax0 ax1 l0 l1 x → r.dist * r.dist ≤ V3.normSq (p - x) := by
  obtain ⟨r, h1, h2⟩ := pointToRectangle_spec p c ax0 ax1 l0 l1 h00 h11 h01 hl0 hl1
  exact ⟨r, h1, h2.2.2.2⟩

/-- **C10, `point_to_rectangle`.** Membership, `d ≥ 0`, `d² = |p − cp|²`. -/
theorem point_to_rectangle_mem_dist (p c ax0 ax1 : V) (l0 l1 : ℝ)
    (h00 : V3.dot ax0 ax0 = 1) (h11 : V3.dot ax1 ax1 = 1) (h01 : V3.dot ax0 ax1 = 0)
    (hl0 : 0 ≤ l0) (hl1 : 0 ≤ l1) :
    ∃ r, pointToRectangle p c ax0 ax1 l0 l1 = .ok r ∧ rectSet c ax0 ax1 l0 l1 r.cp ∧
      0 ≤ r.dist ∧ r.dist * r.dist = V3.normSq (p - r.cp) := by
  obtain ⟨r, h1, h2⟩ := pointToRectangle_spec p c ax0 ax1 l0 l1 h00 h11 h01 hl0 hl1
  exact ⟨r, h1, h2.1, h2.2.1, h2.2.2.1⟩

/-- non-vacuity: 3-4-5 rotated axes are unit and orthogonal -/
example : V3.dot (⟨3/5, 4/5, 0⟩ : V) ⟨3/5, 4/5, 0⟩ = 1 ∧ V3.dot (⟨-4/5, 3/5, 0⟩ : V) ⟨-4/5, 3/5, 0⟩ = 1 ∧
    V3.dot (⟨3/5, 4/5, 0⟩ : V) ⟨-4/5, 3/5, 0⟩ = 0 := by
  norm_num [V3.dot_def]

/-! ### point_to_box -/

/-- **C11, `point_to_box`.** Orthonormal pose, non-negative sizes: no point of the box (pose
image of `|q_i| ≤ size_i/2`) is closer to `p` than the returned distance. -/
theorem point_to_box_opt (p : V) (A : Pose ℝ) (size : V) (hR : Orthonormal A.R)
    (hx : 0 ≤ size.x) (hy : 0 ≤ size.y) (hz : 0 ≤ size.z) :
    ∃ r, pointToBox p A size = .ok r ∧
      ∀ x, boxSet A size x → r.dist * r.dist ≤ V3.normSq (p - x) := by
  obtain ⟨r, h1, h2⟩ := pointToBox_spec p A size hR hx hy hz
  exact ⟨r, h1, h2.2.2.2⟩

/-- **C10, `point_to_box`.** Membership, `d ≥ 0`, `d² = |p − cp|²`. -/
theorem point_to_box_mem_dist (p : V) (A : Pose ℝ) (size : V) (hR : Orthonormal A.R)
    (hx : 0 ≤ size.x) (hy : 0 ≤ size.y) (hz : 0 ≤ size.z) :
    ∃ r, pointToBox p A size = .ok r ∧ boxSet A size r.cp ∧
      0 ≤ r.dist ∧ r.dist * r.dist = V3.normSq (p - r.cp) := by
  obtain ⟨r, h1, h2⟩ := pointToBox_spec p A size hR hx hy hz
  exact ⟨r, h1, h2.1, h2.2.1, h2.2.2.1⟩

/-- a 3-4-5 rotation about z -/
noncomputable def exR : Mat := ⟨⟨3/5, -4/5, 0⟩, ⟨4/5, 3/5, 0⟩, ⟨0, 0, 1⟩⟩

/-- non-vacuity: it is orthonormal -/
theorem exR_orthonormal : Orthonormal exR := by
  constructor <;> norm_num [exR, V3.dot_def, M3.col0, M3.col1, M3.col2]

/-! ### point_to_disk -/

/-- **C11, `point_to_disk`.** Unit normal, `r ≥ 0`: no point of the disk is closer to `p` than
the returned distance. -/
theorem point_to_disk_opt (p c : V) (r : ℝ) (n : V) (hn : V3.dot n n = 1) (hr : 0 ≤ r) :
    ∃ res, pointToDisk p c r n = .ok res ∧
      ∀ x, diskSet c r n x → res.dist * res.dist ≤ V3.normSq (p - x) := by
  obtain ⟨res, h1, h2⟩ := pointToDisk_spec p c r n hn hr
  exact ⟨res, h1, h2.2.2.2⟩

/-- **C10, `point_to_disk`.** Membership, `d ≥ 0`, `d² = |p − cp|²`. -/
theorem point_to_disk_mem_dist (p c : V) (r : ℝ) (n : V) (hn : V3.dot n n = 1) (hr : 0 ≤ r) :
    ∃ res, pointToDisk p c r n = .ok res ∧ diskSet c r n res.cp ∧
      0 ≤ res.dist ∧ res.dist * res.dist = V3.normSq (p - res.cp) := by
  obtain ⟨res, h1, h2⟩ := pointToDisk_spec p c r n hn hr
  exact ⟨res, h1, h2.1, h2.2.1, h2.2.2.1⟩

/-- non-vacuity -/
example : V3.dot (⟨3/5, 0, 4/5⟩ : V) ⟨3/5, 0, 4/5⟩ = 1 := by norm_num [V3.dot_def]

/-! ### point_to_cylinder -/

/-- **C11, `point_to_cylinder`.** Orthonormal pose, `r ≥ 0`, `l ≥ 0`: no point of the solid
cylinder (pose image of `x² + y² ≤ r²`, `|z| ≤ l/2`) is closer to `p` than the returned
distance. -/
theorem point_to_cylinder_opt (p : V) (A : Pose ℝ) (r l : ℝ) (hR : Orthonormal A.R)
    (hr : 0 ≤ r) (hl : 0 ≤ l) :
    ∃ res, pointToCylinder p A r l = .ok res ∧
      ∀ x, cylinderSet A r l x → res.dist * res.dist ≤ V3.normSq (p - x) := by
  obtain ⟨res, h1, h2⟩ := pointToCylinder_spec p A r l hR hr hl
  exact ⟨res, h1, h2.2.2.2⟩

/-- **C10, `point_to_cylinder`.** Membership, `d ≥ 0`, `d² = |p − cp|²`. -/
theorem point_to_cylinder_mem_dist (p : V) (A : Pose ℝ) (r l : ℝ) (hR : Orthonormal A.R)
    (hr : 0 ≤ r) (hl : 0 ≤ l) :
    ∃ res, pointToCylinder p A r l = .ok res ∧ cylinderSet A r l res.cp ∧
      0 ≤ res.dist ∧ res.dist * res.dist = V3.normSq (p - res.cp) := by
  obtain ⟨res, h1, h2⟩ := pointToCylinder_spec p A r l hR hr hl
  exact ⟨res, h1, h2.1, h2.2.1, h2.2.2.1⟩

/-! ### point_to_circle (non-convex) -/

/-- the regenerated default `epsilon` of `point_to_circle` is positive -/
theorem circle_eps_pos : (0 : ℝ) < Gen.distance__circle__point_to_circle__epsilon := by
  unfold Gen.distance__circle__point_to_circle__epsilon; norm_num

/-- **C11, `point_to_circle`, exact** (code as of /repo 0e4a1a6: `sqr_len >= epsilon * epsilon`),
default `epsilon` regenerated from /repo.  Unit normal, `r ≥ 0`; the query point is outside the
band `0 < |dip|² < epsilon²` (`dip` = component of `p − c` in the circle plane) and the normal is
outside pytransform3d's band `0 < |n.z| < 1e-7`: no point of the circle is closer to `p` than the
returned distance — also in the on-axis case, where the code returns an arbitrary circle point.
Inside the band see `point_to_circle_opt_within_epsilon`. -/
theorem point_to_circle_opt (p c : V) (r : ℝ) (n : V) (hn : V3.dot n n = 1) (hr : 0 ≤ r)
    (hband : V3.normSq ((p - c) - V3.dot (p - c) n * n) = 0 ∨
      (Gen.distance__circle__point_to_circle__epsilon : ℝ) *
        Gen.distance__circle__point_to_circle__epsilon ≤
          V3.normSq ((p - c) - V3.dot (p - c) n * n))
    (hz : n.z = 0 ∨ (pt3dEps : ℝ) ≤ |n.z|) :
    ∃ res, pointToCircle p c r n Gen.distance__circle__point_to_circle__epsilon = .ok res ∧
      ∀ x, circleSet c r n x → res.dist * res.dist ≤ V3.normSq (p - x) := by
  obtain ⟨res, h1, h2⟩ := pointToCircle_spec p c r n _ hn hr circle_eps_pos hband hz
  exact ⟨res, h1, h2.2.2.2⟩

/-- **C10, `point_to_circle`.** Membership, `d ≥ 0`, `d² = |p − cp|²` (same hypotheses). -/
theorem point_to_circle_mem_dist (p c : V) (r : ℝ) (n : V) (hn : V3.dot n n = 1) (hr : 0 ≤ r)
    (hband : V3.normSq ((p - c) - V3.dot (p - c) n * n) = 0 ∨
      (Gen.distance__circle__point_to_circle__epsilon : ℝ) *
        Gen.distance__circle__point_to_circle__epsilon ≤
          V3.normSq ((p - c) - V3.dot (p - c) n * n))
    (hz : n.z = 0 ∨ (pt3dEps : ℝ) ≤ |n.z|) :
    ∃ res, pointToCircle p c r n Gen.distance__circle__point_to_circle__epsilon = .ok res ∧
      circleSet c r n res.cp ∧ 0 ≤ res.dist ∧ res.dist * res.dist = V3.normSq (p - res.cp) := by
  obtain ⟨res, h1, h2⟩ := pointToCircle_spec p c r n _ hn hr circle_eps_pos hband hz
  exact ⟨res, h1, h2.1, h2.2.1, h2.2.2.1⟩

/-- **C11, `point_to_circle`, every input — the band is closed up to `epsilon`.**  Unit normal,
`r ≥ 0`, default `epsilon` (1e-6), *no* hypothesis on the position of `p` or on `n.z`: the function
succeeds and no point of the circle is closer to `p` than `d − epsilon`; since `L ≥ 1` this is
within the property's `1e-6·L`.  When the on-axis branch is taken (`|dip| < epsilon`) every circle
point — in particular the arbitrary one that is returned — is at distance `d ± epsilon`. -/
theorem point_to_circle_opt_within_epsilon (p c : V) (r : ℝ) (n : V) (hn : V3.dot n n = 1)
    (hr : 0 ≤ r) :
    ∃ res, pointToCircle p c r n Gen.distance__circle__point_to_circle__epsilon = .ok res ∧
      0 ≤ res.dist ∧
      (∀ x, circleSet c r n x →
        res.dist - Gen.distance__circle__point_to_circle__epsilon ≤ V3.norm (p - x)) ∧
      (res.branch = 1 → ∀ x, circleSet c r n x →
        V3.norm (p - x) ≤ res.dist + Gen.distance__circle__point_to_circle__epsilon) := by
  obtain ⟨res, h1, h0, h2, h3⟩ := pointToCircle_within p c r n _ hn hr circle_eps_pos
  exact ⟨res, h1, h0, fun x hx => by have := h2 x hx; linarith, h3⟩

/-- non-vacuity: the hypotheses hold for `p = (2, 0, 1)`, unit circle in the xy-plane -/
example : V3.dot (⟨0, 0, 1⟩ : V) ⟨0, 0, 1⟩ = 1 ∧
    ((Gen.distance__circle__point_to_circle__epsilon : ℝ) *
      Gen.distance__circle__point_to_circle__epsilon ≤
      V3.normSq (((⟨2, 0, 1⟩ : V) - ⟨0, 0, 0⟩) - V3.dot ((⟨2, 0, 1⟩ : V) - ⟨0, 0, 0⟩) ⟨0, 0, 1⟩ * (⟨0, 0, 1⟩ : V))) ∧
    ((pt3dEps : ℝ) ≤ |(⟨0, 0, 1⟩ : V).z|) := by
  refine ⟨by norm_num [V3.dot_def], ?_, ?_⟩
  · unfold Gen.distance__circle__point_to_circle__epsilon
    norm_num [V3.normSq_def, V3.dot_def]
  · rw [pt3dEps_real]; norm_num

/-- **pre-fix counterexample (finding F-C11-circle-axis-band, repaired upstream by 0e4a1a6).**
With the old test `sqr_len >= epsilon` (model `pointToCircle_asIs_before_fix`) the unit circle in
the xy-plane and `p = (1/2000, 0, 0)` — offset in the circle plane, direction cosine 1, so not in
the property's excluded band — gave `d = 1` although the circle point `(1, 0, 0)` is at distance
`1 − 1/2000`; the excess `5e-4` is far above `1e-6·L`. -/
theorem pointToCircle_asIs_before_fix_counterexample :
    ∃ res x, pointToCircle_asIs_before_fix (⟨1/2000, 0, 0⟩ : V) ⟨0, 0, 0⟩ 1 ⟨0, 0, 1⟩
        Gen.distance__circle__point_to_circle__epsilon = .ok res ∧
      circleSet ⟨0, 0, 0⟩ 1 ⟨0, 0, 1⟩ x ∧ res.dist = 1 ∧
      V3.normSq ((⟨1/2000, 0, 0⟩ : V) - x) = (1 - 1/2000) * (1 - 1/2000) := by
  have hperp : perpendicularToVector (⟨0, 0, 1⟩ : V) = .ok ⟨1, 0, -0 / 1⟩ := by
    unfold perpendicularToVector
    rw [absS_real, pt3dEps_real]
    norm_num [isZero_real]
  obtain ⟨res, hres, hd⟩ : ∃ res, pointToCircle_asIs_before_fix (⟨1/2000, 0, 0⟩ : V) ⟨0, 0, 0⟩ 1 ⟨0, 0, 1⟩
      Gen.distance__circle__point_to_circle__epsilon = .ok res ∧ res.dist = 1 := by
    unfold pointToCircle_asIs_before_fix pointToCircleThr Gen.distance__circle__point_to_circle__epsilon
    dsimp only
    rw [if_neg (by norm_num [V3.dot_def]), hperp]
    simp only [bind, Except.bind]
    refine ⟨_, rfl, ?_⟩
    show sqrt ((1 : ℝ) * 1 + _ * _) = 1
    norm_num [V3.dot_def]
  refine ⟨res, ⟨1, 0, 0⟩, hres, ?_, hd, ?_⟩
  · constructor <;> norm_num [V3.dot_def, V3.normSq_def]
  · norm_num [V3.normSq_def, V3.dot_def]

/-- **regression on the same input after the fix**: the current model returns exactly the
distance `1 − 1/2000` to the circle point `(1, 0, 0)` (`d² = (1 − 1/2000)²`, `d ≥ 0`). -/
theorem pointToCircle_fixed_on_witness :
    ∃ res, pointToCircle (⟨1/2000, 0, 0⟩ : V) ⟨0, 0, 0⟩ 1 ⟨0, 0, 1⟩
        Gen.distance__circle__point_to_circle__epsilon = .ok res ∧ 0 ≤ res.dist ∧
      res.dist * res.dist = (1 - 1/2000) * (1 - 1/2000) := by
  have hband : V3.normSq (((⟨1/2000, 0, 0⟩ : V) - ⟨0, 0, 0⟩) -
        V3.dot ((⟨1/2000, 0, 0⟩ : V) - ⟨0, 0, 0⟩) ⟨0, 0, 1⟩ * (⟨0, 0, 1⟩ : V)) = 0 ∨
      (Gen.distance__circle__point_to_circle__epsilon : ℝ) *
        Gen.distance__circle__point_to_circle__epsilon ≤
      V3.normSq (((⟨1/2000, 0, 0⟩ : V) - ⟨0, 0, 0⟩) -
        V3.dot ((⟨1/2000, 0, 0⟩ : V) - ⟨0, 0, 0⟩) ⟨0, 0, 1⟩ * (⟨0, 0, 1⟩ : V)) := by
    right
    unfold Gen.distance__circle__point_to_circle__epsilon
    norm_num [V3.normSq_def, V3.dot_def]
  obtain ⟨res, h1, hmem, h0, hd, hopt⟩ := pointToCircle_spec (⟨1/2000, 0, 0⟩ : V) ⟨0, 0, 0⟩ 1 ⟨0, 0, 1⟩ _
    (by norm_num [V3.dot_def]) zero_le_one circle_eps_pos hband
    (Or.inr (by rw [pt3dEps_real]; norm_num))
  refine ⟨res, h1, h0, le_antisymm ?_ ?_⟩
  · have := hopt ⟨1, 0, 0⟩ (by constructor <;> norm_num [V3.dot_def, V3.normSq_def])
    have e : V3.normSq ((⟨1/2000, 0, 0⟩ : V) - ⟨1, 0, 0⟩) = (1 - 1/2000) * (1 - 1/2000) := by
      norm_num [V3.normSq_def, V3.dot_def]
    rw [e] at this; exact this
  · -- every circle point is at least 1 − 1/2000 away: |p − cp|² = |p|² − 2⟨p, cp⟩ + 1 ≥ (1 − |p|)²
    rw [hd]
    obtain ⟨hm1, hm2⟩ := hmem
    generalize res.cp = q at *
    simp only [V3.normSq_def, V3.dot_def, V3.sub_x, V3.sub_y, V3.sub_z] at *
    nlinarith [mul_self_nonneg (q.x - 1), mul_self_nonneg q.y, mul_self_nonneg q.z]

/-! ### line_segment_to_triangle (partial: conditional on `_line_to_triangle`) -/

/- Full statement: for a triangle of non-zero area, `s ≠ e`, default epsilon,
   `lineSegmentToTriangle s e a b c` returns `.ok res` with `res.cpLine` on the segment,
   `res.cpPrim` in the triangle, `res.dist² = |cpLine − cpPrim|²` and no pair (segment point,
   triangle point) closer than `res.dist`.  Proved in `D3/Properties/C11LineTriangle.lean`
   (`line_segment_to_triangle_opt`, from `line_to_triangle_opt` and the theorem below) outside
   the tolerance band of `_line_to_triangle`. -/

/-- **C11, `line_segment_to_triangle`, partial.** Whenever `_line_to_triangle` on the carrier line
(unit direction computed by `convert_segment_to_line`) returns a result `r` that is feasible
and globally optimal for (line, triangle), the segment routine — clamp the line parameter to
`[0, length]` and call `point_to_triangle` on the end point — returns a result that is feasible
and globally optimal for (segment, triangle).  Rests on `clamp_convex` and
`point_to_triangle_opt`. -/
theorem line_segment_to_triangle_opt_partial (s e a b c : V) (eps maxFloat : ℝ)
    (hnd : 0 < V3.normSq (V3.cross (b - a) (c - a))) (hse : 0 < V3.normSq (e - s))
    (r : LnRes ℝ)
    (hr : lineToTriangleFull s (convertSegmentToLine s e).1 a b c eps maxFloat = .ok r)
    (h1 : r.cpLine = s + r.t * (convertSegmentToLine s e).1)
    (h2 : triangleSet a b c r.cpPrim) (h3 : 0 ≤ r.dist)
    (h4 : r.dist * r.dist = V3.normSq (r.cpLine - r.cpPrim))
    (h5 : ∀ (τ : ℝ) (y : V), triangleSet a b c y →
      r.dist * r.dist ≤ V3.normSq ((s + τ * (convertSegmentToLine s e).1) - y)) :
    ∃ res, lineSegmentToTriangle s e a b c eps maxFloat = .ok res ∧
      segmentSet s e res.cpLine ∧ triangleSet a b c res.cpPrim ∧ 0 ≤ res.dist ∧
      res.dist * res.dist = V3.normSq (res.cpLine - res.cpPrim) ∧
      ∀ x y, segmentSet s e x → triangleSet a b c y → res.dist * res.dist ≤ V3.normSq (x - y) :=
  lineSegmentToTriangle_of_line s e a b c eps maxFloat hnd hse r hr ⟨h1, h2, h3, h4, h5⟩

/-- non-vacuity of the well-formedness hypotheses (the conditional hypotheses `h1`–`h5` are what
the failing-input search checks numerically for `line_to_triangle` on every run) -/
example : 0 < V3.normSq ((⟨1, 2, 3⟩ : V) - ⟨0, 0, 1⟩) := by norm_num [V3.normSq_def]

end C11
end D3
