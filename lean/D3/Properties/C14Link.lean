/-
C14 ⟷ C03/C19 — link theorems.

`D3/Properties/C14.lean` treats the mesh kernels as parameters and leaves two theorems
conditional on facts about the hill-climbing kernel *for all arrays*:
  (a) `C14.no_exception_contiguous_pose`            needs `HillClimbTotal K`,
  (b) `C14.update_refines_fresh_startIndependent`   needs exact start independence for all data.
Neither hypothesis is a theorem about the real `hill_climb_mesh_extreme` (C03
`hillClimb_keyError`: malformed data raises; with ties two starts may end at different
vertices).  Here both are replaced by hypotheses about the mesh data the shape itself stores, and
those are discharged from C03 for the kernel record whose mesh slots are C03's model
(`IsC03Hill K` : `K.hillClimb` is `Support.hillClimb`; `IsC03Kernel K` : also `connections` and
`shortcuts` are those of `MeshData.build`; `withC03 K` is such a record for any `K`).

Vocabulary (D3/Proofs/ColliderStateLink.lean, D3/Proofs/ColliderStateJit.lean):
  `P03 vs cn sc i`            : `MeshWF ⟨vs, cn, sc⟩ ∧ Valid ⟨vs, cn, sc⟩ i`  (C03's preconditions)
  `shape.MeshOk K P`          : for the mesh inside `shape` (under any number of Margins), the
                                stored data `⟨vertices, K.connections triangles, K.shortcuts
                                vertices⟩` and the constructor's `first_idx = np.min(triangles)`
                                satisfy `P`; `True` for a shape without a mesh
  `shape.TrianglesOk`         : the same in terms of the raw constructor arguments (C03
                                `mesh_build_wf`): triangle indices are vertex indices, every
                                shortcut vertex occurs in a triangle
  `shape.StartOk K P i`       : `P` for the stored data and start index `i`
  `shape.StartIndepAt K P dm` : `K.hillClimb dm i data = K.hillClimb dm j data` for all `i j` with `P`
  `shape.MeshDataSat K Q`     : `Q` holds for the stored mesh data
  `meshDirsOf p0 ops`         : the mesh-frame directions `mesh2origin[:3,:3].T @ d` of the
                                `support_function(d)` calls of the history, each with the pose
                                current at that call
  `OutsRel R p0 ops os os'`   : `os`, `os'` agree at every call but `support_function`, whose two
                                outputs are related by `R (current pose) d`

What remains open after this file: `Unimodal` (and uniqueness of the maximiser) are hypotheses
on the mesh and the query directions, exactly as in C03 (not derived from convexity); without a
unique maximiser the index-level equality (b) is false in general and only the value-level
statement `support_values_close` holds.
-/
import D3.Properties.C14
import D3.Properties.C03
import D3.Proofs.ColliderStateLink

namespace D3
namespace C14Link
open CS

/-! ## concrete input used by the non-vacuity examples

`exK`: C14's example kernel record with its three mesh slots replaced by C03's functions;
`C14.exMesh`: the tetrahedron, for which the constructor stores exactly C03's `tetra`. -/

noncomputable def exK : Kernels ℝ := withC03 C14.exKernels

theorem exK_c03 : IsC03Kernel exK := isC03Kernel_withC03 _

theorem ex_shortcuts :
    shortcuts03 (#[⟨0, 0, 0⟩, ⟨1, 0, 0⟩, ⟨0, 1, 0⟩, ⟨0, 0, 1⟩] : Array V) = [1, 2, 3, 0, 0, 0] := by
  simp [shortcuts03, Support.argBest0, Support.argBest]
  norm_num

theorem ex_conn :
    conn03 [(0, 1, 2), (0, 1, 3), (0, 2, 3), (1, 2, 3)]
      = [(0, [1, 2, 3]), (1, [0, 2, 3]), (2, [0, 1, 3]), (3, [0, 1, 2])] := by
  decide


theorem exMesh_trianglesOk : C14.exMesh.TrianglesOk := by
  simp only [C14.exMesh, Shape.TrianglesOk, ex_shortcuts]
  constructor
  · simp [Support.TriVert]
  · simp [Support.TriVert]

theorem exMesh_meshOk : C14.exMesh.MeshOk exK P03 :=
  meshOk_of_trianglesOk exK exK_c03 _ exMesh_trianglesOk

/-- the data the constructor stores for `C14.exMesh` under `exK` is C03's tetrahedron -/
theorem exMesh_data :
    (⟨#[⟨0, 0, 0⟩, ⟨1, 0, 0⟩, ⟨0, 1, 0⟩, ⟨0, 0, 1⟩],
      exK.connections [(0, 1, 2), (0, 1, 3), (0, 2, 3), (1, 2, 3)],
      exK.shortcuts #[⟨0, 0, 0⟩, ⟨1, 0, 0⟩, ⟨0, 1, 0⟩, ⟨0, 0, 1⟩]⟩ : Support.MeshData ℝ) = C03.tetra := by
  have h1 : exK.connections [(0, 1, 2), (0, 1, 3), (0, 2, 3), (1, 2, 3)] = _ := ex_conn
  have h2 : exK.shortcuts (#[⟨0, 0, 0⟩, ⟨1, 0, 0⟩, ⟨0, 1, 0⟩, ⟨0, 0, 1⟩] : Array V) = _ := ex_shortcuts
  rw [h1, h2]
  rfl


/-- `Unimodal` for the tetrahedron, via C03's decidable check -/
theorem tetra_unimodal (d : V)
    (h : Support.unimodalCheck (Gen.mesh__PROJECTION_LENGTH_EPSILON : ℝ) 0 d C03.tetra = true) :
    Support.Unimodal (Gen.mesh__PROJECTION_LENGTH_EPSILON : ℝ) 0 d C03.tetra :=
  C03.unimodal_of_check _ _ _ _ h

theorem tetra_unimodal_123 :
    Support.Unimodal (Gen.mesh__PROJECTION_LENGTH_EPSILON : ℝ) 0 ⟨1, 2, 3⟩ C03.tetra := by
  apply tetra_unimodal
  simp [Support.unimodalCheck, C03.tetra, Support.projAt, V3.dot_def, List.range, List.range.loop,
    List.lookup, Gen.mesh__PROJECTION_LENGTH_EPSILON]
  norm_num

theorem tetra_uniqueMax_of (d : V)
    (h0 : Support.proj d C03.tetra.verts 0 < Support.proj d C03.tetra.verts 3)
    (h1 : Support.proj d C03.tetra.verts 1 < Support.proj d C03.tetra.verts 3)
    (h2 : Support.proj d C03.tetra.verts 2 < Support.proj d C03.tetra.verts 3) :
    UniqueMax d C03.tetra := by
  have key : ∀ a, a < C03.tetra.verts.size →
      (∀ k, k < C03.tetra.verts.size → Support.proj d C03.tetra.verts k ≤ Support.proj d C03.tetra.verts a) →
      a = 3 := by
    intro a ha hg
    have h3 := hg 3 (by simp [C03.tetra])
    have ha' : a < 4 := by simpa [C03.tetra] using ha
    have : a = 0 ∨ a = 1 ∨ a = 2 ∨ a = 3 := by omega
    rcases this with rfl | rfl | rfl | rfl
    · linarith
    · linarith
    · linarith
    · rfl
  intro a b ha hb hga hgb
  rw [key a ha hga, key b hb hgb]

theorem tetra_uniqueMax_123 : UniqueMax ⟨1, 2, 3⟩ C03.tetra := by
  apply tetra_uniqueMax_of <;> norm_num [Support.proj, C03.tetra, V3.dot_def]

theorem tetra_unimodal_2m13 :
    Support.Unimodal (Gen.mesh__PROJECTION_LENGTH_EPSILON : ℝ) 0 ⟨2, -1, 3⟩ C03.tetra := by
  apply tetra_unimodal
  simp [Support.unimodalCheck, C03.tetra, Support.projAt, V3.dot_def, List.range, List.range.loop,
    List.lookup, Gen.mesh__PROJECTION_LENGTH_EPSILON]
  norm_num

theorem tetra_uniqueMax_2m13 : UniqueMax ⟨2, -1, 3⟩ C03.tetra := by
  apply tetra_uniqueMax_of <;> norm_num [Support.proj, C03.tetra, V3.dot_def]

theorem tetra_unimodal_122 :
    Support.Unimodal (Gen.mesh__PROJECTION_LENGTH_EPSILON : ℝ) 0 ⟨1, 2, 2⟩ C03.tetra := by
  apply tetra_unimodal
  simp [Support.unimodalCheck, C03.tetra, Support.projAt, V3.dot_def, List.range, List.range.loop,
    List.lookup, Gen.mesh__PROJECTION_LENGTH_EPSILON]
  norm_num

theorem tetra_unimodal_2m12 :
    Support.Unimodal (Gen.mesh__PROJECTION_LENGTH_EPSILON : ℝ) 0 ⟨2, -1, 2⟩ C03.tetra := by
  apply tetra_unimodal
  simp [Support.unimodalCheck, C03.tetra, Support.projAt, V3.dot_def, List.range, List.range.loop,
    List.lookup, Gen.mesh__PROJECTION_LENGTH_EPSILON]
  norm_num

/-- a history with two `support_function((1,2,3))` calls around an `update_pose` to a rotated,
translated pose -/
def exOps3 : List (Op ℝ) :=
  [.query (.support ⟨⟨1, 2, 3⟩, .c⟩), .updatePose C14.exPose, .query (.support ⟨⟨1, 2, 3⟩, .c⟩),
   .query .aabb]

theorem exOps3_dirs : meshDirsOf C14.exPose0 exOps3 = [⟨1, 2, 3⟩, ⟨2, -1, 3⟩] := by
  simp [exOps3, meshDirsOf, C14.exPose0, C14.exPose, M3.tmulVec, M3.one, M3.col0, M3.col1, M3.col2,
    V3.dot_def]

theorem exOps_dirs : meshDirsOf C14.exPose0 C14.exOps = [⟨1, 2, 2⟩, ⟨2, -1, 2⟩] := by
  simp [C14.exOps, C14.exDir, meshDirsOf, C14.exPose0, C14.exPose, M3.tmulVec, M3.one, M3.col0,
    M3.col1, M3.col2, V3.dot_def]


theorem exMesh_sat (Q : Support.MeshData ℝ → Prop) : C14.exMesh.MeshDataSat exK Q ↔ Q C03.tetra := by
  simp only [C14.exMesh, Shape.MeshDataSat, exMesh_data]

theorem exOps3_admissible : Admissible .jit exOps3 := by
  intro p hp
  simp [exOps3, posesOf] at hp
  subst hp; exact Or.inr rfl

example : ∃ c0, atPose .jit exK C14.exMesh C14.exPose0 = .ok c0 ∧ c0.firstIdx = 0 := ⟨_, rfl, rfl⟩

example : P03 C03.tetra.verts C03.tetra.conn C03.tetra.shortcuts 0 := ⟨C03.tetra_wf, C03.tetra_valid0⟩

/-! ## (a) no exception: totality relativised to the shape's own mesh data -/

/-- **C03 discharges the kernel hypothesis** (`C03.hillClimb_terminates_local`): the modelled
`hill_climb_mesh_extreme` is total on C03-well-formed data from valid starts, and returns a
valid start. -/
theorem hillClimbTotalOn_c03 (K : Kernels ℝ) (hK : IsC03Hill K) : HillClimbTotalOn K P03 :=
  CS.hillClimbTotalOn_c03 K hK

example : ∃ k, exK.hillClimb ⟨1, 2, 3⟩ 0 C03.tetra.verts C03.tetra.conn C03.tetra.shortcuts = some k ∧
    k < C03.tetra.verts.size :=
  let ⟨k, h1, h2, _⟩ := hillClimbTotalOn_c03 exK exK_c03.hill ⟨1, 2, 3⟩ 0 _ _ _
    ⟨C03.tetra_wf, C03.tetra_valid0⟩
  ⟨k, h1, h2⟩

/-- **(a), any kernel.**  `no_exception_contiguous_pose` with `HillClimbTotal K` (for all
arrays) replaced by: the hill climb is total *on `P`* (returns an in-range index that satisfies
`P` again), and the mesh data/start index the constructor of `shape` stores satisfy `P`.  The
invariant "the cached `first_idx` satisfies `P`" is carried through every `update_pose` (which
keeps data and index), every query and all Margin wrappers. -/
theorem no_exception_contiguous_pose_on (e : Engine) (K : Kernels ℝ) (P : MeshPred ℝ)
    (hK : HillClimbTotalOn K P) (shape : Shape ℝ) (hm : shape.MeshOk K P) (p0 : Arr (M4 ℝ))
    (c0 : Collider ℝ) (ops : List (Op ℝ))
    (hs : shape.contigParams = true) (hp0 : p0.layout = .c)
    (hmk : atPose e K shape p0 = .ok c0) (hP : PosesContig ops) (hD : DirsContig ops) :
    ∀ o ∈ run e K c0 ops, ∃ v, o = .ok v := by
  have hadm : Admissible e ops := fun p hp => Or.inr (hP p hp)
  rw [C14.update_refines_fresh e K shape p0 c0 ops hmk hadm]
  exact runFresh_ok_on e K P hK shape hs ops p0 _ c0 hmk hp0
    (startOk_atPose e K P shape p0 c0 hm hmk) hP hD

example (c0 : Collider ℝ) (h : atPose .jit exK C14.exMesh C14.exPose0 = .ok c0) :
    ∀ o ∈ run .jit exK c0 C14.exOps, ∃ v, o = .ok v :=
  no_exception_contiguous_pose_on .jit exK P03 (hillClimbTotalOn_c03 exK exK_c03.hill) _
    exMesh_meshOk _ c0 _ rfl rfl h C14.exOps_admissible.2.1 C14.exOps_admissible.2.2

/-- the old theorem is the instance `P := non-empty vertex array` of the relativised one -/
example (e : Engine) (K : Kernels ℝ) (hK : HillClimbTotal K) (shape : Shape ℝ) (p0 : Arr (M4 ℝ))
    (c0 : Collider ℝ) (ops : List (Op ℝ)) (hs : shape.contigParams = true) (hp0 : p0.layout = .c)
    (hmk : atPose e K shape p0 = .ok c0) (hP : PosesContig ops) (hD : DirsContig ops) :
    ∀ o ∈ run e K c0 ops, ∃ v, o = .ok v := by
  have hadm : Admissible e ops := fun p hp => Or.inr (hP p hp)
  rw [C14.update_refines_fresh e K shape p0 c0 ops hmk hadm]
  exact runFresh_ok_on e K _ (hillClimbTotalOn_of_total K hK) shape hs ops p0 _ c0 hmk hp0
    (startOk_size_of_atPose e K shape p0 c0 _ hmk) hP hD

/-- **(a), C03 kernel: no `HillClimbTotal` hypothesis.**  Either engine; the hill-climbing slot
of `K` is C03's model of `hill_climb_mesh_extreme`; the mesh data stored for the shape is
`MeshWF` and the constructor's `first_idx` is `Valid` (both in C03's sense; nothing is required of
a shape without a mesh); shape arrays, construction pose, later poses and search directions
C-contiguous.  Then every call of every history returns normally: no `TypeError`, no `KeyError`,
no `IndexError`. -/
theorem no_exception_contiguous_pose_mesh (e : Engine) (K : Kernels ℝ) (hK : IsC03Hill K)
    (shape : Shape ℝ) (hm : shape.MeshOk K P03) (p0 : Arr (M4 ℝ)) (c0 : Collider ℝ)
    (ops : List (Op ℝ)) (hs : shape.contigParams = true) (hp0 : p0.layout = .c)
    (hmk : atPose e K shape p0 = .ok c0) (hP : PosesContig ops) (hD : DirsContig ops) :
    ∀ o ∈ run e K c0 ops, ∃ v, o = .ok v :=
  no_exception_contiguous_pose_on e K P03 (hillClimbTotalOn_c03 K hK) shape hm p0 c0 ops hs hp0
    hmk hP hD

/-- the tetrahedron mesh, bare and inside a Margin, JIT engine, the history `C14.exOps` -/
example (c0 : Collider ℝ) (h : atPose .jit exK C14.exMesh C14.exPose0 = .ok c0) :
    ∀ o ∈ run .jit exK c0 C14.exOps, ∃ v, o = .ok v :=
  no_exception_contiguous_pose_mesh .jit exK exK_c03.hill _ exMesh_meshOk _ c0 _ rfl rfl h
    C14.exOps_admissible.2.1 C14.exOps_admissible.2.2

example : ∃ c0, atPose .jit exK (.margin C14.exMesh 0.1) C14.exPose0 = .ok c0 ∧
    ∀ o ∈ run .jit exK c0 C14.exOps, ∃ v, o = .ok v :=
  ⟨_, rfl, no_exception_contiguous_pose_mesh .jit exK exK_c03.hill (.margin C14.exMesh 0.1)
    exMesh_meshOk _ _ _ rfl rfl rfl C14.exOps_admissible.2.1 C14.exOps_admissible.2.2⟩

/-- **the constructor establishes the hypothesis** (`C03.mesh_build_wf`): if all three mesh
slots of `K` are C03's, the data `atPose` stores is what `MeshData.build` builds, so it is
well-formed with a valid `first_idx` as soon as the triangle indices are vertex indices and every
shortcut vertex occurs in some triangle. -/
theorem meshOk_of_trianglesOk (K : Kernels ℝ) (hK : IsC03Kernel K) (shape : Shape ℝ)
    (h : shape.TrianglesOk) : shape.MeshOk K P03 :=
  CS.meshOk_of_trianglesOk K hK shape h

example : C14.exMesh.TrianglesOk ∧ C14.exMesh.MeshOk exK P03 :=
  ⟨exMesh_trianglesOk, meshOk_of_trianglesOk exK exK_c03 _ exMesh_trianglesOk⟩

/-- **(a) in terms of the constructor arguments.** -/
theorem no_exception_contiguous_pose_mesh_raw (e : Engine) (K : Kernels ℝ) (hK : IsC03Kernel K)
    (shape : Shape ℝ) (ht : shape.TrianglesOk) (p0 : Arr (M4 ℝ)) (c0 : Collider ℝ)
    (ops : List (Op ℝ)) (hs : shape.contigParams = true) (hp0 : p0.layout = .c)
    (hmk : atPose e K shape p0 = .ok c0) (hP : PosesContig ops) (hD : DirsContig ops) :
    ∀ o ∈ run e K c0 ops, ∃ v, o = .ok v :=
  no_exception_contiguous_pose_mesh e K hK.hill shape (meshOk_of_trianglesOk K hK shape ht) p0 c0
    ops hs hp0 hmk hP hD

example (c0 : Collider ℝ) (h : atPose .interp exK C14.exMesh C14.exPose0 = .ok c0) :
    ∀ o ∈ run .interp exK c0 C14.exOps, ∃ v, o = .ok v :=
  no_exception_contiguous_pose_mesh_raw .interp exK exK_c03 _ exMesh_trianglesOk _ c0 _ rfl rfl h
    C14.exOps_admissible.2.1 C14.exOps_admissible.2.2

/-! ## (b) history independence -/

/-- **(b1), any kernel.**  `update_refines_fresh_startIndependent` with start independence
required only of the shape's own mesh data, between start indices satisfying `P` (an invariant
of the hill climb, established by the constructor), and only in the mesh-frame directions that
occur in the history. -/
theorem update_refines_fresh_startIndependentOn (e : Engine) (K : Kernels ℝ) (P : MeshPred ℝ)
    (hcl : HillClimbClosedOn K P) (shape : Shape ℝ) (hm : shape.MeshOk K P) (p0 : Arr (M4 ℝ))
    (c0 : Collider ℝ) (ops : List (Op ℝ))
    (hind : ∀ dm ∈ meshDirsOf p0 ops, shape.StartIndepAt K P dm)
    (hmk : atPose e K shape p0 = .ok c0) (hadm : Admissible e ops) :
    run e K c0 ops = runFreshPlain e K shape p0 ops := by
  rw [C14.update_refines_fresh e K shape p0 c0 ops hmk hadm]
  exact runFresh_eq_plain_of_startIndependentOn e K P hcl shape hm ops p0 _
    (startOk_atPose e K P shape p0 c0 hm hmk) hind

/-- the old theorem is the instance `P := True` -/
example (e : Engine) (K : Kernels ℝ) (shape : Shape ℝ) (p0 : Arr (M4 ℝ)) (c0 : Collider ℝ)
    (ops : List (Op ℝ))
    (hK : ∀ d i j vs cn sc, K.hillClimb d i vs cn sc = K.hillClimb d j vs cn sc)
    (hmk : atPose e K shape p0 = .ok c0) (hadm : Admissible e ops) :
    run e K c0 ops = runFreshPlain e K shape p0 ops :=
  update_refines_fresh_startIndependentOn e K (fun _ _ _ _ => True)
    (fun _ _ _ _ _ _ _ _ => trivial) shape (meshOk_true K shape) p0 c0 ops
    (fun dm _ => startIndepAt_of_global K _ hK dm shape) hmk hadm

/-- non-vacuity: the tetrahedron under the C03 kernel, where start independence holds for the
two mesh-frame directions of `exOps3` without holding for all data -/
example (c0 : Collider ℝ) (h : atPose .jit exK C14.exMesh C14.exPose0 = .ok c0) :
    run .jit exK c0 exOps3 = runFreshPlain .jit exK C14.exMesh C14.exPose0 exOps3 :=
  update_refines_fresh_startIndependentOn .jit exK P03 (hillClimbTotalOn_c03 exK exK_c03.hill).closed
    _ exMesh_meshOk _ c0 _
    (by
      intro dm hdm
      apply startIndepAt_of_unimodal_unique exK exK_c03.hill
      rw [exMesh_sat]
      rw [exOps3_dirs] at hdm
      simp only [List.mem_cons, List.not_mem_nil, or_false] at hdm
      rcases hdm with rfl | rfl
      · exact ⟨tetra_unimodal_123, tetra_uniqueMax_123⟩
      · exact ⟨tetra_unimodal_2m13, tetra_uniqueMax_2m13⟩)
    h exOps3_admissible

/-- **(b2), C03.**  On `MeshWF` data that is `Unimodal τ 0` for the direction (every vertex
that is not a maximiser has a neighbour better by more than `τ = PROJECTION_LENGTH_EPSILON`) and
whose maximum of `d · vertices[k]` is attained at one index only, `hill_climb_mesh_extreme`
returns the same index — the maximiser — from any two valid starts (only the branch ids may
differ). -/
theorem hillClimb_startIndependent_of_unique (d : V) (m : Support.MeshData ℝ)
    (hwf : Support.MeshWF m)
    (hu : Support.Unimodal (Gen.mesh__PROJECTION_LENGTH_EPSILON : ℝ) 0 d m) (hq : UniqueMax d m)
    (i j : Nat) (hi : Support.Valid m i) (hj : Support.Valid m j) :
    ∃ r bi bj, Support.hillClimb d i m = .ok (r, bi) ∧ Support.hillClimb d j m = .ok (r, bj) ∧
      Support.Valid m r ∧ ∀ k, k < m.verts.size → Support.proj d m.verts k ≤ Support.proj d m.verts r :=
  hillClimbT_startIndependent _ Support.eps_nonneg d m hwf hu hq i j hi hj

/-- the tetrahedron, direction (1,2,3), starts 0 and 2 -/
example : ∃ r bi bj, Support.hillClimb (⟨1, 2, 3⟩ : V) 0 C03.tetra = .ok (r, bi) ∧
    Support.hillClimb (⟨1, 2, 3⟩ : V) 2 C03.tetra = .ok (r, bj) ∧ Support.Valid C03.tetra r :=
  let ⟨r, bi, bj, h1, h2, h3, _⟩ := hillClimb_startIndependent_of_unique ⟨1, 2, 3⟩ C03.tetra
    C03.tetra_wf tetra_unimodal_123 tetra_uniqueMax_123 0 2 C03.tetra_valid0
    ⟨by decide, [0, 1, 3], rfl⟩
  ⟨r, bi, bj, h1, h2, h3⟩

/-- **(b3), C03 kernel: a MeshGraph after `update_pose` is a fresh MeshGraph.**  The
hill-climbing slot of `K` is C03's; the stored mesh data is `MeshWF` with `Valid` constructor
index; the mesh is `Unimodal τ 0` with a unique maximiser for every mesh-frame query direction of
the history.  Then the history on the updated object shows exactly the outputs of the plain
fresh replay (`runFreshPlain`: every query asked of a collider newly built at the last pose,
nothing carried over). -/
theorem update_refines_fresh_mesh_unique (e : Engine) (K : Kernels ℝ) (hK : IsC03Hill K)
    (shape : Shape ℝ) (hm : shape.MeshOk K P03) (p0 : Arr (M4 ℝ)) (c0 : Collider ℝ)
    (ops : List (Op ℝ))
    (hdirs : ∀ dm ∈ meshDirsOf p0 ops, shape.MeshDataSat K (fun m =>
      Support.Unimodal (Gen.mesh__PROJECTION_LENGTH_EPSILON : ℝ) 0 dm m ∧ UniqueMax dm m))
    (hmk : atPose e K shape p0 = .ok c0) (hadm : Admissible e ops) :
    run e K c0 ops = runFreshPlain e K shape p0 ops :=
  update_refines_fresh_startIndependentOn e K P03 (hillClimbTotalOn_c03 K hK).closed shape hm p0 c0
    ops (fun dm h => startIndepAt_of_unimodal_unique K hK dm shape (hdirs dm h)) hmk hadm

/-- the tetrahedron: `support_function((1,2,3))`, `update_pose` (rotation by 90° about z and a
translation), `support_function((1,2,3))`, `aabb` — mesh-frame directions (1,2,3) and (2,-1,3) -/
example (c0 : Collider ℝ) (h : atPose .jit exK C14.exMesh C14.exPose0 = .ok c0) :
    run .jit exK c0 exOps3 = runFreshPlain .jit exK C14.exMesh C14.exPose0 exOps3 :=
  update_refines_fresh_mesh_unique .jit exK exK_c03.hill _ exMesh_meshOk _ c0 _
    (by
      intro dm hdm
      rw [exMesh_sat]
      rw [exOps3_dirs] at hdm
      simp only [List.mem_cons, List.not_mem_nil, or_false] at hdm
      rcases hdm with rfl | rfl
      · exact ⟨tetra_unimodal_123, tetra_uniqueMax_123⟩
      · exact ⟨tetra_unimodal_2m13, tetra_uniqueMax_2m13⟩)
    h exOps3_admissible

/-- **model agreement.**  With C03's hill climb in the kernel slot, `MeshGraph.support_function`
of the C14 state model is C03's `meshCall` on the functor's pose, stored data and cached index:
same direction transform, same arguments, same posed vertex, same cached result. -/
theorem meshSupport_is_meshCall (K : Kernels ℝ) (hK : IsC03Hill K) (s : MeshC ℝ) (d : V)
    (idx : Nat) (pt : V) (br : Nat)
    (h : Support.meshCall s.sf.mesh2origin.val.P ⟨s.sf.vertices, s.sf.connections, s.sf.shortcuts⟩
      s.sf.firstIdx d = .ok (idx, pt, br)) :
    s.support K d = ({ s with sf := { s.sf with firstIdx := idx } }, .ok (.vec pt)) :=
  meshSupport_of_meshCall K hK s d idx pt br h

example : ∃ idx pt, MeshC.support exK
      ⟨C14.exPose, C03.tetra.verts, [], ⟨C14.exPose, C03.tetra.verts, 0, C03.tetra.conn, C03.tetra.shortcuts⟩⟩
      ⟨1, 2, 3⟩
    = (⟨C14.exPose, C03.tetra.verts, [], ⟨C14.exPose, C03.tetra.verts, idx, C03.tetra.conn, C03.tetra.shortcuts⟩⟩,
       .ok (.vec pt)) ∧ Support.meshSet C14.exPose.val.P C03.tetra pt :=
  let ⟨idx, pt, br, h1, _, h3, _⟩ :=
    C03.mesh_call C14.exPose.val.P C03.tetra C03.tetra_wf 0 C03.tetra_valid0 ⟨1, 2, 3⟩
  ⟨idx, pt, meshSupport_is_meshCall exK exK_c03.hill
    ⟨C14.exPose, C03.tetra.verts, [], ⟨C14.exPose, C03.tetra.verts, 0, C03.tetra.conn, C03.tetra.shortcuts⟩⟩
    ⟨1, 2, 3⟩ idx pt br h1, h3⟩

/-- **(b4), value level, no uniqueness needed** (`C03.mesh_history_independent` transported).
C03 kernel, well-formed stored data, the mesh `Unimodal τ τ'` for every mesh-frame query
direction of the history.  Then the outputs on the updated object and those of the plain fresh
replay agree at every call except `support_function`, and for each `support_function(d)` they are
equal or two support points whose support values `d · v` differ by at most `τ'` (through any
number of Margin wrappers). -/
theorem support_values_close (e : Engine) (K : Kernels ℝ) (hK : IsC03Hill K) (τ' : ℝ)
    (shape : Shape ℝ) (hm : shape.MeshOk K P03) (p0 : Arr (M4 ℝ)) (c0 : Collider ℝ)
    (ops : List (Op ℝ))
    (hdirs : ∀ dm ∈ meshDirsOf p0 ops, shape.MeshDataSat K
      (Support.Unimodal (Gen.mesh__PROJECTION_LENGTH_EPSILON : ℝ) τ' dm))
    (hmk : atPose e K shape p0 = .ok c0) (hadm : Admissible e ops) :
    OutsRel (fun _ d => SupClose τ' d.val) p0 ops (run e K c0 ops)
      (runFreshPlain e K shape p0 ops) := by
  rw [C14.update_refines_fresh e K shape p0 c0 ops hmk hadm]
  exact runFresh_rel e K P03 (hillClimbTotalOn_c03 K hK).closed _
    (fun dm => shape.MeshDataSat K (Support.Unimodal (Gen.mesh__PROJECTION_LENGTH_EPSILON : ℝ) τ' dm))
    shape hm
    (fun last f i j d hf hi hj hu => query_support_close e K hK τ' shape last f i j d hf hi hj hu)
    ops p0 _ c0 hmk hadm (startOk_atPose e K P03 shape p0 c0 hm hmk) hdirs

theorem exOps_unimodal : ∀ dm ∈ meshDirsOf C14.exPose0 C14.exOps,
    Support.Unimodal (Gen.mesh__PROJECTION_LENGTH_EPSILON : ℝ) 0 dm C03.tetra := by
  intro dm hdm
  rw [exOps_dirs] at hdm
  simp only [List.mem_cons, List.not_mem_nil, or_false] at hdm
  rcases hdm with rfl | rfl
  · exact tetra_unimodal_122
  · exact tetra_unimodal_2m12

/-- the tetrahedron inside a Margin, history `C14.exOps`: its direction (1,2,2) has the two
maximisers (0,1,0) and (0,0,1) (so (b3) does not apply), `τ' = 0`; read at call 0 -/
example (c0 : Collider ℝ) (h : atPose .jit exK (.margin C14.exMesh 0.1) C14.exPose0 = .ok c0) :
    ∃ o o', (run .jit exK c0 C14.exOps)[0]? = some o ∧
      (runFreshPlain .jit exK (.margin C14.exMesh 0.1) C14.exPose0 C14.exOps)[0]? = some o' ∧
      SupClose 0 ⟨1, 2, 2⟩ o o' :=
  OutsRel.support_at _ _ _ _ _
    (support_values_close .jit exK exK_c03.hill 0 (.margin C14.exMesh 0.1) exMesh_meshOk _ c0 _
      (fun dm hdm => (exMesh_sat _).mpr (exOps_unimodal dm hdm)) h C14.exOps_admissible.1)
    0 C14.exDir rfl

/-- **(b4) for a bare MeshGraph, with the vertices.**  Same hypotheses; every
`support_function(d)` of the history on the updated object and the corresponding call of the
plain fresh replay both succeed, both return a vertex of the mesh posed at the pose current at
that call, and the two support values differ by at most `τ'`. -/
theorem mesh_support_vertices_close (e : Engine) (K : Kernels ℝ) (hK : IsC03Hill K) (τ' : ℝ)
    (verts : Array V) (tris : List (Nat × Nat × Nat)) (hm : (Shape.mesh verts tris).MeshOk K P03)
    (p0 : Arr (M4 ℝ)) (c0 : Collider ℝ) (ops : List (Op ℝ))
    (hdirs : ∀ dm ∈ meshDirsOf p0 ops, Support.Unimodal (Gen.mesh__PROJECTION_LENGTH_EPSILON : ℝ) τ' dm
      ⟨verts, K.connections tris, K.shortcuts verts⟩)
    (hmk : atPose e K (.mesh verts tris) p0 = .ok c0) (hadm : Admissible e ops) :
    OutsRel (fun cur d o o' => ∃ v v', o = .ok (.vec v) ∧ o' = .ok (.vec v') ∧
        (∃ k, ∃ hk : k < verts.size, v = meshPoint cur.val verts[k]) ∧
        (∃ k, ∃ hk : k < verts.size, v' = meshPoint cur.val verts[k]) ∧
        V3.dot d.val v ≤ V3.dot d.val v' + τ' ∧ V3.dot d.val v' ≤ V3.dot d.val v + τ')
      p0 ops (run e K c0 ops) (runFreshPlain e K (.mesh verts tris) p0 ops) := by
  rw [C14.update_refines_fresh e K _ p0 c0 ops hmk hadm]
  refine runFresh_rel e K P03 (hillClimbTotalOn_c03 K hK).closed _
    (fun dm => Support.Unimodal (Gen.mesh__PROJECTION_LENGTH_EPSILON : ℝ) τ' dm
      ⟨verts, K.connections tris, K.shortcuts verts⟩)
    (.mesh verts tris) hm ?_ ops p0 _ c0 hmk hadm (startOk_atPose e K P03 _ p0 c0 hm hmk) hdirs
  intro last f i j d hf hi hj hu
  obtain ⟨v, v', h1, h2, hv, hv', _, _, hle, hle'⟩ :=
    mesh_query_support_close e K hK τ' verts tris last f i j d hf hi hj hu
  exact ⟨v, v', h1, h2, hv, hv', hle, hle'⟩

/-- the tetrahedron, `C14.exOps`, the `support_function` after the `update_pose` (call 2) -/
example (c0 : Collider ℝ) (h : atPose .jit exK C14.exMesh C14.exPose0 = .ok c0) :
    ∃ o o', (run .jit exK c0 C14.exOps)[2]? = some o ∧
      (runFreshPlain .jit exK C14.exMesh C14.exPose0 C14.exOps)[2]? = some o' ∧
      ∃ v v', o = .ok (.vec v) ∧ o' = .ok (.vec v') ∧
        (∃ k, ∃ hk : k < 4, v = meshPoint C14.exPose.val C03.tetra.verts[k]) ∧
        (∃ k, ∃ hk : k < 4, v' = meshPoint C14.exPose.val C03.tetra.verts[k]) ∧
        V3.dot (⟨1, 2, 2⟩ : V) v ≤ V3.dot (⟨1, 2, 2⟩ : V) v' + 0 ∧
        V3.dot (⟨1, 2, 2⟩ : V) v' ≤ V3.dot (⟨1, 2, 2⟩ : V) v + 0 :=
  OutsRel.support_at _ _ _ _ _
    (mesh_support_vertices_close .jit exK exK_c03.hill 0 _ _ exMesh_meshOk _ c0 _
      (fun dm hdm => by rw [exMesh_data]; exact exOps_unimodal dm hdm) h C14.exOps_admissible.1)
    2 C14.exDir rfl

end C14Link
end D3
