/-
C13 ↔ C03 (and C13 ↔ C10/C11) — cross-property LINK theorems.

`D3/Properties/C13.lean` proves `pointInX p … = true ↔ XSet p` for the containment predicates of
`containment_test.py` against the sets of `D3/Proofs/ContainTestSets.lean`;
`D3/Properties/C03.lean` proves `IsSupport XSet' d (supportX d …)` for the support mappings of
`geometry.py` / `colliders.py` against the sets of `D3/Proofs/SupportSets.lean`.  The two
families of sets were written independently.  This file proves

1. `X_sets_iff` : the two definitions describe the **same set**, with the parameters exactly
   as the collider classes pass them (same pose, same radius, capsule/cylinder *full* height,
   box *full* edge lengths, cone base at the pose origin and apex at `+h` on the local z axis,
   disk centre `A.t` and normal `A.R.col2`).  No reparametrisation is needed for any shape.
2. `X_contained_le_support` : every point accepted by the **modelled predicate**
   (`D3.ContainTest.pointInX`) projects, along every direction `d` (also `d = 0`), at most as far
   as the point returned by the **modelled support function** (`D3.Support.supportX`).
3. `X_support_contained` : conversely the modelled support point is itself accepted by the
   modelled predicate — so the bound of 2. is attained (`X_isSupport_of_predicate` packs 2.+3.
   as `IsSupport {p | pointInX p = true} d (supportX d)`).
4. `box/cylinder/disk_agreement_distance` : `pointInX p = true ↔ (pointToX p …).dist = 0`
   against the C10/C11 model (`D3.DistPoly`).

The disk is the one shape where predicate and support mapping are about different sets
(`points_in_disk` accepts the slab `|⟨p−c,n⟩| ≤ 10·EPSILON`, `support_function_disk` is about the
flat disk): the bound carries the explicit slack `diskSlab·|⟨d,n⟩|`, and it vanishes for the flat
disk.  C13 has no ellipse predicate, so `Ellipse` is not linked.

All statements are about the same model terms as C13 / C03 / C11 at `α := ℝ`.
-/
import D3.Proofs.ContainTestLink
import D3.Properties.C13
import D3.Properties.C03
import D3.Properties.C11

namespace D3
namespace C13Link
open ContainTest ContainTestLink

/-! ## 1. the sets of C13 and of C03 are the same sets -/

/-- **Sphere.** C13's ball (pose image of `|q| ≤ r`) is C03's ball `|p − c|² ≤ r²` about the
translation of the pose. -/
theorem sphere_sets_iff {A : Pose ℝ} (hA : Orthonormal A.R) {r : ℝ} (hr : 0 ≤ r) (p : V) :
    ballSet A r p ↔ Support.ballSet A.t r p :=
  ballSet_iff hA hr p

example : ballSet C13.exPose 1 C13.exPoint ↔ Support.ballSet ⟨1, 2, 3⟩ 1 C13.exPoint :=
  sphere_sets_iff C13.exPose_orth zero_le_one _

/-- **Capsule.** Same pose, same radius, same (full) height: C13's capsule set is C03's, for
every pose matrix and every height. -/
theorem capsule_sets_iff (A : Pose ℝ) {r : ℝ} (hr : 0 ≤ r) (h : ℝ) (p : V) :
    capsuleSet A r h p ↔ poseImage A (Support.capsuleLocalSet r h) p :=
  poseImage_congr (capsuleLocal_iff hr h) p

example : capsuleSet C13.exPose (1 / 2) 1 C13.exPoint ↔
    poseImage C13.exPose (Support.capsuleLocalSet (1 / 2) 1) C13.exPoint :=
  capsule_sets_iff _ (by norm_num) _ _

/-- **Cylinder.** Same pose, radius and (full) length. -/
theorem cylinder_sets_iff (A : Pose ℝ) {r : ℝ} (hr : 0 ≤ r) (len : ℝ) (p : V) :
    cylinderSet A r len p ↔ poseImage A (Support.cylinderLocalSet r len) p :=
  poseImage_congr (cylinderLocal_iff hr len) p

example : cylinderSet C13.exPose 1 1 C13.exPoint ↔
    poseImage C13.exPose (Support.cylinderLocalSet 1 1) C13.exPoint :=
  cylinder_sets_iff _ zero_le_one _ _

/-- **Cone.** Both files place the base disk at the pose origin and the apex at `+h` on the local
z axis (`points_in_cone` recentres by `h/2` internally and comes back to this set): same pose,
radius and height. -/
theorem cone_sets_iff (A : Pose ℝ) {r h : ℝ} (hr : 0 ≤ r) (hh : 0 < h) (p : V) :
    coneSet A r h p ↔ poseImage A (Support.coneLocalSet r h) p :=
  poseImage_congr (coneLocal_iff hr hh) p

example : coneSet C13.exPose 1 1 C13.exPoint ↔
    poseImage C13.exPose (Support.coneLocalSet 1 1) C13.exPoint :=
  cone_sets_iff _ zero_le_one one_pos _

/-- **Ellipsoid.** Same pose and semi-axes, no hypothesis at all. -/
theorem ellipsoid_sets_iff (A : Pose ℝ) (radii p : V) :
    ellipsoidSet A radii p ↔ poseImage A (Support.ellipsoidLocalSet radii) p :=
  poseImage_congr (ellipsoidLocal_iff radii) p

example : ellipsoidSet C13.exPose ⟨1, 2, 1 / 2⟩ C13.exPoint ↔
    poseImage C13.exPose (Support.ellipsoidLocalSet ⟨1, 2, 1 / 2⟩) C13.exPoint :=
  ellipsoid_sets_iff _ _ _

/-- **Box.** C13's `|qᵢ| ≤ sizeᵢ/2` is the set of C03's `Box(size)` collider (full edge lengths
on both sides; `support_function_box` takes the half lengths `size/2`). -/
theorem box_sets_iff (A : Pose ℝ) (size p : V) :
    boxSet A size p ↔ poseImage A (Support.boxSizeSet size) p :=
  poseImage_congr (boxLocal_iff size) p

example : boxSet C13.exPose ⟨1, 1, 1⟩ C13.exPoint ↔
    poseImage C13.exPose (Support.boxSizeSet ⟨1, 1, 1⟩) C13.exPoint :=
  box_sets_iff _ _ _

/-- **Disk.** C13's flat disk (pose image of `z = 0 ∧ radial ≤ r`) is C03's disk with centre
`A.t` and normal `A.R.col2`. -/
theorem disk_sets_iff {A : Pose ℝ} (hA : Orthonormal A.R) {r : ℝ} (hr : 0 ≤ r) (p : V) :
    diskSet A r p ↔ Support.diskSet A.t r A.R.col2 p :=
  diskSet_iff hA hr p

example : diskSet C13.exPose 1 C13.exPoint ↔
    Support.diskSet ⟨1, 2, 3⟩ 1 ⟨0, -4 / 5, 3 / 5⟩ C13.exPoint :=
  disk_sets_iff C13.exPose_orth zero_le_one _

/-! ## 2. accepted points never project beyond the modelled support point -/

/-- **Sphere.** A point accepted by `points_in_sphere` projects at most as far along `d` as
`support_function_sphere(d)`; any centre, any direction. -/
theorem sphere_contained_le_support (c : V) {r : ℝ} (hr : 0 < r) (d p : V)
    (hp : pointInSphere p c r = true) :
    V3.dot d p ≤ V3.dot d (Support.supportSphere d c r).2 := by
  have hA : Orthonormal (⟨M3.one, c⟩ : Pose ℝ).R := by
    constructor <;> simp [M3.one, M3.col0, M3.col1, M3.col2, V3.dot_def]
  exact C13.contained_le_support _ _
    (fun q => (C13.sphere_exact hA hr q).trans (sphere_sets_iff hA hr.le q)) d _ p
    (C03.sphere_support d c r hr.le) hp

example : V3.dot (⟨1, 2, 3⟩ : V) C13.exPoint ≤
    V3.dot ⟨1, 2, 3⟩ (Support.supportSphere (⟨1, 2, 3⟩ : V) C13.exPose.t 1).2 := by
  apply sphere_contained_le_support _ one_pos
  rw [C13.sphere_exact C13.exPose_orth one_pos, ballSet, poseImage_iff C13.exPose_orth,
    C13.exPoint_local, ballLocal, norm_le_iff zero_le_one]
  norm_num [V3.normSq_def]

/-- **Capsule.** `points_in_capsule` evaluates, and an accepted point projects at most as far as
`support_function_capsule(d)`. -/
theorem capsule_contained_le_support {A : Pose ℝ} (hA : Orthonormal A.R) {r h : ℝ} (hr : 0 < r)
    (hh : 0 < h) (d p : V) :
    ∃ b, pointInCapsule p A r h = .ok b ∧
      (b = true → V3.dot d p ≤ V3.dot d (Support.supportCapsule d A r h).2) := by
  obtain ⟨b, hb, hiff⟩ := C13.capsule_exact hA hr hh p
  exact ⟨b, hb, fun hbt => (C03.capsule_support d A r h hr.le hh.le).2 p
    ((capsule_sets_iff A hr.le h p).mp (hiff.mp hbt))⟩

example : ∃ b, pointInCapsule C13.exPoint C13.exPose (1 / 2) 1 = .ok b ∧
    (b = true → V3.dot (⟨1, 2, 3⟩ : V) C13.exPoint ≤
      V3.dot ⟨1, 2, 3⟩ (Support.supportCapsule (⟨1, 2, 3⟩ : V) C13.exPose (1 / 2) 1).2) :=
  capsule_contained_le_support C13.exPose_orth (by norm_num) one_pos _ _

/-- **Ellipsoid.** `points_in_ellipsoid` evaluates, and an accepted point projects at most as far
as `support_function_ellipsoid(d)`. -/
theorem ellipsoid_contained_le_support {A : Pose ℝ} (hA : Orthonormal A.R) {radii : V}
    (hx : 0 < radii.x) (hy : 0 < radii.y) (hz : 0 < radii.z) (d p : V) :
    ∃ b, pointInEllipsoid p A radii = .ok b ∧
      (b = true → V3.dot d p ≤ V3.dot d (Support.supportEllipsoid d A radii).2) := by
  obtain ⟨b, hb, hiff⟩ := C13.ellipsoid_exact hA hx hy hz p
  exact ⟨b, hb, fun hbt => (C03.ellipsoid_support d A radii hx hy hz).2 p
    ((ellipsoid_sets_iff A radii p).mp (hiff.mp hbt))⟩

example : ∃ b, pointInEllipsoid C13.exPoint C13.exPose ⟨1, 2, 1⟩ = .ok b ∧
    (b = true → V3.dot (⟨1, 2, 3⟩ : V) C13.exPoint ≤
      V3.dot ⟨1, 2, 3⟩ (Support.supportEllipsoid (⟨1, 2, 3⟩ : V) C13.exPose ⟨1, 2, 1⟩).2) :=
  ellipsoid_contained_le_support C13.exPose_orth (radii := ⟨1, 2, 1⟩) one_pos two_pos one_pos _ _

/-- **Cone.** `points_in_cone` evaluates, and an accepted point projects at most as far as
`support_function_cone(d)`. -/
theorem cone_contained_le_support {A : Pose ℝ} (hA : Orthonormal A.R) {r h : ℝ} (hr : 0 < r)
    (hh : 0 < h) (d p : V) :
    ∃ b, pointInCone p A r h = .ok b ∧
      (b = true → V3.dot d p ≤ V3.dot d (Support.supportCone d A r h).2) := by
  obtain ⟨b, hb, hiff⟩ := C13.cone_exact hA hr hh p
  exact ⟨b, hb, fun hbt => (C03.cone_support d A r h hr.le hh).2 p
    ((cone_sets_iff A hr.le hh p).mp (hiff.mp hbt))⟩

example : ∃ b, pointInCone C13.exPoint C13.exPose 1 1 = .ok b ∧
    (b = true → V3.dot (⟨1, 2, 3⟩ : V) C13.exPoint ≤
      V3.dot ⟨1, 2, 3⟩ (Support.supportCone (⟨1, 2, 3⟩ : V) C13.exPose 1 1).2) :=
  cone_contained_le_support C13.exPose_orth one_pos one_pos _ _

/-- **Cylinder.** A point accepted by `points_in_cylinder` projects at most as far as
`support_function_cylinder(d)`. -/
theorem cylinder_contained_le_support {A : Pose ℝ} (hA : Orthonormal A.R) {r len : ℝ} (hr : 0 < r)
    (hl : 0 < len) (d p : V) (hp : pointInCylinder p A r len = true) :
    V3.dot d p ≤ V3.dot d (Support.supportCylinder d A r len).2 :=
  (C03.cylinder_support d A r len hr.le hl.le).2 p
    ((cylinder_sets_iff A hr.le len p).mp ((C13.cylinder_exact hA hr hl p).mp hp))

example : V3.dot (⟨1, 2, 3⟩ : V) C13.exPoint ≤
    V3.dot ⟨1, 2, 3⟩ (Support.supportCylinder (⟨1, 2, 3⟩ : V) C13.exPose 1 1).2 := by
  apply cylinder_contained_le_support C13.exPose_orth one_pos one_pos
  rw [C13.cylinder_exact C13.exPose_orth one_pos one_pos, cylinderSet,
    poseImage_iff C13.exPose_orth, C13.exPoint_local, cylinderLocal, radial_le_iff zero_le_one]
  norm_num [abs_le]

/-- **Box collider.** `Box.support_function(d)` (first `np.argmax` over the eight posed corners)
succeeds, and a point accepted by `points_in_box` projects at most as far as its result. -/
theorem box_contained_le_support {A : Pose ℝ} (hA : Orthonormal A.R) {size : V} (hx : 0 ≤ size.x)
    (hy : 0 ≤ size.y) (hz : 0 ≤ size.z) (d p : V) :
    ∃ i s, Support.supportHull d (Support.boxVertices A size) = .ok (i, s) ∧
      (pointInBox p A size = true → V3.dot d p ≤ V3.dot d s) := by
  obtain ⟨i, s, h1, _, h3⟩ := C03.box_support d A size hx hy hz
  exact ⟨i, s, h1, fun hp => h3.2 p ((box_sets_iff A size p).mp ((C13.box_exact hA size p).mp hp))⟩

example : ∃ i s, Support.supportHull (⟨1, 2, 3⟩ : V) (Support.boxVertices C13.exPose ⟨1, 1, 1⟩)
      = .ok (i, s) ∧
    (pointInBox C13.exPoint C13.exPose ⟨1, 1, 1⟩ = true →
      V3.dot (⟨1, 2, 3⟩ : V) C13.exPoint ≤ V3.dot ⟨1, 2, 3⟩ s) :=
  box_contained_le_support C13.exPose_orth (size := ⟨1, 1, 1⟩) zero_le_one zero_le_one zero_le_one _ _

/-- **Box, `geometry.support_function_box`.** The closed form takes *half* lengths: with
`half = size/2` a point accepted by `points_in_box(…, size)` projects at most as far as its
result. -/
theorem boxfn_contained_le_support {A : Pose ℝ} (hA : Orthonormal A.R) {size : V} (hx : 0 ≤ size.x)
    (hy : 0 ≤ size.y) (hz : 0 ≤ size.z) (d p : V) (hp : pointInBox p A size = true) :
    V3.dot d p ≤
      V3.dot d (Support.supportBoxFn d A ⟨size.x / 2, size.y / 2, size.z / 2⟩).2 :=
  (C03.boxfn_support d A ⟨size.x / 2, size.y / 2, size.z / 2⟩ (by simpa using half_pos_le hx)
    (by simpa using half_pos_le hy) (by simpa using half_pos_le hz)).2 p
    ((box_sets_iff A size p).mp ((C13.box_exact hA size p).mp hp))
where
  half_pos_le {x : ℝ} (h : 0 ≤ x) : 0 ≤ x / 2 := by linarith

example : V3.dot (⟨1, 2, 3⟩ : V) C13.exPoint ≤
    V3.dot ⟨1, 2, 3⟩ (Support.supportBoxFn (⟨1, 2, 3⟩ : V) C13.exPose ⟨1 / 2, 1 / 2, 1 / 2⟩).2 := by
  have h := boxfn_contained_le_support C13.exPose_orth (size := ⟨1, 1, 1⟩) zero_le_one zero_le_one
    zero_le_one ⟨1, 2, 3⟩ C13.exPoint (by
      rw [C13.box_exact C13.exPose_orth, boxSet, poseImage_iff C13.exPose_orth, C13.exPoint_local,
        boxLocal]
      norm_num [abs_le])
  simpa using h

/-- **Disk, as the functions are called (centre, unit normal).** `support_function_disk(d)`
succeeds, and a point accepted by `points_in_disk` projects at most `diskSlab·|⟨d,n⟩|` beyond it
(`diskSlab = 10·EPSILON` is the half-width of the slab the predicate accepts; the slack is
necessary: the point `c + diskSlab·n` is accepted and projects `diskSlab` beyond the support point
along `d = n`). -/
theorem disk_contained_le_support (c n : V) {r : ℝ} (hr : 0 < r) (hn : V3.normSq n = 1) (d p : V) :
    ∃ b s, Support.supportDisk d c r n = .ok (b, s) ∧
      (pointInDisk p c r n = true → V3.dot d p ≤ V3.dot d s + diskSlab * |V3.dot d n|) := by
  obtain ⟨b, s, h1, h2⟩ := C03.disk_support d c r hr.le n hn
  refine ⟨b, s, h1, fun hp => ?_⟩
  obtain ⟨ha, hb⟩ := (C13.disk_exact_unit p c n r hn).mp hp
  obtain ⟨hq, hs⟩ := diskSlab_decompose p c n r diskSlab hn ha hb
  have hle := h2.2 _ hq
  rw [dot_sub_smul_right d p n (V3.dot (p - c) n)]
  have hprod : V3.dot (p - c) n * V3.dot d n ≤ diskSlab * |V3.dot d n| :=
    le_trans (le_abs_self _) (by rw [abs_mul]; exact mul_le_mul_of_nonneg_right hs (abs_nonneg _))
  linarith

example : ∃ b s, Support.supportDisk (⟨1, 2, 3⟩ : V) ⟨1, 2, 3⟩ 1 ⟨0, -4 / 5, 3 / 5⟩ = .ok (b, s) ∧
    (pointInDisk (⟨2, 2, 3⟩ : V) ⟨1, 2, 3⟩ 1 ⟨0, -4 / 5, 3 / 5⟩ = true →
      V3.dot (⟨1, 2, 3⟩ : V) ⟨2, 2, 3⟩ ≤
        V3.dot ⟨1, 2, 3⟩ s + diskSlab * |V3.dot (⟨1, 2, 3⟩ : V) ⟨0, -4 / 5, 3 / 5⟩|) :=
  disk_contained_le_support _ _ one_pos (by norm_num [V3.normSq_def]) _ _

/-- **Disk, the slack is attained.** For every disk and `d = n`: the point `c + diskSlab·n` is
accepted by `points_in_disk` and projects exactly `diskSlab·|⟨n,n⟩| = diskSlab` beyond
`support_function_disk(n)` — the bound of `disk_contained_le_support` cannot be improved. -/
theorem disk_slack_attained (c n : V) {r : ℝ} (hr : 0 < r) (hn : V3.normSq n = 1) :
    ∃ b s, Support.supportDisk n c r n = .ok (b, s) ∧
      pointInDisk (c + (diskSlab : ℝ) * n) c r n = true ∧
      V3.dot n (c + (diskSlab : ℝ) * n) = V3.dot n s + diskSlab * |V3.dot n n| := by
  obtain ⟨b, s, h1, h2⟩ := C03.disk_support n c r hr.le n hn
  have hn' : V3.dot n n = 1 := hn
  refine ⟨b, s, h1, ?_, ?_⟩
  · rw [C13.disk_exact_unit _ c n r hn]
    have e1 : V3.dot (c + (diskSlab : ℝ) * n - c) n = diskSlab := by
      simp only [V3.dot_def, V3.add_x, V3.add_y, V3.add_z, V3.sub_x, V3.sub_y, V3.sub_z,
        V3.smul_x, V3.smul_y, V3.smul_z] at *
      linear_combination (diskSlab : ℝ) * hn'
    have e2 : V3.normSq (c + (diskSlab : ℝ) * n - c) = diskSlab * diskSlab := by
      simp only [V3.dot_def, V3.normSq_def, V3.add_x, V3.add_y, V3.add_z, V3.sub_x, V3.sub_y,
        V3.sub_z, V3.smul_x, V3.smul_y, V3.smul_z] at *
      linear_combination ((diskSlab : ℝ) * diskSlab) * hn'
    rw [e1, e2, abs_of_nonneg diskSlab_nonneg]
    have := mul_pos hr hr
    exact ⟨le_refl _, by linarith⟩
  · have h0 := h2.1.1
    rw [hn', abs_one, mul_one]
    simp only [V3.dot_def, V3.add_x, V3.add_y, V3.add_z, V3.sub_x, V3.sub_y,
      V3.sub_z, V3.smul_x, V3.smul_y, V3.smul_z] at *
    linear_combination (diskSlab : ℝ) * hn' - h0

example := disk_slack_attained ⟨1, 2, 3⟩ ⟨0, -4 / 5, 3 / 5⟩ one_pos (by norm_num [V3.normSq_def])

/-- **Disk, flat.** For the points of the flat disk itself (all of which `points_in_disk` accepts,
`C13.disk_subset`) there is no slack. -/
theorem disk_flat_le_support {A : Pose ℝ} (hA : Orthonormal A.R) {r : ℝ} (hr : 0 < r) (d p : V)
    (hp : diskSet A r p) :
    ∃ b s, Support.supportDisk d A.t r A.R.col2 = .ok (b, s) ∧ V3.dot d p ≤ V3.dot d s := by
  obtain ⟨b, s, h1, h2⟩ := C03.disk_support d A.t r hr.le A.R.col2 hA.c22
  exact ⟨b, s, h1, h2.2 p ((disk_sets_iff hA hr.le p).mp hp)⟩

example : ∃ b s, Support.supportDisk (⟨1, 2, 3⟩ : V) C13.exPose.t 1 C13.exPose.R.col2 = .ok (b, s) ∧
    V3.dot (⟨1, 2, 3⟩ : V) (C13.exPose.apply ⟨3 / 5, 4 / 5, 0⟩) ≤ V3.dot ⟨1, 2, 3⟩ s := by
  apply disk_flat_le_support C13.exPose_orth one_pos
  refine ⟨⟨3 / 5, 4 / 5, 0⟩, ⟨rfl, ?_⟩, rfl⟩
  rw [radial_le_iff zero_le_one]; norm_num

/-! ## 3. the modelled support point is accepted by the modelled predicate -/

/-- **Sphere.** `points_in_sphere` accepts `support_function_sphere(d)`. -/
theorem sphere_support_contained (c : V) {r : ℝ} (hr : 0 < r) (d : V) :
    pointInSphere (Support.supportSphere d c r).2 c r = true := by
  have hA : Orthonormal (⟨M3.one, c⟩ : Pose ℝ).R := by
    constructor <;> simp [M3.one, M3.col0, M3.col1, M3.col2, V3.dot_def]
  exact (C13.sphere_exact hA hr _).mpr
    ((sphere_sets_iff hA hr.le _).mpr (C03.sphere_support d c r hr.le).1)

example : pointInSphere (Support.supportSphere (⟨3, 4, 0⟩ : V) ⟨1, 2, 3⟩ 2).2 ⟨1, 2, 3⟩ 2 = true :=
  sphere_support_contained _ two_pos _

/-- **Capsule.** `points_in_capsule` accepts `support_function_capsule(d)`. -/
theorem capsule_support_contained {A : Pose ℝ} (hA : Orthonormal A.R) {r h : ℝ} (hr : 0 < r)
    (hh : 0 < h) (d : V) :
    pointInCapsule (Support.supportCapsule d A r h).2 A r h = .ok true := by
  obtain ⟨b, hb, hiff⟩ := C13.capsule_exact hA hr hh (Support.supportCapsule d A r h).2
  rw [hb, hiff.mpr ((capsule_sets_iff A hr.le h _).mpr (C03.capsule_support d A r h hr.le hh.le).1)]

example : pointInCapsule (Support.supportCapsule (⟨1, 2, 3⟩ : V) C13.exPose (1 / 2) 1).2
    C13.exPose (1 / 2) 1 = .ok true :=
  capsule_support_contained C13.exPose_orth (by norm_num) one_pos _

/-- **Ellipsoid.** `points_in_ellipsoid` accepts `support_function_ellipsoid(d)`. -/
theorem ellipsoid_support_contained {A : Pose ℝ} (hA : Orthonormal A.R) {radii : V}
    (hx : 0 < radii.x) (hy : 0 < radii.y) (hz : 0 < radii.z) (d : V) :
    pointInEllipsoid (Support.supportEllipsoid d A radii).2 A radii = .ok true := by
  obtain ⟨b, hb, hiff⟩ := C13.ellipsoid_exact hA hx hy hz (Support.supportEllipsoid d A radii).2
  rw [hb, hiff.mpr ((ellipsoid_sets_iff A radii _).mpr (C03.ellipsoid_support d A radii hx hy hz).1)]

example : pointInEllipsoid (Support.supportEllipsoid (⟨1, 2, 3⟩ : V) C13.exPose ⟨1, 2, 1 / 2⟩).2
    C13.exPose ⟨1, 2, 1 / 2⟩ = .ok true :=
  ellipsoid_support_contained C13.exPose_orth (radii := ⟨1, 2, 1 / 2⟩) one_pos two_pos
    (by norm_num) _

/-- **Cone.** `points_in_cone` accepts `support_function_cone(d)` (rim point or apex). -/
theorem cone_support_contained {A : Pose ℝ} (hA : Orthonormal A.R) {r h : ℝ} (hr : 0 < r)
    (hh : 0 < h) (d : V) :
    pointInCone (Support.supportCone d A r h).2 A r h = .ok true := by
  obtain ⟨b, hb, hiff⟩ := C13.cone_exact hA hr hh (Support.supportCone d A r h).2
  rw [hb, hiff.mpr ((cone_sets_iff A hr.le hh _).mpr (C03.cone_support d A r h hr.le hh).1)]

example : pointInCone (Support.supportCone (⟨1, 2, 3⟩ : V) C13.exPose 1 1).2 C13.exPose 1 1
    = .ok true :=
  cone_support_contained C13.exPose_orth one_pos one_pos _

/-- **Cylinder.** `points_in_cylinder` accepts `support_function_cylinder(d)`. -/
theorem cylinder_support_contained {A : Pose ℝ} (hA : Orthonormal A.R) {r len : ℝ} (hr : 0 < r)
    (hl : 0 < len) (d : V) :
    pointInCylinder (Support.supportCylinder d A r len).2 A r len = true :=
  (C13.cylinder_exact hA hr hl _).mpr
    ((cylinder_sets_iff A hr.le len _).mpr (C03.cylinder_support d A r len hr.le hl.le).1)

example : pointInCylinder (Support.supportCylinder (⟨1, 2, 3⟩ : V) C13.exPose 1 1).2 C13.exPose 1 1
    = true :=
  cylinder_support_contained C13.exPose_orth one_pos one_pos _

/-- **Box collider.** `points_in_box` accepts the corner returned by `Box.support_function(d)`. -/
theorem box_support_contained {A : Pose ℝ} (hA : Orthonormal A.R) {size : V} (hx : 0 ≤ size.x)
    (hy : 0 ≤ size.y) (hz : 0 ≤ size.z) (d : V) :
    ∃ i s, Support.supportHull d (Support.boxVertices A size) = .ok (i, s) ∧
      pointInBox s A size = true := by
  obtain ⟨i, s, h1, _, h3⟩ := C03.box_support d A size hx hy hz
  exact ⟨i, s, h1, (C13.box_exact hA size s).mpr ((box_sets_iff A size s).mpr h3.1)⟩

example : ∃ i s, Support.supportHull (⟨1, 2, 3⟩ : V) (Support.boxVertices C13.exPose ⟨1, 2, 3⟩)
      = .ok (i, s) ∧ pointInBox s C13.exPose ⟨1, 2, 3⟩ = true :=
  box_support_contained C13.exPose_orth (size := ⟨1, 2, 3⟩) zero_le_one zero_le_two (by norm_num) _

/-- **Box, `geometry.support_function_box`.** `points_in_box(…, size)` accepts the point the
closed form returns for the half lengths `size/2` (a corner, or an edge/face midpoint or the centre
when components of the local direction vanish). -/
theorem boxfn_support_contained {A : Pose ℝ} (hA : Orthonormal A.R) {size : V} (hx : 0 ≤ size.x)
    (hy : 0 ≤ size.y) (hz : 0 ≤ size.z) (d : V) :
    pointInBox (Support.supportBoxFn d A ⟨size.x / 2, size.y / 2, size.z / 2⟩).2 A size = true :=
  (C13.box_exact hA size _).mpr ((box_sets_iff A size _).mpr
    (C03.boxfn_support d A ⟨size.x / 2, size.y / 2, size.z / 2⟩
      (by simpa using boxfn_contained_le_support.half_pos_le hx)
      (by simpa using boxfn_contained_le_support.half_pos_le hy)
      (by simpa using boxfn_contained_le_support.half_pos_le hz)).1)

example : pointInBox (Support.supportBoxFn (⟨1, 0, -1⟩ : V) C13.exPose ⟨1 / 2, 2 / 2, 3 / 2⟩).2
    C13.exPose ⟨1, 2, 3⟩ = true :=
  boxfn_support_contained C13.exPose_orth (size := ⟨1, 2, 3⟩) zero_le_one zero_le_two (by norm_num) _

/-- **Disk.** `points_in_disk` accepts `support_function_disk(d)` (any centre, unit normal). -/
theorem disk_support_contained (c n : V) {r : ℝ} (hr : 0 < r) (hn : V3.normSq n = 1) (d : V) :
    ∃ b s, Support.supportDisk d c r n = .ok (b, s) ∧ pointInDisk s c r n = true := by
  obtain ⟨b, s, h1, h2⟩ := C03.disk_support d c r hr.le n hn
  refine ⟨b, s, h1, (C13.disk_exact_unit s c n r hn).mpr ?_⟩
  obtain ⟨h0, hle⟩ := h2.1
  rw [h0, abs_zero]
  exact ⟨diskSlab_nonneg, by linarith [hle]⟩

example : ∃ b s, Support.supportDisk (⟨1, 1, 0⟩ : V) ⟨0, 0, 1⟩ 2 ⟨0, 0, 1⟩ = .ok (b, s) ∧
    pointInDisk s ⟨0, 0, 1⟩ 2 ⟨0, 0, 1⟩ = true :=
  disk_support_contained _ _ two_pos (by norm_num [V3.normSq_def]) _

/-- **2. + 3. in one statement, total predicates.** The modelled support point is a support point
(`IsSupport`: a member that maximises `⟨d, ·⟩`) of the set of points the modelled predicate
accepts — sphere, cylinder, box (closed form with half lengths `size/2`). -/
theorem isSupport_of_predicate {A : Pose ℝ} (hA : Orthonormal A.R) {r len : ℝ} (hr : 0 < r)
    (hl : 0 < len) {size : V} (hx : 0 ≤ size.x) (hy : 0 ≤ size.y) (hz : 0 ≤ size.z) (d : V) :
    IsSupport (fun p => pointInSphere p A.t r = true) d (Support.supportSphere d A.t r).2 ∧
    IsSupport (fun p => pointInCylinder p A r len = true) d (Support.supportCylinder d A r len).2 ∧
    IsSupport (fun p => pointInBox p A size = true) d
      (Support.supportBoxFn d A ⟨size.x / 2, size.y / 2, size.z / 2⟩).2 :=
  ⟨⟨sphere_support_contained A.t hr d, fun p hp => sphere_contained_le_support A.t hr d p hp⟩,
   ⟨cylinder_support_contained hA hr hl d, fun p hp => cylinder_contained_le_support hA hr hl d p hp⟩,
   ⟨boxfn_support_contained hA hx hy hz d, fun p hp => boxfn_contained_le_support hA hx hy hz d p hp⟩⟩

example := isSupport_of_predicate C13.exPose_orth one_pos two_pos (size := ⟨1, 2, 3⟩) zero_le_one
  zero_le_two (by norm_num) ⟨1, 2, 3⟩

/-- **2. + 3. in one statement, predicates that divide.** Same for capsule, cone and ellipsoid,
with "accepted" read as `= .ok true`. -/
theorem isSupport_of_predicate_div {A : Pose ℝ} (hA : Orthonormal A.R) {r h : ℝ} (hr : 0 < r)
    (hh : 0 < h) {radii : V} (hx : 0 < radii.x) (hy : 0 < radii.y) (hz : 0 < radii.z) (d : V) :
    IsSupport (fun p => pointInCapsule p A r h = .ok true) d (Support.supportCapsule d A r h).2 ∧
    IsSupport (fun p => pointInCone p A r h = .ok true) d (Support.supportCone d A r h).2 ∧
    IsSupport (fun p => pointInEllipsoid p A radii = .ok true) d
      (Support.supportEllipsoid d A radii).2 := by
  refine ⟨⟨capsule_support_contained hA hr hh d, fun p hp => ?_⟩,
    ⟨cone_support_contained hA hr hh d, fun p hp => ?_⟩,
    ⟨ellipsoid_support_contained hA hx hy hz d, fun p hp => ?_⟩⟩
  · obtain ⟨b, hb, hle⟩ := capsule_contained_le_support hA hr hh d p
    rw [hp] at hb; exact hle (Except.ok.inj hb).symm
  · obtain ⟨b, hb, hle⟩ := cone_contained_le_support hA hr hh d p
    rw [hp] at hb; exact hle (Except.ok.inj hb).symm
  · obtain ⟨b, hb, hle⟩ := ellipsoid_contained_le_support hA hx hy hz d p
    rw [hp] at hb; exact hle (Except.ok.inj hb).symm

example := isSupport_of_predicate_div C13.exPose_orth (r := 1) (h := 2) one_pos two_pos
  (radii := ⟨1, 2, 1 / 2⟩) one_pos two_pos (by norm_num) ⟨1, 2, 3⟩

/-! ## the collider classes: `Collider.support` dispatches to exactly these functions -/

/-- **Every solid collider class with a containment predicate.** `collider.support_function(d)`
as modelled by `Support.Collider.support` succeeds, leaves the object unchanged, and no point
accepted by the class's `points_in_*` predicate (same constructor arguments) projects beyond
the returned point (`Disk`: by more than the slab slack `diskSlab·|⟨d,n⟩|`). -/
theorem collider_contained_le_support {A : Pose ℝ} (hA : Orthonormal A.R) {r h : ℝ} (hr : 0 < r)
    (hh : 0 < h) {v : V} (hx : 0 < v.x) (hy : 0 < v.y) (hz : 0 < v.z) (d p : V) :
    (∃ br s, (Support.Collider.sphere A.t r).support d = .ok (br, s, .sphere A.t r) ∧
      (pointInSphere p A.t r = true → V3.dot d p ≤ V3.dot d s)) ∧
    (∃ br s, (Support.Collider.capsule A r h).support d = .ok (br, s, .capsule A r h) ∧
      (pointInCapsule p A r h = .ok true → V3.dot d p ≤ V3.dot d s)) ∧
    (∃ br s, (Support.Collider.ellipsoid A v).support d = .ok (br, s, .ellipsoid A v) ∧
      (pointInEllipsoid p A v = .ok true → V3.dot d p ≤ V3.dot d s)) ∧
    (∃ br s, (Support.Collider.cylinder A r h).support d = .ok (br, s, .cylinder A r h) ∧
      (pointInCylinder p A r h = true → V3.dot d p ≤ V3.dot d s)) ∧
    (∃ br s, (Support.Collider.cone A r h).support d = .ok (br, s, .cone A r h) ∧
      (pointInCone p A r h = .ok true → V3.dot d p ≤ V3.dot d s)) ∧
    (∃ br s, (Support.Collider.box A v).support d = .ok (br, s, .box A v) ∧
      (pointInBox p A v = true → V3.dot d p ≤ V3.dot d s)) ∧
    (∃ br s, (Support.Collider.disk A.t r A.R.col2).support d = .ok (br, s, .disk A.t r A.R.col2) ∧
      (pointInDisk p A.t r A.R.col2 = true →
        V3.dot d p ≤ V3.dot d s + diskSlab * |V3.dot d A.R.col2|)) := by
  obtain ⟨h1, h2, h3⟩ := isSupport_of_predicate_div hA hr hh hx hy hz d
  refine ⟨⟨_, _, rfl, sphere_contained_le_support A.t hr d p⟩, ⟨_, _, rfl, h1.2 p⟩,
    ⟨_, _, rfl, h3.2 p⟩, ⟨_, _, rfl, cylinder_contained_le_support hA hr hh d p⟩,
    ⟨_, _, rfl, h2.2 p⟩, ?_, ?_⟩
  · obtain ⟨i, s, e, hle⟩ := box_contained_le_support hA hx.le hy.le hz.le d p
    exact ⟨i, s, by simp [Support.Collider.support, e], hle⟩
  · obtain ⟨b, s, e, hle⟩ := disk_contained_le_support A.t A.R.col2 hr hA.c22 d p
    exact ⟨b, s, by simp [Support.Collider.support, e], hle⟩

example := collider_contained_le_support C13.exPose_orth (r := 1) (h := 2) one_pos two_pos
  (v := ⟨1, 2, 1 / 2⟩) one_pos two_pos (by norm_num) ⟨1, 2, 3⟩ C13.exPoint

/-! ## 4. agreement with the distance functions of C10/C11 -/

/-- **Box.** `point_to_box` evaluates, and `points_in_box` accepts `p` exactly when the returned
distance is 0. -/
theorem box_agreement_distance {A : Pose ℝ} (hA : Orthonormal A.R) {size : V} (hx : 0 ≤ size.x)
    (hy : 0 ≤ size.y) (hz : 0 ≤ size.z) (p : V) :
    ∃ res, DistPoly.pointToBox p A size = .ok res ∧
      (pointInBox p A size = true ↔ res.dist = 0) := by
  obtain ⟨res, h1, hmem, _, hd⟩ := C11.point_to_box_mem_dist p A size hA hx hy hz
  obtain ⟨res', h1', hopt⟩ := C11.point_to_box_opt p A size hA hx hy hz
  rw [h1] at h1'; cases h1'
  exact ⟨res, h1, (C13.box_exact hA size p).trans ((boxSet_iff_distPoly A size p).trans
    (mem_iff_dist_zero hmem hd hopt))⟩

example : ∃ res, DistPoly.pointToBox C13.exPoint C13.exPose ⟨1, 1, 1⟩ = .ok res ∧
    (pointInBox C13.exPoint C13.exPose ⟨1, 1, 1⟩ = true ↔ res.dist = 0) :=
  box_agreement_distance C13.exPose_orth (size := ⟨1, 1, 1⟩) zero_le_one zero_le_one zero_le_one _

/-- **Cylinder.** `point_to_cylinder` evaluates, and `points_in_cylinder` accepts `p` exactly when
the returned distance is 0. -/
theorem cylinder_agreement_distance {A : Pose ℝ} (hA : Orthonormal A.R) {r len : ℝ} (hr : 0 < r)
    (hl : 0 < len) (p : V) :
    ∃ res, DistPoly.pointToCylinder p A r len = .ok res ∧
      (pointInCylinder p A r len = true ↔ res.dist = 0) := by
  obtain ⟨res, h1, hmem, _, hd⟩ := C11.point_to_cylinder_mem_dist p A r len hA hr.le hl.le
  obtain ⟨res', h1', hopt⟩ := C11.point_to_cylinder_opt p A r len hA hr.le hl.le
  rw [h1] at h1'; cases h1'
  exact ⟨res, h1, (C13.cylinder_exact hA hr hl p).trans
    ((cylinderSet_iff_distPoly A hr.le len p).trans (mem_iff_dist_zero hmem hd hopt))⟩

example : ∃ res, DistPoly.pointToCylinder C13.exPoint C13.exPose 1 1 = .ok res ∧
    (pointInCylinder C13.exPoint C13.exPose 1 1 = true ↔ res.dist = 0) :=
  cylinder_agreement_distance C13.exPose_orth one_pos one_pos _

/-- **Disk.** `point_to_disk` evaluates; distance 0 implies acceptance by `points_in_disk`, and
every accepted point is within `diskSlab = 10·EPSILON` of the disk (the predicate's slab; the
converse of the first half fails exactly for the slab points off the plane). -/
theorem disk_agreement_distance (c n : V) {r : ℝ} (hr : 0 < r) (hn : V3.dot n n = 1) (p : V) :
    ∃ res, DistPoly.pointToDisk p c r n = .ok res ∧
      (res.dist = 0 → pointInDisk p c r n = true) ∧
      (pointInDisk p c r n = true → res.dist ≤ diskSlab) := by
  obtain ⟨res, h1, hmem, hd0, hd⟩ := C11.point_to_disk_mem_dist p c r n hn hr.le
  obtain ⟨res', h1', hopt⟩ := C11.point_to_disk_opt p c r n hn hr.le
  rw [h1] at h1'; cases h1'
  refine ⟨res, h1, fun h0 => ?_, fun hp => ?_⟩
  · have hpm : DistPoly.diskSet c r n p := (mem_iff_dist_zero hmem hd hopt).mpr h0
    rw [C13.disk_exact_unit p c n r hn, hpm.1, abs_zero]
    exact ⟨diskSlab_nonneg, by linarith [hpm.2]⟩
  · obtain ⟨ha, hb⟩ := (C13.disk_exact_unit p c n r hn).mp hp
    obtain ⟨hq, hs⟩ := diskSlab_decompose p c n r diskSlab hn ha hb
    have hle := hopt _ hq
    rw [normSq_sub_sub_smul p n _ hn] at hle
    rw [← abs_mul_abs_self (V3.dot (p - c) n)] at hle
    have hs0 : 0 ≤ |V3.dot (p - c) n| := abs_nonneg _
    by_contra hcon
    have hlt : |V3.dot (p - c) n| < res.dist := lt_of_le_of_lt hs (not_le.mp hcon)
    nlinarith [mul_self_lt_mul_self hs0 hlt]

example : ∃ res, DistPoly.pointToDisk (⟨2, 2, 3⟩ : V) ⟨1, 2, 3⟩ 1 ⟨0, -4 / 5, 3 / 5⟩ = .ok res ∧
    (res.dist = 0 → pointInDisk (⟨2, 2, 3⟩ : V) ⟨1, 2, 3⟩ 1 ⟨0, -4 / 5, 3 / 5⟩ = true) ∧
    (pointInDisk (⟨2, 2, 3⟩ : V) ⟨1, 2, 3⟩ 1 ⟨0, -4 / 5, 3 / 5⟩ = true → res.dist ≤ diskSlab) :=
  disk_agreement_distance _ _ one_pos (by norm_num [V3.dot_def]) _

end C13Link
end D3
