/-
C17 — Tetrahedral mesh factories partition the shape with valid potentials.

Property theorems only (helper lemmas live in `D3/Proofs/TetraMesh*.lean`), about the model
`D3/Model/TetraMesh.lean` of `hydroelastic_contact/_tetra_mesh_creation.py` and
`_mesh_processing.py` at `α := ℝ`.

* helpers: `volume_nonneg`, `volume_zero_iff_coplanar`, `volume_pos_iff_not_coplanar`,
  `aabb_helper_encloses_tight`, `com_is_weighted_mean`, `com_undefined_iff`;
* `make_tetrahedral_box` in all classes (one, two, three smallest sides; incl. sizes that differ by
  less than the relative tolerance) and `make_tetrahedral_cube`, for every positive size:
  `box_tiling_exact`, `box_vertices_and_potentials`, `box_topology`, `cube_tiling_exact`,
  `cube_vertices_and_potentials`, `cube_topology`, `box_assert_only_without_zero_axis`;
* `make_tetrahedral_cylinder` in all three classes, for every radius, length and resolution hint:
  `cylinder_class_decision`, `cylinder_tiling_all_classes` (positive volumes; volumes sum to the
  volume of the prism over the polygon of ring vertices — what is *not* formalised is that this
  prism is the convex hull of the vertex set), `cylinder_vertices_and_potentials`;
* sphere / ellipsoid / capsule, structural: `sphere_structure`, `ellipsoid_structure`,
  `icosphere_vertex_counts`, `capsule_structure_thm`, `capsule_cap_vertices_on_surface`
  (all vertices but the two medial ones on the outward hemisphere of their cap sphere).  PARTIAL: Σ volumes = hull volume for the
  sphere, ellipsoid and capsule is not proved (oracle only).
-/
import D3.Proofs.TetraMeshBox
import D3.Proofs.TetraMeshRound
import D3.Proofs.TetraMeshCylinderTop
import D3.Proofs.TetraMeshCapsule
import D3.Proofs.TetraMeshCapsuleSurface
import D3.Proofs.TetraMeshIcosphere
import D3.Proofs.TetraMeshIcoGlue

namespace D3
namespace C17
open TetraMesh

/-! ## helpers (`_mesh_processing.py`) -/

/-- **C17, volume helper.** `tetrahedral_mesh_volumes` returns `|det|/6 ≥ 0` for every
tetrahedron. -/
theorem volume_nonneg (t : TetPts ℝ) : tetraVolume t = |det3 t| / 6 ∧ 0 ≤ tetraVolume t :=
  ⟨tetraVolume_eq t, tetraVolume_nonneg t⟩

example : tetraVolume (⟨⟨0, 0, 0⟩, ⟨1, 0, 0⟩, ⟨0, 1, 0⟩, ⟨0, 0, 1⟩⟩ : TetPts ℝ) = 1 / 6 := by
  rw [tetraVolume_eq, det3_def]; norm_num

/-- **C17, volume helper.** The volume is zero exactly for four coplanar points (some non-zero
normal is orthogonal to the three edges out of `p0`). -/
theorem volume_zero_iff_coplanar (t : TetPts ℝ) : tetraVolume t = 0 ↔ Coplanar t := by
  rw [tetraVolume_eq_zero_iff, det3_eq_zero_iff_coplanar]

/-- strictly positive volume ⇔ the four points are not coplanar -/
theorem volume_pos_iff_not_coplanar (t : TetPts ℝ) : 0 < tetraVolume t ↔ ¬ Coplanar t := by
  rw [tetraVolume_pos_iff, ne_eq, det3_eq_zero_iff_coplanar]

example : Coplanar (⟨⟨0, 0, 0⟩, ⟨1, 0, 0⟩, ⟨0, 1, 0⟩, ⟨1, 1, 0⟩⟩ : TetPts ℝ) :=
  ⟨⟨0, 0, 1⟩, by simp, by simp [V3.dot_def], by simp [V3.dot_def], by simp [V3.dot_def]⟩

/-- **C17, AABB helper.** The box of `tetrahedral_mesh_aabbs` contains the four vertices and each
of its six bounds is attained by a coordinate of one of them (componentwise min / max). -/
theorem aabb_helper_encloses_tight (t : TetPts ℝ) :
    let b := tetAabb t
    (∀ p ∈ [t.p0, t.p1, t.p2, t.p3],
      b.lo0 ≤ p.x ∧ p.x ≤ b.hi0 ∧ b.lo1 ≤ p.y ∧ p.y ≤ b.hi1 ∧ b.lo2 ≤ p.z ∧ p.z ≤ b.hi2) ∧
    (∃ p ∈ [t.p0, t.p1, t.p2, t.p3], p.x = b.lo0) ∧ (∃ p ∈ [t.p0, t.p1, t.p2, t.p3], p.x = b.hi0) ∧
    (∃ p ∈ [t.p0, t.p1, t.p2, t.p3], p.y = b.lo1) ∧ (∃ p ∈ [t.p0, t.p1, t.p2, t.p3], p.y = b.hi1) ∧
    (∃ p ∈ [t.p0, t.p1, t.p2, t.p3], p.z = b.lo2) ∧ (∃ p ∈ [t.p0, t.p1, t.p2, t.p3], p.z = b.hi2) := by
  have mem : ∀ (f : V3 ℝ → ℝ) (v : ℝ),
      (v = f t.p0 ∨ v = f t.p1 ∨ v = f t.p2 ∨ v = f t.p3) →
      ∃ p ∈ [t.p0, t.p1, t.p2, t.p3], f p = v := by
    intro f v h
    rcases h with h | h | h | h
    · exact ⟨t.p0, by simp, h.symm⟩
    · exact ⟨t.p1, by simp, h.symm⟩
    · exact ⟨t.p2, by simp, h.symm⟩
    · exact ⟨t.p3, by simp, h.symm⟩
  refine ⟨?_, mem (·.x) _ (min4_mem _ _ _ _), mem (·.x) _ (max4_mem _ _ _ _),
    mem (·.y) _ (min4_mem _ _ _ _), mem (·.y) _ (max4_mem _ _ _ _),
    mem (·.z) _ (min4_mem _ _ _ _), mem (·.z) _ (max4_mem _ _ _ _)⟩
  intro p hp
  obtain ⟨a0, a1, a2, a3⟩ := min4_le t.p0.x t.p1.x t.p2.x t.p3.x
  obtain ⟨b0, b1, b2, b3⟩ := le_max4 t.p0.x t.p1.x t.p2.x t.p3.x
  obtain ⟨c0, c1, c2, c3⟩ := min4_le t.p0.y t.p1.y t.p2.y t.p3.y
  obtain ⟨d0, d1, d2, d3⟩ := le_max4 t.p0.y t.p1.y t.p2.y t.p3.y
  obtain ⟨e0, e1, e2, e3⟩ := min4_le t.p0.z t.p1.z t.p2.z t.p3.z
  obtain ⟨f0, f1, f2, f3⟩ := le_max4 t.p0.z t.p1.z t.p2.z t.p3.z
  simp only [List.mem_cons, List.not_mem_nil, or_false] at hp
  rcases hp with rfl | rfl | rfl | rfl
  · exact ⟨a0, b0, c0, d0, e0, f0⟩
  · exact ⟨a1, b1, c1, d1, e1, f1⟩
  · exact ⟨a2, b2, c2, d2, e2, f2⟩
  · exact ⟨a3, b3, c3, d3, e3, f3⟩

example : (tetAabb (⟨⟨0, 0, 0⟩, ⟨1, 0, 0⟩, ⟨0, 2, 0⟩, ⟨0, 0, 3⟩⟩ : TetPts ℝ)).hi1 = 2 := by
  simp [tetAabb, max4]

/-- **C17, centre of mass helper.** When the total volume is non-zero,
`center_of_mass_tetrahedral_mesh` returns the volume-weighted mean of the tetrahedron centroids:
`com · Σ volᵢ = Σ volᵢ · centroidᵢ`, with `centroidᵢ` the mean of the four vertices. -/
theorem com_is_weighted_mean (ts : List (TetPts ℝ)) (h : sumS (meshVolumes ts) ≠ 0) :
    ∃ c, centerOfMass ts = .ok c ∧
      c.x * (ts.map tetraVolume).sum =
        (ts.map fun t => tetraVolume t * ((t.p0.x + t.p1.x + t.p2.x + t.p3.x) / 4)).sum ∧
      c.y * (ts.map tetraVolume).sum =
        (ts.map fun t => tetraVolume t * ((t.p0.y + t.p1.y + t.p2.y + t.p3.y) / 4)).sum ∧
      c.z * (ts.map tetraVolume).sum =
        (ts.map fun t => tetraVolume t * ((t.p0.z + t.p1.z + t.p2.z + t.p3.z) / 4)).sum := by
  have hs : sumS (meshVolumes ts) = (ts.map tetraVolume).sum := by rw [sumS_eq_sum]; rfl
  have hc : centerOfMass ts = .ok (V3.sdiv (weightedSum ts) (sumS (meshVolumes ts))) := by
    simp only [centerOfMass, h, if_false]
  rw [hs] at h
  refine ⟨_, hc, ?_, ?_, ?_⟩
  · simp only [V3.sdiv, weightedSum_eq, hs, centroid_x]
    field_simp
  · simp only [V3.sdiv, weightedSum_eq, hs, centroid_y]
    field_simp
  · simp only [V3.sdiv, weightedSum_eq, hs, centroid_z]
    field_simp

/-- the centre of mass is undefined (0/0 → NaN in numpy) exactly when the total volume is zero,
e.g. for an empty mesh -/
theorem com_undefined_iff (ts : List (TetPts ℝ)) :
    centerOfMass ts = .error .divZero ↔ (ts.map tetraVolume).sum = 0 := by
  have hs : sumS (meshVolumes ts) = (ts.map tetraVolume).sum := by rw [sumS_eq_sum]; rfl
  unfold centerOfMass
  simp only [hs]
  split
  · rename_i h; simp [h]
  · rename_i h; simp [h]

example : sumS (meshVolumes [(⟨⟨0, 0, 0⟩, ⟨1, 0, 0⟩, ⟨0, 1, 0⟩, ⟨0, 0, 1⟩⟩ : TetPts ℝ)]) ≠ 0 := by
  simp [meshVolumes, sumS_cons, sumS_nil, tetraVolume_eq, det3_def]

/-! ## `make_tetrahedral_box` -/

/-- **C17, box: positive volumes, exact tiling.** For every positive size vector (whatever its
class: one, two or three smallest sides, also sides differing by less than the relative
tolerance) the factory succeeds, indexing `vertices[tetrahedra]` is in range, every tetrahedron
has strictly positive volume and the volumes sum to `sx·sy·sz` exactly. -/
theorem box_tiling_exact (size : V3 ℝ) (h : 0 < size.x ∧ 0 < size.y ∧ 0 < size.z) :
    ∃ m vols, makeTetrahedralBox size = .ok m ∧ m.volumes = .ok vols ∧
      vols.length = m.tets.length ∧ (∀ v ∈ vols, 0 < v) ∧ sumS vols = size.x * size.y * size.z := by
  obtain ⟨m, hm, g⟩ := makeTetrahedralBox_good size h
  obtain ⟨vols, hv, hl, hp, hsum⟩ := g.volumes
  exact ⟨m, vols, hm, hv, hl, hp, by rw [hsum]; ring⟩

example : ∃ m vols, makeTetrahedralBox (⟨1, 2, 3⟩ : V3 ℝ) = .ok m ∧ m.volumes = .ok vols ∧
    vols.length = m.tets.length ∧ (∀ v ∈ vols, 0 < v) ∧ sumS vols = 1 * 2 * 3 :=
  box_tiling_exact ⟨1, 2, 3⟩ ⟨by norm_num, by norm_num, by norm_num⟩

/-- **C17, box: vertices and potentials.** All vertices lie in `[-s/2, s/2]³`; there is one
potential per vertex; every vertex is either on the boundary of the box with potential 0 or
strictly inside with potential `min(s)/2` (the inradius). -/
theorem box_vertices_and_potentials (size : V3 ℝ) (h : 0 < size.x ∧ 0 < size.y ∧ 0 < size.z) :
    ∃ m, makeTetrahedralBox size = .ok m ∧ m.potentials.length = m.vertices.length ∧
      (∀ p ∈ m.vertices, |p.x| ≤ size.x / 2 ∧ |p.y| ≤ size.y / 2 ∧ |p.z| ≤ size.z / 2) ∧
      (∀ pq ∈ m.vertices.zip m.potentials,
        (OnBdry (size.x / 2) (size.y / 2) (size.z / 2) pq.1 ∧ pq.2 = 0) ∨
        (Inside (size.x / 2) (size.y / 2) (size.z / 2) pq.1 ∧
          pq.2 = min (min size.x size.y) size.z / 2)) := by
  obtain ⟨m, hm, g⟩ := makeTetrahedralBox_good size h
  refine ⟨m, hm, g.pot_len, ?_, g.pots⟩
  intro p hp
  obtain ⟨a, b, c, d, e, f⟩ := g.in_box p hp
  exact ⟨abs_le.mpr ⟨a, b⟩, abs_le.mpr ⟨c, d⟩, abs_le.mpr ⟨e, f⟩⟩

example : ∃ m, makeTetrahedralBox (⟨2, 2, 1⟩ : V3 ℝ) = .ok m ∧ m.potentials.length = m.vertices.length :=
  let ⟨m, h1, h2, _⟩ := box_vertices_and_potentials ⟨2, 2, 1⟩ ⟨by norm_num, by norm_num, by norm_num⟩
  ⟨m, h1, h2⟩

/-- **C17, box: topology.** No tetrahedron has a repeated vertex index (the duplicate medial
vertices of the classes with two or three equal smallest sides never survive
`_split_to_tetrahedra`), all indices are in range, every vertex is used by some tetrahedron, and
there are between 9 and 12 vertices (the `assert len(mesh_vertices) <= 12` cannot fire). -/
theorem box_topology (size : V3 ℝ) (h : 0 < size.x ∧ 0 < size.y ∧ 0 < size.z) :
    ∃ m, makeTetrahedralBox size = .ok m ∧
      (∀ t ∈ m.tets, t.distinct = true ∧ t.inRange m.vertices.length) ∧
      (∀ i, i < m.vertices.length → ∃ t ∈ m.tets, i ∈ t.toList) ∧
      9 ≤ m.vertices.length ∧ m.vertices.length ≤ 12 := by
  obtain ⟨m, hm, g⟩ := makeTetrahedralBox_good size h
  exact ⟨m, hm, fun t ht => ⟨g.distinct t ht, g.inRange t ht⟩, g.used, g.n_vertices.1, g.n_vertices.2⟩

/-- concrete class check at `Rat`: two equal smallest sides → 10 vertices, 16 tetrahedra -/
example : ((makeTetrahedralBox (⟨1, 1, 2⟩ : V3 Rat)).toOption.map
    fun m => (m.vertices.length, m.tets.length)) = some (10, 16) := by decide +kernel

/-- the assertion of the box factory fires exactly in the class that positive sizes can never
reach: no central half size equal to zero (the smallest side always yields an exact zero) -/
theorem box_assert_only_without_zero_axis (hs hc : V3 ℝ) (mn : ℝ)
    (hx : hc.x ≠ 0) (hy : hc.y ≠ 0) (hz : hc.z ≠ 0) :
    boxFromCentral hs hc mn = .error .assertFail := by
  obtain ⟨a, b, c⟩ := hs
  obtain ⟨d, e, f⟩ := hc
  exact boxFromCentral_FFF a b c d e f mn hx hy hz

example : (⟨1, 1, 1⟩ : V3 ℝ).x ≠ 0 := by norm_num

/-! ## `make_tetrahedral_cube` -/

/-- **C17, cube: positive volumes, exact tiling.** For every positive edge length all twelve
tetrahedra have strictly positive volume (they are negatively oriented; the helper's `abs` makes
the volume positive) and the volumes sum to `s³`. -/
theorem cube_tiling_exact (s : ℝ) (h : 0 < s) :
    ∃ vols, (makeTetrahedralCube s).volumes = .ok vols ∧ vols.length = 12 ∧
      (∀ v ∈ vols, 0 < v) ∧ sumS vols = s * s * s := by
  obtain ⟨vols, hv, hl, hp, hsum⟩ := (makeTetrahedralCube_good s h).volumes
  exact ⟨vols, hv, by rw [hl]; rfl, hp, hsum⟩

example : ∃ vols, (makeTetrahedralCube (2 : ℝ)).volumes = .ok vols ∧ vols.length = 12 ∧
    (∀ v ∈ vols, 0 < v) ∧ sumS vols = 2 * 2 * 2 := cube_tiling_exact 2 (by norm_num)

/-- **C17, cube: vertices and potentials.** Eight corners with potential 0 on the boundary, the
centre strictly inside with potential `s/2`. -/
theorem cube_vertices_and_potentials (s : ℝ) (h : 0 < s) :
    let m := makeTetrahedralCube s
    m.potentials.length = m.vertices.length ∧
    (∀ p ∈ m.vertices, |p.x| ≤ s / 2 ∧ |p.y| ≤ s / 2 ∧ |p.z| ≤ s / 2) ∧
    (∀ pq ∈ m.vertices.zip m.potentials,
      (OnBdry (s / 2) (s / 2) (s / 2) pq.1 ∧ pq.2 = 0) ∨
      (Inside (s / 2) (s / 2) (s / 2) pq.1 ∧ pq.2 = s / 2)) := by
  have g := makeTetrahedralCube_good s h
  refine ⟨g.pot_len, ?_, g.pots⟩
  intro p hp
  obtain ⟨a, b, c, d, e, f⟩ := g.in_box p hp
  exact ⟨abs_le.mpr ⟨a, b⟩, abs_le.mpr ⟨c, d⟩, abs_le.mpr ⟨e, f⟩⟩

example : (0 : ℝ) < 3 := by norm_num

/-- **C17, cube: topology.** -/
theorem cube_topology (s : ℝ) (h : 0 < s) :
    let m := makeTetrahedralCube s
    (∀ t ∈ m.tets, t.distinct = true ∧ t.inRange m.vertices.length) ∧
    (∀ i, i < m.vertices.length → ∃ t ∈ m.tets, i ∈ t.toList) ∧ m.vertices.length = 9 := by
  have g := makeTetrahedralCube_good s h
  refine ⟨fun t ht => ⟨g.distinct t ht, g.inRange t ht⟩, g.used, ?_⟩
  rw [cube_vertices]; rfl

example : (0 : ℝ) < 1 / 100 := by norm_num

/-! ## `make_tetrahedral_cylinder` -/

/-- **C17, cylinder: class decision.** With `tol = 1e-14·max(1, min(l/2, r))`: Long iff
`l/2 − r > tol`, Short iff `r − l/2 > tol`, Medium iff `|l/2 − r| ≤ tol`. -/
theorem cylinder_class_decision (r l : ℝ) :
    (cylinderClass r l = 0 ↔ l / 2 - r > cylTol r l) ∧
    (cylinderClass r l = 2 ↔ r - l / 2 > cylTol r l) ∧
    (cylinderClass r l = 1 ↔ |l / 2 - r| ≤ cylTol r l) := cylinderClass_spec r l

example : cylinderClass (1 : ℝ) 2 = 1 := by
  rw [(cylinder_class_decision 1 2).2.2]
  have := cylTol_pos 1 2
  norm_num
  exact le_of_lt this

/-- **C17, cylinder: positive volumes and exact tiling of the polygonal prism, all classes, all
resolution hints.** If the factory returns a mesh for positive radius and length, the number of
vertices per circle is `n = max(3, ⌈2·np.pi·r/hint⌉)`, every tetrahedron has strictly positive
volume and the volumes sum to `l · ½ r² Σ_k sin Δ_k`, the volume of the prism of height `l` over
the polygon spanned by the ring vertices (`Δ_k` the angle between neighbouring ring vertices,
`ringSinSum`).  This covers the class boundaries (Medium for `|l/2 − r| ≤ tol`).  Not formalised:
that this prism is the convex hull of the vertex set (the oracle compares with
`scipy.spatial.ConvexHull`). -/
theorem cylinder_tiling_all_classes (r l hint : ℝ) (fuel : Nat) (hr : 0 < r) (hl : 0 < l)
    (m : Mesh ℝ) (h : makeTetrahedralCylinder r l hint fuel = .ok m) :
    ∃ (n : Nat) (vols : List ℝ), 3 ≤ n ∧ 2 * piLit * r / hint ≤ (n : ℝ) ∧
      (n = 3 ∨ (n : ℝ) - 1 < 2 * piLit * r / hint) ∧
      m.volumes = .ok vols ∧ (∀ v ∈ vols, 0 < v) ∧ sumS vols = l / 2 * r ^ 2 * ringSinSum n :=
  cylinder_tiling r l hint fuel hr hl m h

/-- the hypotheses are satisfiable: a unit-radius cylinder of length 3 with a coarse hint is a
Long-class mesh with three vertices per circle -/
example : ∃ m, makeTetrahedralCylinder (1 : ℝ) 3 3 1 = .ok m := by
  have hx : (2 : ℝ) * piLit * 1 / 3 ≤ 1 + 2 := by rw [piLit_val]; norm_num
  have hc : ceilMax3 ((2 : ℝ) * piLit * 1 / 3) 1 = .ok 3 := by
    simp only [ceilMax3, ceilMax3Loop, hx, if_true]
  unfold makeTetrahedralCylinder
  rw [if_neg (by norm_num), hc]
  dsimp only
  unfold cylinderMeshN
  dsimp only
  split
  · exact ⟨_, rfl⟩
  · split
    · exact ⟨_, rfl⟩
    · rw [if_neg (by norm_num)]
      exact ⟨_, rfl⟩

/-- **C17, cylinder: vertices and potentials, all classes.** One potential per vertex; every
vertex lies on or inside the cylinder; every vertex is either on the boundary (top or bottom
plane; the ring vertices also on the lateral surface) with potential 0 or strictly inside with the
medial potential `φ`, where `φ = r` in the Long and Medium class and `φ = l/2` in the Short class;
`φ` differs from the inradius `min(r, l/2)` by at most the class tolerance (exactly equal in the
Long and Short class). -/
theorem cylinder_vertices_and_potentials (r l hint : ℝ) (fuel : Nat) (hr : 0 < r) (hl : 0 < l)
    (m : Mesh ℝ) (h : makeTetrahedralCylinder r l hint fuel = .ok m) :
    ∃ φ : ℝ, |φ - min r (l / 2)| ≤ cylTol r l ∧ (cylinderClass r l ≠ 1 → φ = min r (l / 2)) ∧
      m.potentials.length = m.vertices.length ∧ (∀ p ∈ m.vertices, InCyl r l p) ∧
      (∀ pq ∈ m.vertices.zip m.potentials, CylPot r l φ pq) := by
  unfold makeTetrahedralCylinder at h
  split at h
  · cases h
  · split at h
    · cases h
    · rename_i n hn
      obtain ⟨c0, c2, c1⟩ := cylinderClass_spec r l
      have ht := cylTol_pos r l
      rcases cylinderClass_cases r l with hc | hc | hc
      · rw [hc] at h
        have hlt : r < l / 2 := by have := c0.mp hc; linarith
        obtain ⟨a, _, b, c⟩ := cylinder_long_vertices r l n hr hlt m h
        refine ⟨r, ?_, fun _ => (min_eq_left (le_of_lt hlt)).symm, a, b, c⟩
        rw [min_eq_left (le_of_lt hlt)]; simp; exact le_of_lt ht
      · rw [hc] at h
        obtain ⟨a, _, b, c⟩ := cylinder_medium_vertices r l n hr hl m h
        have habs := abs_le.mp (c1.mp hc)
        refine ⟨r, ?_, fun hne => absurd hc hne, a, b, c⟩
        rcases le_total r (l / 2) with hle | hle
        · rw [min_eq_left hle]; simp; exact le_of_lt ht
        · rw [min_eq_right hle, abs_le]; constructor <;> linarith [habs.1, habs.2]
      · rw [hc] at h
        have hlt : l / 2 < r := by have := c2.mp hc; linarith
        obtain ⟨a, _, b, c⟩ := cylinder_short_vertices r l n hl hlt m h
        refine ⟨l / 2, ?_, fun _ => (min_eq_right (le_of_lt hlt)).symm, a, b, c⟩
        rw [min_eq_right (le_of_lt hlt)]; simp; exact le_of_lt ht

example : (0 : ℝ) < 1 ∧ (0 : ℝ) < 3 := by norm_num

/-! ## sphere, ellipsoid, capsule (structural; tiling statement PARTIAL, see the harness) -/

/-- **C17, sphere (structural).** If `make_tetrahedral_sphere` returns a mesh (it does for order 0,
`sphere_order0_defined`; orders 0–4 are exercised on the real code), there are `10·4^order + 3`
vertices and `20·4^order` tetrahedra, each vertex but the last lies on the sphere of the given
radius and has potential 0, the last vertex is the centre with potential `radius`, and every
tetrahedron joins a surface triangle to the centre. -/
theorem sphere_structure (r : ℝ) (hr : 0 < r) (order : Nat) (m : Mesh ℝ)
    (h : makeTetrahedralSphere r order = .ok m) :
    FanGood order r (fun p => V3.normSq p = r * r) m := sphere_good r hr order m h

example : ∃ m, makeTetrahedralSphere (2 : ℝ) 0 = .ok m := sphere_order0_defined 2 (by norm_num)

/-- **C17, ellipsoid (structural).** Likewise with the ellipsoid equation
`(x/rx)² + (y/ry)² + (z/rz)² = 1` and the smallest radius as potential of the centre. -/
theorem ellipsoid_structure (radii : V3 ℝ) (hr : 0 < radii.x ∧ 0 < radii.y ∧ 0 < radii.z)
    (order : Nat) (m : Mesh ℝ) (h : makeTetrahedralEllipsoid radii order = .ok m) :
    FanGood order (min (min radii.x radii.y) radii.z)
      (fun p => (p.x / radii.x) ^ 2 + (p.y / radii.y) ^ 2 + (p.z / radii.z) ^ 2 = 1) m :=
  ellipsoid_good radii hr order m h

example : ((makeTetrahedralEllipsoid (⟨1, 2, 3⟩ : V3 Float) 1).toOption.map
    fun m => (m.vertices.length, m.tets.length)).isSome = true := by decide +kernel

/-- **C17, icosphere element counts.** `20·4^order` triangles for every order; the midpoint cache
creates exactly the allocated `10·4^order + 2` vertices and ends empty for orders 0–2 (kernel
evaluation; for larger orders this is exercised on the real code). -/
theorem icosphere_vertex_counts :
    (∀ order, (icoTopology order).1.length = 20 * 4 ^ order) ∧
    (icoTopology 0).2.v = icoVertexCount 0 ∧ (icoTopology 1).2.v = icoVertexCount 1 ∧
      (icoTopology 2).2.v = icoVertexCount 2 ∧
      (icoTopology 0).2.cache = [] ∧ (icoTopology 1).2.cache = [] ∧ (icoTopology 2).2.cache = [] :=
  ⟨icoTopology_triangles, icosphere_counts⟩

example : icoVertexCount 2 = 162 := by decide

/-- **C17, capsule (structural).** If the factory returns a mesh (positive height), the number of
vertices per circle `n` is in `[3, 706]`, there are `4 + 2·⌊n/2⌋·n` vertices and
`4(⌊n/2⌋−1)n + 5n` tetrahedra, every vertex lies on or inside the capsule, the first two vertices
are the ends of the medial segment with potential `r`, all other potentials are 0. -/
theorem capsule_structure_thm (r h hint : ℝ) (h0 : 0 < h) (m : Mesh ℝ)
    (hm : makeTetrahedralCapsule r h hint = .ok m) :
    ∃ n : Nat, 3 ≤ n ∧ n ≤ 706 ∧ m.vertices.length = 4 + 2 * (n / 2 * n) ∧
      m.tets.length = 4 * ((n / 2 - 1) * n) + 5 * n ∧
      (∀ p ∈ m.vertices, InCapsule r h p) ∧
      m.vertices.getD 0 V3.zero = ⟨0, 0, h / 2⟩ ∧ m.vertices.getD 1 V3.zero = ⟨0, 0, -(h / 2)⟩ ∧
      m.potentials.length = m.vertices.length ∧
      (∀ i, i < m.vertices.length → m.potentials[i]? = some (if i < 2 then r else 0)) :=
  capsule_structure r h hint h0 m hm

/-- the capsule factory returns a mesh whenever the hint is non-zero (n ≥ 3 makes both divisions
defined) -/
example : ∃ m, makeTetrahedralCapsule (1 : ℝ) 2 1 = .ok m := by
  obtain ⟨n3, _⟩ := clipInt_bounds ((2 : ℝ) * piLit * 1 / 1)
  unfold makeTetrahedralCapsule
  rw [if_neg (by norm_num)]
  unfold capsuleMeshN capsuleVertices
  have h1 : ¬ (clipInt3_706 ((2 : ℝ) * piLit * 1 / 1) / 2 = 0 ∨ clipInt3_706 ((2 : ℝ) * piLit * 1 / 1) = 0) := by
    omega
  simp only [h1, if_false]
  exact ⟨_, rfl⟩

/-- **C17, capsule boundary.** For a radius `0 ≤ r`, every vertex of the mesh returned by the
capsule factory except the first two (the ends of the medial segment), i.e. the two poles and all
ring vertices of both caps, lies on the capsule surface: at distance exactly `r` from the centre
`(0,0,h/2)` of the top cap with `z ≥ h/2`, or at distance exactly `r` from the centre
`(0,0,−h/2)` of the bottom cap with `z ≤ −h/2` (`OnCapSurface`).  For `0 < r` the inequalities
are strict (`OnCapSurfaceStrict`): the ring polar angles `½·np.pi − i·(½·np.pi/⌊n/2⌋)`, `i < ⌊n/2⌋`,
are in `(0, π/2)` because the double `np.pi` is below π. -/
theorem capsule_cap_vertices_on_surface (r h hint : ℝ) (m : Mesh ℝ)
    (hm : makeTetrahedralCapsule r h hint = .ok m) :
    (0 ≤ r → ∀ p ∈ m.vertices.drop 2, OnCapSurface r h p) ∧
    (0 < r → ∀ p ∈ m.vertices.drop 2, OnCapSurfaceStrict r h p) :=
  ⟨fun hr => TetraMesh.capsule_cap_vertices_on_surface r h hint hr m hm,
   fun hr => TetraMesh.capsule_cap_vertices_on_surface_strict r h hint hr m hm⟩

/-- the hypotheses are satisfiable (radius 1, height 2, hint 1 returns a mesh), and the mesh has
more than two vertices, so the statement is not about an empty list -/
example : ∃ m, makeTetrahedralCapsule (1 : ℝ) 2 1 = .ok m ∧ (0 : ℝ) < 1 ∧
    (m.vertices.drop 2).length ≠ 0 := by
  obtain ⟨n3, _⟩ := clipInt_bounds ((2 : ℝ) * piLit * 1 / 1)
  unfold makeTetrahedralCapsule
  rw [if_neg (by norm_num)]
  unfold capsuleMeshN capsuleVertices
  have h1 : ¬ (clipInt3_706 ((2 : ℝ) * piLit * 1 / 1) / 2 = 0 ∨ clipInt3_706 ((2 : ℝ) * piLit * 1 / 1) = 0) := by
    omega
  simp only [h1, if_false]
  exact ⟨_, rfl, one_pos, by simp⟩

/-! ## icosphere subdivision, every order: no edge midpoint is the zero vector

`make_triangular_icosphere` stores the unnormalised midpoint `0.5 * (vertices[a] + vertices[b])`
and divides every row by its norm once at the end, so the factory is defined iff no row is zero
(and the cache creates exactly the allocated rows).  `geoIco order` is the subdivision on triangles
of position vectors (same corner order as the python loop body, no index / cache bookkeeping). -/

/-- **C17, icosphere subdivision step.** If the three pairwise dot products of the corners of a
triangle are positive (`PosDots`: in particular no two corners are antipodal), the three edge
midpoints `0.5·(p+q)` are non-zero and each of the four sub-triangles again has positive pairwise
dot products. -/
theorem icosphere_subdivision_step (t : GeoTri) (h : PosDots t) :
    0 < V3.normSq (geoMid t.1 t.2.1) ∧ 0 < V3.normSq (geoMid t.2.1 t.2.2) ∧
      0 < V3.normSq (geoMid t.2.2 t.1) ∧ ∀ s ∈ geoSubdivide t, PosDots s :=
  ⟨geoMid_normSq_pos _ _ h.1, geoMid_normSq_pos _ _ h.2.1, geoMid_normSq_pos _ _ h.2.2,
    geoSubdivide_posDots t h⟩

example : PosDots ((⟨1, 0, 0⟩, ⟨1, 1, 0⟩, ⟨1, 0, 1⟩) : GeoTri) := by
  simp only [PosDots, V3.dot_def]; norm_num

/-- **C17, icosphere subdivision, all orders.** Starting from the 20 faces of the model's
icosahedron (`icoVertices0`, `icoTriangles0`; base case: every pairwise dot product on a face equals
the golden ratio), after any number of subdivision passes there are `20·4^order` triangles, every
triangle has positive pairwise dot products of its corners, and the midpoint of each of its edges
(the vertices the next pass creates) is not the zero vector. -/
theorem icosphere_midpoints_nonzero_all_orders (order : Nat) :
    (geoIco order).length = 20 * 4 ^ order ∧
    ∀ t ∈ geoIco order, PosDots t ∧ 0 < V3.normSq (geoMid t.1 t.2.1) ∧
      0 < V3.normSq (geoMid t.2.1 t.2.2) ∧ 0 < V3.normSq (geoMid t.2.2 t.1) :=
  ⟨geoIco_length order, fun t ht =>
    have h := geoIco_posDots order t ht
    ⟨h, geoMid_normSq_pos _ _ h.1, geoMid_normSq_pos _ _ h.2.1, geoMid_normSq_pos _ _ h.2.2⟩⟩

/-- the statement is about a non-empty list -/
example : (geoIco 3).length = 1280 := by rw [geoIco_length]; norm_num

/-- **C17, sphere factory defined, conditional on the cache bookkeeping (any order).** If the
subdivision creates at most the allocated `10·4^order + 2` rows, the midpoint pass of the model
returns exactly that many rows and each of them is non-zero, then `make_tetrahedral_sphere` returns
a mesh for every positive radius (the final normalisation divides by no zero). -/
theorem sphere_defined_of_nonzero_rows (r : ℝ) (hr : 0 < r) (order : Nat) (vs : List (V3 ℝ))
    (hv : (icoTopology order).2.v ≤ icoVertexCount order)
    (hm : icoMidpoints (icoVertices0 : List (V3 ℝ)) (icoTopology order).2.parents = .ok vs)
    (hlen : vs.length = icoVertexCount order) (hpos : ∀ p ∈ vs, 0 < V3.normSq p) :
    ∃ m, makeTetrahedralSphere r order = .ok m :=
  sphere_defined_of_rows_pos r hr order vs hv hm hlen hpos

/-- the hypotheses hold at order 0 -/
example : (icoTopology 0).2.v ≤ icoVertexCount 0 ∧
    icoMidpoints (icoVertices0 : List (V3 ℝ)) (icoTopology 0).2.parents = .ok icoVertices0 ∧
    (icoVertices0 : List (V3 ℝ)).length = icoVertexCount 0 ∧
    ∀ p ∈ (icoVertices0 : List (V3 ℝ)), 0 < V3.normSq p := by
  refine ⟨by decide, rfl, rfl, ?_⟩
  intro p hp
  simp only [icoVertices0, List.mem_cons, List.not_mem_nil, or_false] at hp
  have f2 : 0 ≤ (goldenF : ℝ) * goldenF := mul_self_nonneg _
  rcases hp with rfl | rfl | rfl | rfl | rfl | rfl | rfl | rfl | rfl | rfl | rfl | rfl <;>
    (simp only [V3.normSq_def]; nlinarith [f2])

/-- **C17, cache key.** The key `floor((a+b)(a+b+1)/2) + min(a,b)` of the midpoint cache is
injective on unordered pairs of vertex indices: two edges get the same key only if they are the same
edge (so a cache hit always returns the midpoint of the requested edge). -/
theorem cache_key_identifies_edge (a b c d : Nat) (h : cantorKey a b = cantorKey c d) :
    (a = c ∧ b = d) ∨ (a = d ∧ b = c) := cantorKey_inj a b c d h

example : cantorKey 11 5 = cantorKey 5 11 := by decide

/-- **C17, icosphere index bookkeeping, all orders.** For every subdivision order the midpoint pass
of the model reads only rows that already exist (no `IndexError`), returns exactly as many rows as
the subdivision counted (`v`, the 12 icosahedron vertices plus one per created midpoint), and every
index in every triangle is below that number. -/
theorem icosphere_index_bookkeeping_all_orders (order : Nat) :
    (∃ vs : List (V3 ℝ), icoMidpoints icoVertices0 (icoTopology order).2.parents = .ok vs ∧
      vs.length = (icoTopology order).2.v) ∧
    ∀ s ∈ (icoTopology order).1, s.1 < (icoTopology order).2.v ∧ s.2.1 < (icoTopology order).2.v ∧
      s.2.2 < (icoTopology order).2.v :=
  ⟨icoMidpoints_defined_all_orders order, (icoTopology_ok order).2⟩

example : (icoTopology 2).1.length = 320 := by rw [icosphere_vertex_counts.1]; norm_num

/-- **C17, sphere factory defined, conditional (any order).** If the subdivision creates exactly the
allocated `10·4^order + 2` vertices and no row of the midpoint pass is the zero vector, then
`make_tetrahedral_sphere` returns a mesh for every positive radius.  (The midpoint pass itself is
defined at every order, `icosphere_index_bookkeeping_all_orders`.) -/
theorem sphere_defined_of_count_and_nonzero_rows (r : ℝ) (hr : 0 < r) (order : Nat)
    (hc : (icoTopology order).2.v = icoVertexCount order)
    (hpos : ∀ vs : List (V3 ℝ),
      icoMidpoints icoVertices0 (icoTopology order).2.parents = .ok vs → ∀ p ∈ vs, 0 < V3.normSq p) :
    ∃ m, makeTetrahedralSphere r order = .ok m := by
  obtain ⟨vs, hm, hl⟩ := icoMidpoints_defined_all_orders order
  exact sphere_defined_of_rows_pos r hr order vs (le_of_eq hc) hm (hl.trans hc) (hpos vs hm)

/-- the count hypothesis holds at order 2 (kernel evaluation) -/
example : (icoTopology 2).2.v = icoVertexCount 2 := icosphere_vertex_counts.2.2.2.1

/-- **C17, `add_mid_point` and the cache (any state satisfying the invariants).** If every cache
entry `(key, idx)` carries the key of the parent pair recorded for vertex `idx` (`CacheOK`) and the
index bookkeeping invariant `StOK` holds, then after `add_mid_point(a, b)` (cache hit or miss) the
cache invariant still holds, the parent list has only grown at its end, and the returned vertex has
parent pair `(a, b)` or `(b, a)`. -/
theorem add_mid_point_returns_midpoint_of_requested_edge (a b : Nat) (st : IcoState) (h : StOK st)
    (hc : CacheOK st) :
    CacheOK (addMidPoint a b st).2 ∧
      (∃ ext, (addMidPoint a b st).2.parents = st.parents ++ ext) ∧
      12 ≤ (addMidPoint a b st).1 ∧
      ((addMidPoint a b st).2.parents[(addMidPoint a b st).1 - 12]? = some (a, b) ∨
        (addMidPoint a b st).2.parents[(addMidPoint a b st).1 - 12]? = some (b, a)) :=
  addMidPoint_cacheOK a b st h hc

/-- the invariants hold for the initial state -/
example : StOK ⟨[], 12, []⟩ ∧ CacheOK ⟨[], 12, []⟩ :=
  ⟨(icoTopology_ok 0).1, fun _ hkv => by cases hkv⟩

/-- **C17, rows of the midpoint pass are stable and are midpoints.** In a successful midpoint pass
`icoMidpoints vs ps = ok ws` earlier rows are never changed (`ws` extends `vs` by one row per parent
pair), and the row created for the `i`-th parent pair `(a, b)` is `0.5·(ws[a] + ws[b])`. -/
theorem icosphere_midpoint_rows (ps : List (Nat × Nat)) (vs ws : List (V3 ℝ))
    (h : icoMidpoints vs ps = .ok ws) :
    (∃ tl, ws = vs ++ tl ∧ tl.length = ps.length) ∧
    ∀ (i a b : Nat), ps[i]? = some (a, b) →
      ∃ pa pb, ws[a]? = some pa ∧ ws[b]? = some pb ∧ ws[vs.length + i]? = some (geoMid pa pb) :=
  ⟨icoMidpoints_prefix ps vs ws h, icoMidpoints_row ps vs ws h⟩

/-- the hypothesis is satisfiable (every order, `icosphere_index_bookkeeping_all_orders`) -/
example : ∃ ws : List (V3 ℝ), icoMidpoints icoVertices0 (icoTopology 1).2.parents = .ok ws :=
  (icoMidpoints_defined_all_orders 1).imp fun _ h => h.1

/-- **C17, glue: the index/cache subdivision is the position-triangle subdivision, all orders.**
For every order the cache invariant holds for the model's state, and the position triangles of the
index triangles of `icoTopology order`, rows looked up in the result `ws` of the model's midpoint
pass, are exactly the triangles of `geoIco order` (same order of triangles and corners). -/
theorem icosphere_index_triangles_are_geoIco_all_orders (order : Nat) (ws : List (V3 ℝ))
    (hm : icoMidpoints (icoVertices0 : List (V3 ℝ)) (icoTopology order).2.parents = .ok ws) :
    CacheOK (icoTopology order).2 ∧ (icoTopology order).1.map (posTri ws) = geoIco order :=
  ⟨(icoTopology_glue order).1.2,
    (icoTopology_glue order).2 [] ws (by rw [List.append_nil]; exact hm)⟩

/-- **C17, every row of the midpoint pass is non-zero, all orders.** Every vertex index below `v`
is a corner of a triangle of the final level (`icoTopology_cover`), whose position triangle is in
`geoIco order` and so has positive pairwise dot products; hence no row is the zero vector. -/
theorem icosphere_rows_nonzero_all_orders (order : Nat) (ws : List (V3 ℝ))
    (hm : icoMidpoints (icoVertices0 : List (V3 ℝ)) (icoTopology order).2.parents = .ok ws) :
    ∀ p ∈ ws, 0 < V3.normSq p := icoRows_nonzero order ws hm

/-- the hypothesis of the two theorems above is satisfiable at every order -/
example (order : Nat) : ∃ ws : List (V3 ℝ),
    icoMidpoints icoVertices0 (icoTopology order).2.parents = .ok ws :=
  (icoMidpoints_defined_all_orders order).imp fun _ h => h.1

/-- **C17, sphere factory defined, conditional only on the vertex count (any order).** If the
subdivision creates exactly the allocated `10·4^order + 2` vertices, `make_tetrahedral_sphere`
returns a mesh for every positive radius: no `IndexError`, and the final normalisation divides by no
zero because every row is non-zero (`icosphere_rows_nonzero_all_orders`). -/
theorem sphere_defined_of_count (r : ℝ) (hr : 0 < r) (order : Nat)
    (hc : (icoTopology order).2.v = icoVertexCount order) :
    ∃ m, makeTetrahedralSphere r order = .ok m :=
  sphere_defined_of_count_and_nonzero_rows r hr order hc (icoRows_nonzero order)

/-- **C17, vertex count at order 3 (kernel evaluation of this one order, not the all-orders
claim).** The cache creates exactly `10·4^3 + 2 = 642` vertices and ends empty. -/
theorem icosphere_vertex_count_order3 :
    (icoTopology 3).2.v = icoVertexCount 3 ∧ (icoTopology 3).2.cache = [] := icosphere_count_3

/-- **C17, sphere factory defined for orders 0–3**, every positive radius, unconditionally (count by
kernel evaluation for these four orders, everything else by the all-orders theorems). -/
theorem sphere_defined_orders_le_3 (r : ℝ) (hr : 0 < r) (order : Nat) (ho : order ≤ 3) :
    ∃ m, makeTetrahedralSphere r order = .ok m := by
  have h0 := icosphere_vertex_counts.2.1
  have h1 := icosphere_vertex_counts.2.2.1
  have h2 := icosphere_vertex_counts.2.2.2.1
  have h3 := icosphere_vertex_count_order3.1
  apply sphere_defined_of_count r hr order
  rcases (by omega : order = 0 ∨ order = 1 ∨ order = 2 ∨ order = 3) with rfl | rfl | rfl | rfl
  · exact h0
  · exact h1
  · exact h2
  · exact h3

/-- **C17, ellipsoid factory defined, conditional only on the vertex count (any order).** Same
hypothesis as `sphere_defined_of_count`; `make_tetrahedral_ellipsoid` builds the unit icosphere and
scales it, so it returns a mesh for every `radii`. -/
theorem ellipsoid_defined_of_count (radii : V3 ℝ) (order : Nat)
    (hc : (icoTopology order).2.v = icoVertexCount order) :
    ∃ m, makeTetrahedralEllipsoid radii order = .ok m := by
  obtain ⟨m, hm⟩ := sphere_defined_of_count 1 one_pos order hc
  unfold makeTetrahedralSphere at hm
  unfold makeTetrahedralEllipsoid
  cases h : makeTriangularIcosphere (V3.zero : V3 ℝ) 1 order with
  | error e => rw [h] at hm; cases hm
  | ok p => exact ⟨_, rfl⟩

/-- the count hypothesis holds at order 3 (kernel evaluation) -/
example : (icoTopology 3).2.v = icoVertexCount 3 := icosphere_vertex_count_order3.1

/-- **C17, ellipsoid factory defined for orders 0–3**, every `radii`, unconditionally (count by
kernel evaluation for these four orders). -/
theorem ellipsoid_defined_orders_le_3 (radii : V3 ℝ) (order : Nat) (ho : order ≤ 3) :
    ∃ m, makeTetrahedralEllipsoid radii order = .ok m := by
  have h0 := icosphere_vertex_counts.2.1
  have h1 := icosphere_vertex_counts.2.2.1
  have h2 := icosphere_vertex_counts.2.2.2.1
  have h3 := icosphere_vertex_count_order3.1
  apply ellipsoid_defined_of_count radii order
  rcases (by omega : order = 0 ∨ order = 1 ∨ order = 2 ∨ order = 3) with rfl | rfl | rfl | rfl
  · exact h0
  · exact h1
  · exact h2
  · exact h3

end C17
end D3
