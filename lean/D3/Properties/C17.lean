/-
C17 — Tetrahedral mesh factories partition the shape with valid potentials.

Property theorems only (helper lemmas live in `D3/Proofs/TetraMesh*.lean`), about the model
`D3/Model/TetraMesh.lean` of `hydroelastic_contact/_tetra_mesh_creation.py` and
`_mesh_processing.py` at `α := ℝ`.

* helpers: `volume_nonneg`, `volume_zero_iff_coplanar`, `volume_pos_iff_not_coplanar`,
  `aabb_helper_encloses_tight`, `com_is_weighted_mean`, `com_undefined_iff`;
* `make_tetrahedral_box` in all classes (one, two, three smallest sides; incl. sizes that differ by
  less than the relative tolerance) and `make_tetrahedral_cube`, for every positive size:
  `box_tiling_exact`, `box_vertices_and_potentials`, `box_topology`, `cube_tiling_exact`,
  `cube_vertices_and_potentials`, `cube_topology`, `box_assert_only_without_zero_axis`.
-/
import D3.Proofs.TetraMeshBox

namespace D3
namespace C17
open TetraMesh

/-! ## helpers (`_mesh_processing.py`) -/

/-- **C17, volume helper.** `tetrahedral_mesh_volumes` returns `|det|/6 ≥ 0` for every
tetrahedron. -/
theorem volume_nonneg (t : TetPts ℝ) : tetraVolume t = |det3 t| / 6 ∧ 0 ≤ tetraVolume t :=
  ⟨tetraVolume_eq t, tetraVolume_nonneg t⟩

example : tetraVolume (⟨⟨0, 0, 0⟩, ⟨1, 0, 0⟩, ⟨0, 1, 0⟩, ⟨0, 0, 1⟩⟩ : TetPts ℝ) = 1 / 6 := by
  rw [tetraVolume_eq, det3_def]; norm_num

/-- **C17, volume helper.** The volume is zero exactly for four coplanar points (some non-zero
normal is orthogonal to the three edges out of `p0`). -/
theorem volume_zero_iff_coplanar (t : TetPts ℝ) : tetraVolume t = 0 ↔ Coplanar t := by
  rw [tetraVolume_eq_zero_iff, det3_eq_zero_iff_coplanar]

/-- strictly positive volume ⇔ the four points are not coplanar -/
theorem volume_pos_iff_not_coplanar (t : TetPts ℝ) : 0 < tetraVolume t ↔ ¬ Coplanar t := by
  rw [tetraVolume_pos_iff, ne_eq, det3_eq_zero_iff_coplanar]

example : Coplanar (⟨⟨0, 0, 0⟩, ⟨1, 0, 0⟩, ⟨0, 1, 0⟩, ⟨1, 1, 0⟩⟩ : TetPts ℝ) :=
  ⟨⟨0, 0, 1⟩, by simp, by simp [V3.dot_def], by simp [V3.dot_def], by simp [V3.dot_def]⟩

/-- **C17, AABB helper.** The box of `tetrahedral_mesh_aabbs` contains the four vertices and each
of its six bounds is attained by a coordinate of one of them (componentwise min / max). -/
theorem aabb_helper_encloses_tight (t : TetPts ℝ) :
    let b := tetAabb t
    (∀ p ∈ [t.p0, t.p1, t.p2, t.p3],
      b.lo0 ≤ p.x ∧ p.x ≤ b.hi0 ∧ b.lo1 ≤ p.y ∧ p.y ≤ b.hi1 ∧ b.lo2 ≤ p.z ∧ p.z ≤ b.hi2) ∧
    (∃ p ∈ [t.p0, t.p1, t.p2, t.p3], p.x = b.lo0) ∧ (∃ p ∈ [t.p0, t.p1, t.p2, t.p3], p.x = b.hi0) ∧
    (∃ p ∈ [t.p0, t.p1, t.p2, t.p3], p.y = b.lo1) ∧ (∃ p ∈ [t.p0, t.p1, t.p2, t.p3], p.y = b.hi1) ∧
    (∃ p ∈ [t.p0, t.p1, t.p2, t.p3], p.z = b.lo2) ∧ (∃ p ∈ [t.p0, t.p1, t.p2, t.p3], p.z = b.hi2) := by
  have mem : ∀ (f : V3 ℝ → ℝ) (v : ℝ),
      (v = f t.p0 ∨ v = f t.p1 ∨ v = f t.p2 ∨ v = f t.p3) →
      ∃ p ∈ [t.p0, t.p1, t.p2, t.p3], f p = v := by
    intro f v h
    rcases h with h | h | h | h
    · exact ⟨t.p0, by simp, h.symm⟩
    · exact ⟨t.p1, by simp, h.symm⟩
    · exact ⟨t.p2, by simp, h.symm⟩
    · exact ⟨t.p3, by simp, h.symm⟩
  refine ⟨?_, mem (·.x) _ (min4_mem _ _ _ _), mem (·.x) _ (max4_mem _ _ _ _),
    mem (·.y) _ (min4_mem _ _ _ _), mem (·.y) _ (max4_mem _ _ _ _),
    mem (·.z) _ (min4_mem _ _ _ _), mem (·.z) _ (max4_mem _ _ _ _)⟩
  intro p hp
  obtain ⟨a0, a1, a2, a3⟩ := min4_le t.p0.x t.p1.x t.p2.x t.p3.x
  obtain ⟨b0, b1, b2, b3⟩ := le_max4 t.p0.x t.p1.x t.p2.x t.p3.x
  obtain ⟨c0, c1, c2, c3⟩ := min4_le t.p0.y t.p1.y t.p2.y t.p3.y
  obtain ⟨d0, d1, d2, d3⟩ := le_max4 t.p0.y t.p1.y t.p2.y t.p3.y
  obtain ⟨e0, e1, e2, e3⟩ := min4_le t.p0.z t.p1.z t.p2.z t.p3.z
  obtain ⟨f0, f1, f2, f3⟩ := le_max4 t.p0.z t.p1.z t.p2.z t.p3.z
  simp only [List.mem_cons, List.not_mem_nil, or_false] at hp
  rcases hp with rfl | rfl | rfl | rfl
  · exact ⟨a0, b0, c0, d0, e0, f0⟩
  · exact ⟨a1, b1, c1, d1, e1, f1⟩
  · exact ⟨a2, b2, c2, d2, e2, f2⟩
  · exact ⟨a3, b3, c3, d3, e3, f3⟩

example : (tetAabb (⟨⟨0, 0, 0⟩, ⟨1, 0, 0⟩, ⟨0, 2, 0⟩, ⟨0, 0, 3⟩⟩ : TetPts ℝ)).hi1 = 2 := by
  simp [tetAabb, max4]

/-- **C17, centre of mass helper.** When the total volume is non-zero,
`center_of_mass_tetrahedral_mesh` returns the volume-weighted mean of the tetrahedron centroids:
`com · Σ volᵢ = Σ volᵢ · centroidᵢ`, with `centroidᵢ` the mean of the four vertices. -/
theorem com_is_weighted_mean (ts : List (TetPts ℝ)) (h : sumS (meshVolumes ts) ≠ 0) :
    ∃ c, centerOfMass ts = .ok c ∧
      c.x * (ts.map tetraVolume).sum =
        (ts.map fun t => tetraVolume t * ((t.p0.x + t.p1.x + t.p2.x + t.p3.x) / 4)).sum ∧
      c.y * (ts.map tetraVolume).sum =
        (ts.map fun t => tetraVolume t * ((t.p0.y + t.p1.y + t.p2.y + t.p3.y) / 4)).sum ∧
      c.z * (ts.map tetraVolume).sum =
        (ts.map fun t => tetraVolume t * ((t.p0.z + t.p1.z + t.p2.z + t.p3.z) / 4)).sum := by
  have hs : sumS (meshVolumes ts) = (ts.map tetraVolume).sum := by rw [sumS_eq_sum]; rfl
  have hc : centerOfMass ts = .ok (V3.sdiv (weightedSum ts) (sumS (meshVolumes ts))) := by
    simp only [centerOfMass, h, if_false]
  rw [hs] at h
  refine ⟨_, hc, ?_, ?_, ?_⟩
  · simp only [V3.sdiv, weightedSum_eq, hs, centroid_x]
    field_simp
  · simp only [V3.sdiv, weightedSum_eq, hs, centroid_y]
    field_simp
  · simp only [V3.sdiv, weightedSum_eq, hs, centroid_z]
    field_simp

/-- the centre of mass is undefined (0/0 → NaN in numpy) exactly when the total volume is zero,
e.g. for an empty mesh -/
theorem com_undefined_iff (ts : List (TetPts ℝ)) :
    centerOfMass ts = .error .divZero ↔ (ts.map tetraVolume).sum = 0 := by
  have hs : sumS (meshVolumes ts) = (ts.map tetraVolume).sum := by rw [sumS_eq_sum]; rfl
  unfold centerOfMass
  simp only [hs]
  split
  · rename_i h; simp [h]
  · rename_i h; simp [h]

example : sumS (meshVolumes [(⟨⟨0, 0, 0⟩, ⟨1, 0, 0⟩, ⟨0, 1, 0⟩, ⟨0, 0, 1⟩⟩ : TetPts ℝ)]) ≠ 0 := by
  simp [meshVolumes, sumS_cons, sumS_nil, tetraVolume_eq, det3_def]

/-! ## `make_tetrahedral_box` -/

/-- **C17, box: positive volumes, exact tiling.** For every positive size vector (whatever its
class: one, two or three smallest sides, also sides differing by less than the relative
tolerance) the factory succeeds, indexing `vertices[tetrahedra]` is in range, every tetrahedron
has strictly positive volume and the volumes sum to `sx·sy·sz` exactly. -/
theorem box_tiling_exact (size : V3 ℝ) (h : 0 < size.x ∧ 0 < size.y ∧ 0 < size.z) :
    ∃ m vols, makeTetrahedralBox size = .ok m ∧ m.volumes = .ok vols ∧
      vols.length = m.tets.length ∧ (∀ v ∈ vols, 0 < v) ∧ sumS vols = size.x * size.y * size.z := by
  obtain ⟨m, hm, g⟩ := makeTetrahedralBox_good size h
  obtain ⟨vols, hv, hl, hp, hsum⟩ := g.volumes
  exact ⟨m, vols, hm, hv, hl, hp, by rw [hsum]; ring⟩

example : ∃ m vols, makeTetrahedralBox (⟨1, 2, 3⟩ : V3 ℝ) = .ok m ∧ m.volumes = .ok vols ∧
    vols.length = m.tets.length ∧ (∀ v ∈ vols, 0 < v) ∧ sumS vols = 1 * 2 * 3 :=
  box_tiling_exact ⟨1, 2, 3⟩ ⟨by norm_num, by norm_num, by norm_num⟩

/-- **C17, box: vertices and potentials.** All vertices lie in `[-s/2, s/2]³`; there is one
potential per vertex; every vertex is either on the boundary of the box with potential 0 or
strictly inside with potential `min(s)/2` (the inradius). -/
theorem box_vertices_and_potentials (size : V3 ℝ) (h : 0 < size.x ∧ 0 < size.y ∧ 0 < size.z) :
    ∃ m, makeTetrahedralBox size = .ok m ∧ m.potentials.length = m.vertices.length ∧
      (∀ p ∈ m.vertices, |p.x| ≤ size.x / 2 ∧ |p.y| ≤ size.y / 2 ∧ |p.z| ≤ size.z / 2) ∧
      (∀ pq ∈ m.vertices.zip m.potentials,
        (OnBdry (size.x / 2) (size.y / 2) (size.z / 2) pq.1 ∧ pq.2 = 0) ∨
        (Inside (size.x / 2) (size.y / 2) (size.z / 2) pq.1 ∧
          pq.2 = min (min size.x size.y) size.z / 2)) := by
  obtain ⟨m, hm, g⟩ := makeTetrahedralBox_good size h
  refine ⟨m, hm, g.pot_len, ?_, g.pots⟩
  intro p hp
  obtain ⟨a, b, c, d, e, f⟩ := g.in_box p hp
  exact ⟨abs_le.mpr ⟨a, b⟩, abs_le.mpr ⟨c, d⟩, abs_le.mpr ⟨e, f⟩⟩

example : ∃ m, makeTetrahedralBox (⟨2, 2, 1⟩ : V3 ℝ) = .ok m ∧ m.potentials.length = m.vertices.length :=
  let ⟨m, h1, h2, _⟩ := box_vertices_and_potentials ⟨2, 2, 1⟩ ⟨by norm_num, by norm_num, by norm_num⟩
  ⟨m, h1, h2⟩

/-- **C17, box: topology.** No tetrahedron has a repeated vertex index (the duplicate medial
vertices of the classes with two or three equal smallest sides never survive
`_split_to_tetrahedra`), all indices are in range, every vertex is used by some tetrahedron, and
there are between 9 and 12 vertices (the `assert len(mesh_vertices) <= 12` cannot fire). -/
theorem box_topology (size : V3 ℝ) (h : 0 < size.x ∧ 0 < size.y ∧ 0 < size.z) :
    ∃ m, makeTetrahedralBox size = .ok m ∧
      (∀ t ∈ m.tets, t.distinct = true ∧ t.inRange m.vertices.length) ∧
      (∀ i, i < m.vertices.length → ∃ t ∈ m.tets, i ∈ t.toList) ∧
      9 ≤ m.vertices.length ∧ m.vertices.length ≤ 12 := by
  obtain ⟨m, hm, g⟩ := makeTetrahedralBox_good size h
  exact ⟨m, hm, fun t ht => ⟨g.distinct t ht, g.inRange t ht⟩, g.used, g.n_vertices.1, g.n_vertices.2⟩

/-- concrete class check at `Rat`: two equal smallest sides → 10 vertices, 16 tetrahedra -/
example : ((makeTetrahedralBox (⟨1, 1, 2⟩ : V3 Rat)).toOption.map
    fun m => (m.vertices.length, m.tets.length)) = some (10, 16) := by decide +kernel

/-- the assertion of the box factory fires exactly in the class that positive sizes can never
reach: no central half size equal to zero (the smallest side always yields an exact zero) -/
theorem box_assert_only_without_zero_axis (hs hc : V3 ℝ) (mn : ℝ)
    (hx : hc.x ≠ 0) (hy : hc.y ≠ 0) (hz : hc.z ≠ 0) :
    boxFromCentral hs hc mn = .error .assertFail := by
  obtain ⟨a, b, c⟩ := hs
  obtain ⟨d, e, f⟩ := hc
  exact boxFromCentral_FFF a b c d e f mn hx hy hz

example : (⟨1, 1, 1⟩ : V3 ℝ).x ≠ 0 := by norm_num

/-! ## `make_tetrahedral_cube` -/

/-- **C17, cube: positive volumes, exact tiling.** For every positive edge length all twelve
tetrahedra have strictly positive volume (they are negatively oriented; the helper's `abs` makes
the volume positive) and the volumes sum to `s³`. -/
theorem cube_tiling_exact (s : ℝ) (h : 0 < s) :
    ∃ vols, (makeTetrahedralCube s).volumes = .ok vols ∧ vols.length = 12 ∧
      (∀ v ∈ vols, 0 < v) ∧ sumS vols = s * s * s := by
  obtain ⟨vols, hv, hl, hp, hsum⟩ := (makeTetrahedralCube_good s h).volumes
  exact ⟨vols, hv, by rw [hl]; rfl, hp, hsum⟩

example : ∃ vols, (makeTetrahedralCube (2 : ℝ)).volumes = .ok vols ∧ vols.length = 12 ∧
    (∀ v ∈ vols, 0 < v) ∧ sumS vols = 2 * 2 * 2 := cube_tiling_exact 2 (by norm_num)

/-- **C17, cube: vertices and potentials.** Eight corners with potential 0 on the boundary, the
centre strictly inside with potential `s/2`. -/
theorem cube_vertices_and_potentials (s : ℝ) (h : 0 < s) :
    let m := makeTetrahedralCube s
    m.potentials.length = m.vertices.length ∧
    (∀ p ∈ m.vertices, |p.x| ≤ s / 2 ∧ |p.y| ≤ s / 2 ∧ |p.z| ≤ s / 2) ∧
    (∀ pq ∈ m.vertices.zip m.potentials,
      (OnBdry (s / 2) (s / 2) (s / 2) pq.1 ∧ pq.2 = 0) ∨
      (Inside (s / 2) (s / 2) (s / 2) pq.1 ∧ pq.2 = s / 2)) := by
  have g := makeTetrahedralCube_good s h
  refine ⟨g.pot_len, ?_, g.pots⟩
  intro p hp
  obtain ⟨a, b, c, d, e, f⟩ := g.in_box p hp
  exact ⟨abs_le.mpr ⟨a, b⟩, abs_le.mpr ⟨c, d⟩, abs_le.mpr ⟨e, f⟩⟩

example : (0 : ℝ) < 3 := by norm_num

/-- **C17, cube: topology.** -/
theorem cube_topology (s : ℝ) (h : 0 < s) :
    let m := makeTetrahedralCube s
    (∀ t ∈ m.tets, t.distinct = true ∧ t.inRange m.vertices.length) ∧
    (∀ i, i < m.vertices.length → ∃ t ∈ m.tets, i ∈ t.toList) ∧ m.vertices.length = 9 := by
  have g := makeTetrahedralCube_good s h
  refine ⟨fun t ht => ⟨g.distinct t ht, g.inRange t ht⟩, g.used, ?_⟩
  rw [cube_vertices]; rfl

example : (0 : ℝ) < 1 / 100 := by norm_num

end C17
end D3
