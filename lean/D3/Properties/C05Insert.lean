/-
C05 (insertion half) — the array-level insertion code of `distance3d/aabb_tree.py` implements
the tree-level insertion, for every insertion history.

`D3.Properties.C05` proves the query theorems for every array state accepted by the run-time
check `wfCheck`, and `history_leaves` on the tree layer.  This file closes the gap between the
two layers **by proof** (it used to be checked at run time only):

* `insertLeaf_refines`, `insertLeaf_refines_empty` — one `insert_leaf` call on the arrays
  (`Aabb.insertLeaf`, faithful model incl. every checked read/write, the cost assertion and
  the fuel of both loops) succeeds and produces exactly the arrays encoding `T.insert`'s
  result, rows outside the touched ones unchanged;
* `insertMany_refines` — the jitted loop `insert_aabbs` = fold of `T.insert`;
* `history_wf` — every history of `AabbTree.insert_aabbs` calls (any batch sizes incl. 0,
  modes none / shuffle with any permutation / sort with the repaired order, with or without
  external data) on a fresh object never raises, ends in a state accepted by `wfCheck`, whose
  leaves are exactly the inserted boxes at the documented rows and whose
  `external_data_list` holds each datum at the row of its box;
* `history_wf_asIs` — the same for the code as it is (unrepaired `sort` order), for all
  histories that use mode `sort` only while the tree is empty;
* `history_query_exact` — consequently `query_overlap` after any history returns exactly the
  rows of the inserted boxes that overlap the query box.

The representation predicate is `Aabb.RepP nodes aabbs parent t`: every row of `nodes` used
by `t` is fully determined (`[parent, -1, -1, TYPE_LEAF]` for leaves,
`[parent, left.idx, right.idx, TYPE_BRANCH]` for inner nodes) and `aabbs` holds the boxes.
Helper lemmas: `D3/Proofs/AabbInsert*.lean`.
-/
import D3.Properties.C05
import D3.Proofs.AabbInsertCheck

namespace D3
namespace C05Insert
open Aabb

/-! ### concrete inputs for the non-vacuity examples -/

/-- state of the arrays inside the second `insert_aabbs` call of the history
`[[b0, b1], [b3]]`: rows 0,1 leaves, row 2 their parent (root), row 3 the pre-loaded new
leaf, row 4 the fresh parent row (`filledLen = 4`) -/
def exCore (α : Type) [OfNat α 0] [OfNat α 1] [OfNat α 2] [OfScientific α] : Core α :=
  { root := 2, filledLen := 4,
    nodes := #[⟨2, -1, -1, 1⟩, ⟨2, -1, -1, 1⟩, ⟨-1, 0, 1, 2⟩, ⟨-1, -1, -1, -1⟩, ⟨-1, -1, -1, -1⟩],
    aabbs := #[⟨0, 1, 0, 1, 0, 1⟩, ⟨1, 2, 0, 1, 0, 1⟩, ⟨0, 2, 0, 1, 0, 1⟩,
               ⟨1.5, 2, 0, 1, 0, 1⟩, ⟨0, 0, 0, 0, 0, 0⟩] }

/-- empty tree, one / two pre-loaded leaf rows (state at the start of the first call) -/
noncomputable def exEmpty1 : Core ℝ :=
  { root := -1, filledLen := 1, nodes := #[emptyNode, emptyNode],
    aabbs := #[⟨0, 1, 0, 1, 0, 1⟩, ⟨0, 0, 0, 0, 0, 0⟩] }

noncomputable def exEmpty2 : Core ℝ :=
  { root := -1, filledLen := 2, nodes := #[emptyNode, emptyNode, emptyNode, emptyNode],
    aabbs := #[⟨0, 1, 0, 1, 0, 1⟩, ⟨1, 2, 0, 1, 0, 1⟩, ⟨0, 0, 0, 0, 0, 0⟩, ⟨0, 0, 0, 0, 0, 0⟩] }

def exT (α : Type) [OfNat α 0] [OfNat α 1] [OfNat α 2] : T α :=
  .node 2 ⟨0, 2, 0, 1, 0, 1⟩ (.leaf 0 ⟨0, 1, 0, 1, 0, 1⟩) (.leaf 1 ⟨1, 2, 0, 1, 0, 1⟩)

theorem exRep : RepP (exCore ℝ).nodes (exCore ℝ).aabbs INDEX_NONE (exT ℝ) :=
  ⟨rfl, rfl, ⟨rfl, rfl⟩, ⟨rfl, rfl⟩⟩

theorem exTight : (exT ℝ).Tight := by
  refine ⟨?_, trivial, trivial⟩
  simp only [merge, T.box]
  norm_num

theorem exValid : (exT ℝ).AllValid := by
  simp only [exT, T.AllValid, Box.Valid]
  norm_num

theorem exEnc : Enc (exCore ℝ) (some (exT ℝ)) :=
  ⟨rfl, exRep, by decide, exTight, exValid, by decide⟩

theorem exPending : Pending (exCore ℝ) (exT ℝ).indices [((3 : Int), (⟨1.5, 2, 0, 1, 0, 1⟩ : Box ℝ))] := by
  refine ⟨by decide, ?_, by decide, by decide⟩
  intro x hx
  simp only [List.mem_singleton] at hx
  subst hx
  refine ⟨rfl, rfl, by simp only [Box.Valid]; norm_num, by decide, by decide⟩

/-- a concrete admissible history: two boxes with data, then one box shuffled without data,
then an empty call in mode `sort`, then two boxes with data in mode `sort` (given in
descending `lo0` order, so the sort really permutes them) -/
noncomputable def exHist : List Batch :=
  [⟨[⟨0, 1, 0, 1, 0, 1⟩, ⟨1, 2, 0, 1, 0, 1⟩], some [7, 8], .none, []⟩,
   ⟨[⟨1.5, 2, 0, 1, 0, 1⟩], none, .shuffle, [0]⟩,
   ⟨[], none, .sort, []⟩,
   ⟨[⟨5, 6, 0, 1, 0, 1⟩, ⟨-1, 0, 0, 1, 0, 1⟩], some [1, 2], .sort, []⟩]

theorem exHist_ok : ∀ b ∈ exHist, b.Ok := by
  intro b hb
  simp only [exHist, List.mem_cons, List.not_mem_nil, or_false] at hb
  rcases hb with rfl | rfl | rfl | rfl
  · refine ⟨?_, ?_, (by intro h; cases h)⟩
    · intro x hx
      simp only [List.mem_cons, List.not_mem_nil, or_false] at hx
      rcases hx with rfl | rfl <;> (simp only [Box.Valid]; norm_num)
    · intro l hl; cases hl; rfl
  · refine ⟨?_, (by intro l hl; cases hl), (by intro _; exact List.Perm.refl _)⟩
    intro x hx
    simp only [List.mem_singleton] at hx
    subst hx; simp only [Box.Valid]; norm_num
  · exact ⟨(by intro x hx; cases hx), (by intro l hl; cases hl), (by intro h; cases h)⟩
  · refine ⟨?_, ?_, (by intro h; cases h)⟩
    · intro x hx
      simp only [List.mem_cons, List.not_mem_nil, or_false] at hx
      rcases hx with rfl | rfl <;> (simp only [Box.Valid]; norm_num)
    · intro l hl; cases hl; rfl


/-- **`insert_leaf` refines `T.insert`.**  Let the core state `c` encode a tree `t` (strong
predicate `RepP` with root parent `INDEX_NONE`, `t.idx = c.root`, distinct indices, tight,
valid boxes).  Let `leaf` be a row outside the tree whose node row has `left = right = -1`
(as pre-loaded by `AabbTree.insert_aabbs`) and whose box `lb` is valid, and let the fresh
parent row `p = c.filledLen` be in range of both arrays, different from `leaf` and outside
the tree.  Then `insertLeaf c leaf` returns normally (no `indexOOB`, no `assertFail`, no
`fuel`) with a state `c'` that encodes `t'`, where `t.insert leaf lb p = some t'`; `t'` is
again tight/valid with distinct indices, its leaves are the old leaves plus `(leaf, lb)`;
`filledLen` grows by one, the array sizes are kept, and every row outside
`t.indices ∪ {leaf, p}` is unchanged in both arrays (frame). -/
theorem insertLeaf_refines (c : Core ℝ) (t : T ℝ) (leaf : Int) (nl : Node) (lb : Box ℝ)
    (hrep : RepP c.nodes c.aabbs INDEX_NONE t) (hidx : t.idx = c.root) (hnd : t.indices.Nodup)
    (htight : t.Tight) (hvalid : t.AllValid)
    (hnl : rd c.nodes leaf = .ok nl) (hnll : nl.left = INDEX_NONE) (hnlr : nl.right = INDEX_NONE)
    (hlb : rd c.aabbs leaf = .ok lb) (hlbv : lb.Valid) (hleaf : leaf ∉ t.indices)
    (hpN : InR c.nodes c.filledLen) (hpA : InR c.aabbs c.filledLen)
    (hpl : (c.filledLen : Int) ≠ leaf) (hp : (c.filledLen : Int) ∉ t.indices) :
    ∃ c' t', insertLeaf c leaf = .ok c' ∧ t.insert leaf lb c.filledLen = some t' ∧
      t'.idx = c'.root ∧ RepP c'.nodes c'.aabbs INDEX_NONE t' ∧ t'.indices.Nodup ∧
      t'.Tight ∧ t'.AllValid ∧
      t'.leaves.Perm ((leaf, lb) :: t.leaves) ∧
      t'.indices.Perm ((c.filledLen : Int) :: leaf :: t.indices) ∧ t'.size = t.size + 2 ∧
      c'.filledLen = c.filledLen + 1 ∧
      c'.nodes.size = c.nodes.size ∧ c'.aabbs.size = c.aabbs.size ∧
      (∀ j, j ∉ t.indices → j ≠ leaf → j ≠ c.filledLen →
        rd c'.nodes j = rd c.nodes j ∧ rd c'.aabbs j = rd c.aabbs j) :=
  Aabb.insertLeaf_refines c t leaf nl lb hrep hidx hnd htight hvalid hnl hnll hnlr hlb hlbv hleaf
    hpN hpA hpl hp

/-- the hypotheses of `insertLeaf_refines` hold on the concrete ℝ state (leaf row 3, box
`[1.5, 2]×[0,1]×[0,1]`, fresh parent row 4) -/
example : ∃ c' t', insertLeaf (exCore ℝ) 3 = .ok c' ∧ t'.idx = c'.root ∧
    RepP c'.nodes c'.aabbs INDEX_NONE t' ∧ c'.filledLen = 5 := by
  obtain ⟨c', t', h1, _, h3, h4, _, _, _, _, _, _, h11, _⟩ :=
    insertLeaf_refines (exCore ℝ) (exT ℝ) 3 emptyNode ⟨1.5, 2, 0, 1, 0, 1⟩ exRep rfl
      (by decide) exTight exValid rfl rfl rfl rfl (by simp only [Box.Valid]; norm_num)
      (by decide) ⟨by decide, by decide⟩ ⟨by decide, by decide⟩ (by decide) (by decide)
  exact ⟨c', t', h1, h3, h4, h11⟩


/-- the same with the hypotheses packaged as the executable check `insertPreB` -/
theorem insertLeaf_refines_checked (c : Core ℝ) (t : T ℝ) (leaf : Int)
    (h : insertPreB c t leaf = true) :
    ∃ c' t' lb, insertLeaf c leaf = .ok c' ∧ rd c.aabbs leaf = .ok lb ∧
      t.insert leaf lb c.filledLen = some t' ∧ t'.idx = c'.root ∧
      RepP c'.nodes c'.aabbs INDEX_NONE t' ∧ t'.indices.Nodup ∧ t'.Tight ∧ t'.AllValid ∧
      t'.leaves.Perm ((leaf, lb) :: t.leaves) ∧ c'.filledLen = c.filledLen + 1 := by
  obtain ⟨nl, lb, h1, h2, h3, h4, h5, h6, h7, h8, h9, h10, h11, h12, h13, h14, h15⟩ :=
    insertPreB_sound c t leaf h
  obtain ⟨c', t', g1, g2, g3, g4, g5, g6, g7, g8, _, _, g11, _⟩ :=
    Aabb.insertLeaf_refines c t leaf nl lb h1 h2 h3 h4 h5 h6 h7 h8 h9 h10 h11 h12 h13 h14 h15
  exact ⟨c', t', lb, g1, h9, g2, g3, g4, g5, g6, g7, g8, g11⟩

/-- the executable check passes on the `Rat` instance of the same state, and running the model
there yields arrays that encode `T.insert`'s result -/
example : insertPreB (exCore Rat) (exT Rat) 3 = true := by decide +kernel

example :
    (match insertLeaf (exCore Rat) 3, (exT Rat).insert 3 ⟨1.5, 2, 0, 1, 0, 1⟩ 4 with
     | .ok c', some t' => repPB c'.nodes c'.aabbs INDEX_NONE t' && decide (t'.idx = c'.root) &&
         decide (c'.filledLen = 5) && decide (t'.leaves.map (·.1) = [3, 1, 0])
     | _, _ => false) = true := by decide +kernel


/-- **`insert_leaf` on the empty tree** (`root = INDEX_NONE`): the blank row `leaf` becomes
the root; nothing else changes, `filledLen` included. -/
theorem insertLeaf_refines_empty (c : Core ℝ) (leaf : Int) (lb : Box ℝ)
    (hroot : c.root = INDEX_NONE) (hnl : rd c.nodes leaf = .ok emptyNode)
    (hlb : rd c.aabbs leaf = .ok lb) :
    ∃ c', insertLeaf c leaf = .ok c' ∧ c'.root = leaf ∧
      RepP c'.nodes c'.aabbs INDEX_NONE (.leaf leaf lb) ∧ c'.filledLen = c.filledLen ∧
      c'.nodes.size = c.nodes.size ∧ c'.aabbs = c.aabbs ∧
      (∀ j, j ≠ leaf → rd c'.nodes j = rd c.nodes j) :=
  insertLeaf_empty_struct c leaf emptyNode lb hroot hnl rfl rfl rfl hlb

/-- non-vacuity: an empty core with one pre-loaded row -/
example : ∃ c', insertLeaf exEmpty1 0 = .ok c' ∧ c'.root = 0 := by
  obtain ⟨c', h1, h2, _⟩ := insertLeaf_refines_empty exEmpty1 0 ⟨0, 1, 0, 1, 0, 1⟩ rfl rfl rfl
  exact ⟨c', h1, h2⟩

/-- **the jitted loop `insert_aabbs` refines the fold of `T.insert`.**  `c` encodes `t`
(`Enc`: `RepP`, distinct indices all `< filledLen`, tight, valid); `slots` are the pre-loaded
leaf rows in insertion order with their boxes (`Pending`: distinct, blank, below `filledLen`,
outside the tree, valid box, and room for one parent row per slot — which is what
`AabbTree.insert_aabbs` allocates).  Then `insertMany` succeeds, the final state encodes the
result of folding `T.insert` with parent rows `filledLen, filledLen+1, …`, its leaves are the
old ones plus the slots, and rows outside the tree, the slots and the new parent rows are
unchanged. -/
theorem insertMany_refines (slots : List (Int × Box ℝ)) (c : Core ℝ) (t : T ℝ)
    (henc : Enc c (some t)) (hpend : Pending c t.indices slots) :
    ∃ c' t', insertMany c (slots.map (·.1)) = .ok c' ∧ Enc c' (some t') ∧
      (insList c.filledLen slots).foldlM (fun t x => t.insert x.1 x.2.1 x.2.2) t = some t' ∧
      t'.leaves.Perm (slots.reverse ++ t.leaves) ∧ t'.size = t.size + 2 * slots.length ∧
      c'.filledLen = c.filledLen + slots.length ∧
      c'.nodes.size = c.nodes.size ∧ c'.aabbs.size = c.aabbs.size ∧
      (∀ j, j ∉ t.indices → j ∉ slots.map (·.1) →
        (j < (c.filledLen : Int) ∨ (c'.filledLen : Int) ≤ j) →
        rd c'.nodes j = rd c.nodes j ∧ rd c'.aabbs j = rd c.aabbs j) :=
  Aabb.insertMany_refines slots c t henc hpend

/-- the hypotheses of `insertMany_refines` hold on the same state with one pending slot -/
example : ∃ c', insertMany (exCore ℝ) [3] = .ok c' ∧ c'.filledLen = 5 := by
  obtain ⟨c', t', h1, _, _, _, _, h6, _⟩ := insertMany_refines _ (exCore ℝ) (exT ℝ) exEnc exPending
  exact ⟨c', h1, h6⟩

/-- the loop started on the empty tree: the first slot becomes the root -/
theorem insertMany_refines_empty (x : Int × Box ℝ) (rest : List (Int × Box ℝ)) (c : Core ℝ)
    (henc : Enc c none) (hpend : Pending c [] (x :: rest)) :
    ∃ c' t', insertMany c ((x :: rest).map (·.1)) = .ok c' ∧ Enc c' (some t') ∧
      (insList c.filledLen rest).foldlM (fun t y => t.insert y.1 y.2.1 y.2.2) (.leaf x.1 x.2)
        = some t' ∧
      t'.leaves.Perm (x :: rest).reverse ∧ t'.size = 2 * (x :: rest).length - 1 ∧
      c'.filledLen = c.filledLen + rest.length ∧
      c'.nodes.size = c.nodes.size ∧ c'.aabbs.size = c.aabbs.size :=
  Aabb.insertMany_refines_empty x rest c henc hpend

/-- non-vacuity: the first call of a history (two pre-loaded rows, empty tree) -/
example : ∃ c', insertMany exEmpty2 [0, 1] = .ok c' ∧ c'.filledLen = 3 := by
  have hp : Pending exEmpty2 []
      [((0 : Int), (⟨0, 1, 0, 1, 0, 1⟩ : Box ℝ)), (1, ⟨1, 2, 0, 1, 0, 1⟩)] := by
    refine ⟨by decide, ?_, by decide, by decide⟩
    intro x hx
    simp only [List.mem_cons, List.not_mem_nil, or_false] at hx
    rcases hx with rfl | rfl
    · exact ⟨rfl, rfl, by simp only [Box.Valid]; norm_num, by decide, by simp⟩
    · exact ⟨rfl, rfl, by simp only [Box.Valid]; norm_num, by decide, by simp⟩
  obtain ⟨c', t', h1, _, _, _, _, h6, _⟩ := insertMany_refines_empty _ _ exEmpty2 rfl hp
  exact ⟨c', h1, h6⟩

/-- **C05, every insertion history is well-formed.**  Run any list of
`AabbTree.insert_aabbs` calls (`Batch`: boxes, optional external data, mode, shuffle
permutation; `Batch.Ok`: valid boxes, data length = number of boxes, `perm` a permutation of
the batch rows when the mode is `shuffle`) on a fresh object with the repaired `sort` order.
Then no call raises; the final arrays pass the run-time check `wfCheck` (strong
representation, tight boxes, consistent parent pointers, distinct indices, every row
`0 … filled_len-1` used, arrays cut to `filled_len`); the leaves of the encoded tree are
exactly (as a multiset) the inserted boxes at rows `histLeaves 0 h` (the `k`-th box of a call
made at `filled_len = f` sits at row `f + k`); and `external_data_list[row]` is the datum
supplied with the box of that row (`none` for calls without data). -/
theorem history_wf (h : List Batch) (hok : ∀ b ∈ h, b.Ok) :
    ∃ tr ot, runHistory Tree.empty h = .ok tr ∧ TInv tr ot ∧ wfCheck tr.core = some ot ∧
      (oleaves ot).Perm (histLeaves 0 h) ∧
      (∀ x ∈ histData 0 h, tr.ext[x.1]? = some x.2) := by
  obtain ⟨tr, ot, hrun, hinv, hleaves, _, hdata⟩ := history_from h Tree.empty none TInv.empty hok
  refine ⟨tr, ot, hrun, hinv, ?_, ?_, hdata⟩
  · cases ot with
    | none =>
      exact wfCheck_complete_empty tr.core hinv.enc hinv.szT.symm
        (by rw [hinv.szN]; exact hinv.szT.symm) (by rw [hinv.szA]; exact hinv.szT.symm)
    | some t =>
      obtain ⟨hidx, hrep, hnd, ht, _, _⟩ := hinv.enc
      exact wfCheck_complete tr.core t hidx hrep hnd ht hinv.szT hinv.szN hinv.szA
  · simpa [oleaves, Tree.empty] using hleaves

/-- the rows predicted for this history: batch 1 at rows 0,1 (parent 2), batch 2 at row 3
(parent 4), batch 4 at rows 5,6 (parents 7,8) -/
example : histLeaves 0 exHist =
    [((5 : Int), (⟨5, 6, 0, 1, 0, 1⟩ : Box ℝ)), (6, ⟨-1, 0, 0, 1, 0, 1⟩), (3, ⟨1.5, 2, 0, 1, 0, 1⟩),
     (0, ⟨0, 1, 0, 1, 0, 1⟩), (1, ⟨1, 2, 0, 1, 0, 1⟩)] := by
  simp [histLeaves, exHist, batchLeaves, nextFilled]

example : histData 0 exHist = [(0, some 7), (1, some 8), (3, none), (5, some 1), (6, some 2)] := by
  simp [histData, exHist, nextFilled, Batch.datum, List.range_succ_eq_map]

example : ∃ tr, runHistory Tree.empty exHist = .ok tr ∧ (wfCheck tr.core).isSome ∧
    tr.ext[5]? = some (some 1) := by
  obtain ⟨tr, ot, h1, _, h3, _, h5⟩ := history_wf exHist exHist_ok
  refine ⟨tr, h1, by rw [h3]; rfl, ?_⟩
  exact h5 (5, some 1) (by simp [histData, exHist, nextFilled, Batch.datum, List.range_succ_eq_map])

/-- the executable model at `Rat` on the same history: no error, `wfCheck` accepts, and the
external data sit at the predicted rows (`histData`) -/
def exRun : Except Err (Aabb.Tree Rat) := do
  let t ← Tree.insertAabbs insertOrderFixed (Aabb.Tree.empty : Aabb.Tree Rat)
    [⟨0, 1, 0, 1, 0, 1⟩, ⟨1, 2, 0, 1, 0, 1⟩] (some [7, 8]) .none []
  let t ← Tree.insertAabbs insertOrderFixed t [⟨1.5, 2, 0, 1, 0, 1⟩] none .shuffle [0]
  let t ← Tree.insertAabbs insertOrderFixed t [] none .sort []
  Tree.insertAabbs insertOrderFixed t [⟨5, 6, 0, 1, 0, 1⟩, ⟨-1, 0, 0, 1, 0, 1⟩] (some [1, 2]) .sort []

example :
    (match exRun with
     | .ok t => (wfCheck t.core).isSome && decide (t.core.filledLen = 9) &&
         decide (t.ext.toList = [some 7, some 8, none, none, none, some 1, some 2, none, none])
     | _ => false) = true := by decide +kernel

/-- **C05 end to end.**  After any admissible insertion history, the array-level
`query_overlap` terminates normally and returns, each exactly once, precisely the rows of
the inserted boxes that pass the closed-interval overlap test with the query box. -/
theorem history_query_exact (h : List Batch) (hok : ∀ b ∈ h, b.Ok) (q : Box ℝ) :
    ∃ tr res, runHistory Tree.empty h = .ok tr ∧
      queryOverlap q tr.core.root tr.core.nodes tr.core.aabbs = .ok res ∧ res.Nodup ∧
      (∀ i, i ∈ res ↔ ∃ b, (i, b) ∈ histLeaves 0 h ∧ overlap b q = true) := by
  obtain ⟨tr, ot, hrun, hinv, hwf, hleaves, _⟩ := history_wf h hok
  cases ot with
  | none =>
    have hroot : tr.core.root = INDEX_NONE := hinv.enc
    have hnil : histLeaves 0 h = [] := by
      have := hleaves.length_eq
      simp only [oleaves, List.length_nil] at this
      exact List.length_eq_zero_iff.mp this.symm
    refine ⟨tr, [], hrun, ?_, List.nodup_nil, ?_⟩
    · rw [hroot]
      show queryLoop q _ _ false ((2 * tr.core.nodes.size + 1) + 1) [INDEX_NONE] [] = _
      simp [queryLoop]
    · intro i; simp [hnil]
  | some t =>
    obtain ⟨res, hq, hnd, hres⟩ := C05.query_exact tr.core t hwf q
    refine ⟨tr, res, hrun, hq, hnd, ?_⟩
    intro i
    rw [hres i]
    constructor
    · rintro ⟨b, hb, ho⟩; exact ⟨b, hleaves.subset hb, ho⟩
    · rintro ⟨b, hb, ho⟩; exact ⟨b, hleaves.symm.subset hb, ho⟩

/-- **C05 for the code as it is.**  The *unrepaired* order function (`insertOrderAsIs`: mode
`sort` argsorts a wrongly sliced batch and forgets the row offset — known finding) computes
the same insert order as the repaired one whenever mode `sort` is only used while the tree is
still empty (`sortOnlyOnEmpty`; modes `none`/`shuffle` are unrestricted).  For all such
histories the conclusions of `history_wf` hold for the code as it is. -/
theorem history_wf_asIs (h : List Batch) (hok : ∀ b ∈ h, b.Ok) (hs : sortOnlyOnEmpty 0 h) :
    ∃ tr ot, runHistoryAsIs Tree.empty h = .ok tr ∧ TInv tr ot ∧ wfCheck tr.core = some ot ∧
      (oleaves ot).Perm (histLeaves 0 h) ∧
      (∀ x ∈ histData 0 h, tr.ext[x.1]? = some x.2) := by
  rw [runHistoryAsIs_eq h Tree.empty none TInv.empty hok hs]
  exact history_wf h hok

/-- non-vacuity: the first three calls of `exHist` (the fourth one sorts on a non-empty tree,
which is exactly the situation excluded here) -/
example : sortOnlyOnEmpty 0 (exHist.take 3) ∧ ∀ b ∈ exHist.take 3, b.Ok := by
  refine ⟨?_, fun b hb => exHist_ok b (List.mem_of_mem_take hb)⟩
  simp [sortOnlyOnEmpty, exHist]

/-- non-vacuity of the end-to-end statement on the concrete history -/
example (q : Box ℝ) : ∃ tr res, runHistory Tree.empty exHist = .ok tr ∧
    queryOverlap q tr.core.root tr.core.nodes tr.core.aabbs = .ok res ∧ res.Nodup :=
  let ⟨tr, res, h1, h2, h3, _⟩ := history_query_exact exHist exHist_ok q
  ⟨tr, res, h1, h2, h3⟩

end C05Insert
end D3
