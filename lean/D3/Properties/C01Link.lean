/-
C01 ⟵ C18 — the C01 theorems instantiated at the model of the REAL simplex solver.

`D3/Properties/C01.lean` proves the GJK theorems for every solver that satisfies the contract
`SolverSpecOn good solve` on the simplices it is handed.  Here the contract is *proved* for
`GjkJolt.joltSolver` (the line-by-line model of `get_closest_point_to_origin`,
`closest_point_line/triangle/tetrahedron` of `_gjk_jolt.py` that the driver runs) with
`good := JoltGood`, the conjunction of the C18 band exclusions:

* `joltSolver_spec : SolverSpecOn JoltGood joltSolver`, `joltSolver_total` (no failure there);
* the strict-positivity conjunct (`InRelInt`: strictly positive weights on exactly the reported
  feature set) is TRUE for the as-is solver on `JoltGood` — at a Voronoi tie the cascade reports
  the lower-dimensional feature (`solver_relint_holds`, `tie_reports_vertex`), so the contract
  did not have to be weakened;
* `jolt_*`: every C01 theorem with `solve := joltSolver`, `bary := joltBary`; the only remaining
  solver-side hypothesis is `VisitedGood JoltGood …` (every simplex the run hands to the solver
  is outside the C18 bands; step level: `JoltGood` of the one simplex of that call);
* `visitedGood_of_minkDiff`: a way to discharge `VisitedGood` from a property of `A ⊖ B`, and a
  fully discharged instance (two points), so the function-level theorems are not vacuous;
* repair dbe9d34 of `get_barycentric_coordinates_plane` (relative degeneracy test):
  `bary_plane_band_asIs_before_fix_counterexample`, `bary_plane_band_fixed`,
  `bary_plane_tiny_triangle_fixed`.
-/
import D3.Properties.C01
import D3.Proofs.GjkJoltSolver
import D3.Properties.C18

namespace D3
namespace C01
open Gjk GjkJolt

/-- **the model of the real solver satisfies the C01 solver contract on `JoltGood`**: it returns
the minimum-norm point `v` of the hull of the stored prefix, `v_len_sq = |v|²`,
`success ↔ v_len_sq < prev`, `set < 2ⁿ`, strictly positive weights on exactly the points named
by `set`, and `set = 0xf` only with `v = 0`. -/
theorem joltSolver_spec : SolverSpecOn JoltGood (joltSolver (α := ℝ)) := Gjk.joltSolver_spec

/-- on `JoltGood` simplices the real solver returns normally -/
theorem joltSolver_total (Y : A4 V) (n : Nat) (prev : ℝ) (h1 : 1 ≤ n) (h4 : n ≤ 4)
    (hg : JoltGood Y n) : ∃ r, joltSolver Y n prev = .ok r :=
  Gjk.joltSolver_total Y n prev h1 h4 hg

/-- **the strict-positivity conjunct holds for the as-is solver** (decision of the question
whether `InRelInt` fails at Voronoi-region ties: it does not): on every `JoltGood` simplex the
returned point is a combination of exactly the kept points with strictly positive weights. -/
theorem solver_relint_holds (Y : A4 V) (n : Nat) (prev : ℝ) (h1 : 1 ≤ n) (h4 : n ≤ 4)
    (hg : JoltGood Y n) {r : SolveOut ℝ} (hr : joltSolver Y n prev = .ok r) :
    InRelInt (keep r.set 0 (Y.pre n)) r.v :=
  (Gjk.joltSolver_spec.spec Y n prev r h1 h4 hg hr).2.2.2.2.1

/-- **the relativisation to `JoltGood` is necessary**: the as-is solver does NOT satisfy the
unconditional contract `SolverSpec` — on the regular tetrahedron of half-width `1e-6` (every
plane value in the band `[−EPSILON, 0)`, C18 finding F-C18-jolt-abs-eps) it returns a point
that is not the minimum-norm point of the hull. -/
theorem joltSolver_unconditional_asIs_counterexample : ¬ SolverSpec (joltSolver (α := ℝ)) := by
  intro h
  obtain ⟨_, r, hr, hnot⟩ := C18.jolt_tetra_band_asIs_counterexample_real
  have hs := Gjk.joltSolver_tetra _ _ _ _ (0 : ℝ) hr
  have hmin := (h.spec _ 4 0 _ (by norm_num) (by norm_num) hs).2.2.2.1
  rw [Gjk.pre_eq_take, Gjk.isMinNorm_iff] at hmin
  exact hnot hmin

/-- point and feature set returned for a triangle (exact rational arithmetic) -/
def triOut (r : Except Err (Simplex.CP Rat)) : Option (V3 Rat × Nat) :=
  match r with
  | .ok c => some (c.pt, c.set)
  | .error _ => none

/-- **ties are resolved towards the lower-dimensional feature.**  For `a = (0,0,1)`,
`b = (1,0,1)`, `c = (0,1,1)` the origin projects onto the vertex `a`, which lies on the boundary
of the Voronoi regions `A`, `AB`, `AC` and of the face (`d1 = d2 = 0`): the code reports the
vertex (`set = 0b001`), not an edge with a zero weight.  Likewise for a point on the boundary of
an edge region and the face region (`(−1,−1,1), (1,−1,1), (0,1,1)` shifted so that the
projection `(0,−1,1)` is the midpoint of `ab`): the edge (`set = 0b011`) is reported. -/
theorem tie_reports_vertex :
    triOut (Simplex.closestPointTriangle (α := Rat) ⟨0, 0, 1⟩ ⟨1, 0, 1⟩ ⟨0, 1, 1⟩) =
      some (⟨0, 0, 1⟩, 1) ∧
    triOut (Simplex.closestPointTriangle (α := Rat) ⟨-1, 0, 1⟩ ⟨1, 0, 1⟩ ⟨0, 2, 1⟩) =
      some (⟨0, 0, 1⟩, 3) := by
  constructor <;> decide +kernel

/-! ### `JoltGood` is satisfiable (one simplex for each number of points) -/

/-- `TriRegular` for a concrete triangle: all squared edges `≤ L`, `ε·L² < |n|²` -/
macro "tri_regular' " L:term : term =>
  `(Simplex.triRegular_of_bound _ _ _ $L (by norm_num [V3.dot_def]) (by norm_num [V3.dot_def])
      (by norm_num [V3.dot_def])
      (by norm_num [V3.dot_def, Simplex.cross_x, Simplex.cross_y, Simplex.cross_z, Simplex.EPS,
        D3.Gen.utils__EPSILON]))

/-- one point: no condition -/
example (Y : A4 V) : JoltGood Y 1 := joltGood_1 Y

/-- two points: the segment `(1,1,0)–(−1,1,0)` -/
example : JoltGood ⟨⟨1, 1, 0⟩, ⟨-1, 1, 0⟩, ⟨0, 0, 0⟩, ⟨0, 0, 0⟩⟩ 2 := by
  refine joltGood_2 (Or.inl ?_)
  norm_num [V3.dot_def, Simplex.EPS2, D3.Gen.gjk__gjk_jolt__EPSILON_SQR]

/-- three points: the triangle `(1,0,1), (−1,1,1), (−1,−1,1)` -/
example : JoltGood ⟨⟨1, 0, 1⟩, ⟨-1, 1, 1⟩, ⟨-1, -1, 1⟩, ⟨0, 0, 0⟩⟩ 3 :=
  joltGood_3 (Or.inl (tri_regular' 5))

/-- four points: the tetrahedron `(0,0,1), (1,0,1), (0,1,1), (0,0,2)` (origin below face ABC) -/
example : JoltGood ⟨⟨0, 0, 1⟩, ⟨1, 0, 1⟩, ⟨0, 1, 1⟩, ⟨0, 0, 2⟩⟩ 4 := by
  refine joltGood_4 ⟨?_, Or.inl ⟨?_, ?_, ?_⟩⟩
  · norm_num [V3.dot_def, Simplex.MAXF, D3.Gen.utils__MAX_FLOAT]
  · norm_num [V3.dot_def, Simplex.cross_x, Simplex.cross_y, Simplex.cross_z]
  · norm_num [V3.dot_def, Simplex.cross_x, Simplex.cross_y, Simplex.cross_z, Simplex.EPS,
      D3.Gen.utils__EPSILON]
  · exact ⟨tri_regular' 3, tri_regular' 3, tri_regular' 3, tri_regular' 3⟩

/-- … and the exact duplicate a terminating run typically ends with (`w` added a second time) -/
example (w : V) (y2 y3 : V) : JoltGood ⟨w, w, y2, y3⟩ 2 := joltGood_2 (Or.inr rfl)

/-- **`JoltGood` is decided by an executable checker**: `joltGoodB` is scalar-polymorphic like the
model, so a harness can evaluate it at `Rat` on every simplex a recorded run hands to the solver;
at `ℝ` it is equivalent to the hypothesis of the theorems below. -/
theorem joltGoodB_iff (Y : A4 V) (n : Nat) : joltGoodB Y n = true ↔ JoltGood Y n :=
  Gjk.joltGoodB_iff Y n

/-- the checker at `Rat`: the tetrahedron above is good; the tiny regular tetrahedron of the C18
finding F-C18-jolt-abs-eps (`jolt_tetra_band_asIs_counterexample`, every plane value in the
band `[−EPSILON, 0)`) and the sliver of `triangle_sliver_bound` are not -/
example : joltGoodB (α := Rat) ⟨⟨0, 0, 1⟩, ⟨1, 0, 1⟩, ⟨0, 1, 1⟩, ⟨0, 0, 2⟩⟩ 4 = true ∧
    joltGoodB (α := Rat) ⟨⟨1e-6, 1e-6, 1e-6⟩, ⟨1e-6, -1e-6, -1e-6⟩, ⟨-1e-6, 1e-6, -1e-6⟩,
      ⟨-1e-6, -1e-6, 1e-6⟩⟩ 4 = false ∧
    joltGoodB (α := Rat) ⟨⟨-0.5, -3e-9, 0⟩, ⟨0.5, -3e-9, 0⟩, ⟨0, 7e-9, 0⟩, ⟨0, 0, 0⟩⟩ 3 = false ∧
    joltGoodB (α := Rat) ⟨⟨2, 0, 0⟩, ⟨2, 0, 0⟩, ⟨0, 0, 0⟩, ⟨0, 0, 0⟩⟩ 2 = true := by
  refine ⟨?_, ?_, ?_, ?_⟩ <;> decide +kernel

/-! ### the C01 theorems at the real solver -/

/-- the assumptions of the function-level theorems with the real solver plugged in: only the two
sets and their support mappings are left -/
structure JoltSetup (A B : V → Prop) (sA sB : V → V) : Prop where
  convA : ConvexSet A
  convB : ConvexSet B
  supA : ∀ d, d ≠ zeroV → IsSupport A d (sA d)
  supB : ∀ d, d ≠ zeroV → IsSupport B d (sB d)
  fin : V3.normSq (sA e1 - sB (-e1)) < (1 - EPS) * MAXF

theorem JoltSetup.setup {A B : V → Prop} {sA sB : V → V} (S : JoltSetup A B sA sB) :
    Setup A B JoltGood (joltSolver (α := ℝ)) sA sB :=
  ⟨S.convA, S.convB, joltSolver_spec, S.supA, S.supB, S.fin⟩

/-- **(1) `inv`, one iteration, real solver.**  The step-level hypothesis is `JoltGood` of the
one simplex this call hands to the solver. -/
theorem jolt_inv_step {A B : V → Prop} {st : State ℝ} {p q : V} {tolSq maxD : ℝ}
    (htol : 0 ≤ tolSq) (hst : Stored A B st 3) (hrun : Running tolSq st (p - q)) (hp : A p)
    (hq : B q)
    (hgood : ∀ Y1, st.Y.set st.nPoints (p - q) = .ok Y1 → JoltGood Y1 (st.nPoints + 1))
    {out : StepOut ℝ} (h : distanceLoopStep joltSolver p q st tolSq maxD = .ok out)
    (hnc : out.gs ≠ .clipped) : ∃ x v', StepInv A B tolSq st (p - q) out x v' :=
  inv_step joltSolver_spec htol hst hrun hp hq hgood h hnc

/-- **(1) `inv`, every run, real solver** -/
theorem jolt_inv {A B : V → Prop} {sA sB : V → V} (S : JoltSetup A B sA sB)
    {tolerance maxD : ℝ} {y0 : A4 V} {fuel : Nat}
    (hvis : VisitedGood JoltGood joltSolver sA sB (tolerance * tolerance) maxD (gjkInit y0))
    {gs : GjkState} {st' : State ℝ} {it' : Nat}
    (h : gjkLoop joltSolver sA sB (tolerance * tolerance) maxD fuel 0 (gjkInit y0)
      = .ok (gs, st', it')) :
    ∃ stIn out, Stored A B stIn 3 ∧
      Running (tolerance * tolerance) stIn (sA stIn.sd - sB (-stIn.sd)) ∧
      IsSupport A stIn.sd (sA stIn.sd) ∧ IsSupport B (-stIn.sd) (sB (-stIn.sd)) ∧
      (∀ Y1, stIn.Y.set stIn.nPoints (sA stIn.sd - sB (-stIn.sd)) = .ok Y1 →
        JoltGood Y1 (stIn.nPoints + 1)) ∧
      distanceLoopStep joltSolver (sA stIn.sd) (sB (-stIn.sd)) stIn (tolerance * tolerance) maxD
        = .ok out ∧ out.gs = gs ∧ out.st = st' ∧ gs ≠ .unknown :=
  inv S.setup hvis h

/-- **(8) `clipped_only_beyond`, real solver** -/
theorem jolt_clipped_only_beyond {A B : V → Prop} {sA sB : V → V} (S : JoltSetup A B sA sB)
    {tolerance maxD sanity : ℝ} {y0 : A4 V} {fuel : Nat}
    (hvis : VisitedGood JoltGood joltSolver sA sB (tolerance * tolerance) maxD (gjkInit y0))
    {res : Result ℝ}
    (h : gjkDistance joltSolver joltBary sA sB tolerance maxD sanity y0 fuel = .ok res)
    (hc : res.clipped = true) : ∀ a b, A a → B b → maxD < V3.normSq (a - b) :=
  clipped_only_beyond S.setup hvis h hc

/-- **(2) `feasible`, real solver and real barycentric routines** -/
theorem jolt_feasible {A B : V → Prop} {sA sB : V → V} (S : JoltSetup A B sA sB)
    {tolerance maxD sanity : ℝ} (hte : EPS ≤ tolerance) {y0 : A4 V} {fuel : Nat}
    (hvis : VisitedGood JoltGood joltSolver sA sB (tolerance * tolerance) maxD (gjkInit y0))
    {res : Result ℝ}
    (h : gjkDistance joltSolver joltBary sA sB tolerance maxD sanity y0 fuel = .ok res)
    (hnd : NonDeg jnd2 jnd3 jnd4 res.st) (hex : res.exit = .noIntersection) :
    ∃ a b, res.a = some a ∧ res.b = some b ∧ A a ∧ B b ∧ res.dist = V3.norm (a - b) ∧
      tolerance < res.dist :=
  feasible S.setup joltBary_spec hte hvis h hnd hex

/-- **(2)/(6) `exit_intersection`, real solver and real barycentric routines** -/
theorem jolt_exit_intersection {A B : V → Prop} {sA sB : V → V} (S : JoltSetup A B sA sB)
    {tolerance maxD sanity : ℝ} {y0 : A4 V} {fuel : Nat}
    (hvis : VisitedGood JoltGood joltSolver sA sB (tolerance * tolerance) maxD (gjkInit y0))
    {res : Result ℝ}
    (h : gjkDistance joltSolver joltBary sA sB tolerance maxD sanity y0 fuel = .ok res)
    (hnd : NonDeg jnd2 jnd3 jnd4 res.st) (hex : res.exit = .intersection) :
    res.dist = 0 ∧ ∃ a0 b0, A a0 ∧ B b0 ∧
      res.a = some ((0.5 : ℝ) * (a0 + b0)) ∧ res.b = some ((0.5 : ℝ) * (a0 + b0)) ∧
      (a0 = b0 ∨ V3.normSq (a0 - b0) ≤ tolerance * tolerance ∨
        ∃ y, MinkDiff A B y ∧ V3.normSq (a0 - b0) ≤ EPS * V3.normSq y) :=
  exit_intersection S.setup joltBary_spec hvis h hnd hex

/-- **(5) `exit_stall_accuracy`, real solver** -/
theorem jolt_exit_stall_accuracy {A B : V → Prop} {sA sB : V → V} (S : JoltSetup A B sA sB)
    {tolerance maxD sanity : ℝ} {y0 : A4 V} {fuel : Nat}
    (hvis : VisitedGood JoltGood joltSolver sA sB (tolerance * tolerance) maxD (gjkInit y0))
    {res : Result ℝ} {R diam : ℝ} (hdiam0 : 0 ≤ diam)
    (hR : ∀ y, MinkDiff A B y → V3.norm y ≤ R)
    (hdiam : ∀ y y', MinkDiff A B y → MinkDiff A B y' → V3.normSq (y - y') ≤ diam * diam)
    (h : gjkDistance joltSolver joltBary sA sB tolerance maxD sanity y0 fuel = .ok res)
    (hex : res.exit = .noIntersection) :
    ∀ a b, A a → B b →
      res.dist - max (EPS * R) (Real.sqrt EPS * diam) ≤ V3.norm (a - b) :=
  exit_stall_accuracy S.setup hvis hdiam0 hR hdiam h hex

/-- **(7) `separated_positive`, real solver** -/
theorem jolt_separated_positive {A B : V → Prop} {sA sB : V → V} (S : JoltSetup A B sA sB)
    {tolerance maxD sanity : ℝ} {y0 : A4 V} {fuel : Nat}
    (hvis : VisitedGood JoltGood joltSolver sA sB (tolerance * tolerance) maxD (gjkInit y0))
    {res : Result ℝ}
    (hsep : ∀ y, MinkDiff A B y → tolerance * tolerance < V3.normSq y ∧
      ∀ y', MinkDiff A B y' → EPS * V3.normSq y' < V3.normSq y)
    (h : gjkDistance joltSolver joltBary sA sB tolerance maxD sanity y0 fuel = .ok res)
    (hc : res.clipped = false) : res.exit = .noIntersection ∧ 0 < res.dist :=
  separated_positive S.setup hvis hsep h hc

/-- **no failure under the invariant, real solver**: on a `JoltGood` simplex `_distance_loop`
returns normally — no `IndexError`, no `ZeroDivisionError` / `assert False` inside the solver, and
`assert prev_v_len_sq >= v_len_sq` is unreachable (exact arithmetic). -/
theorem jolt_step_no_failure {A B : V → Prop} {st : State ℝ} {p q : V} {tolSq maxD : ℝ}
    (hst : Stored A B st 3) (hrun : Running tolSq st (p - q))
    (hgood : ∀ Y1, st.Y.set st.nPoints (p - q) = .ok Y1 → JoltGood Y1 (st.nPoints + 1)) :
    ∃ out, distanceLoopStep joltSolver p q st tolSq maxD = .ok out :=
  step_no_failure joltSolver_spec joltSolver_total hst hrun hgood

/-- **`terminates`, real solver**: the totality hypothesis of `terminates` is discharged -/
theorem jolt_terminates {A B : V → Prop} {sA sB : V → V} (S : JoltSetup A B sA sB)
    {tolerance maxD : ℝ} (htol : tolerance ≠ 0) (y0 : A4 V)
    (hvis : VisitedGood JoltGood joltSolver sA sB (tolerance * tolerance) maxD (gjkInit y0)) :
    ∃ N, ∀ fuel, N ≤ fuel →
      ∃ res, gjkLoop joltSolver sA sB (tolerance * tolerance) maxD fuel 0 (gjkInit y0) = .ok res :=
  terminates S.setup joltSolver_total htol y0 hvis

/-! ### discharging `VisitedGood`; a fully discharged instance -/

/-- **discharging `VisitedGood JoltGood`** from a property of the two sets: if every simplex of
at most four points of `A ⊖ B` is outside the C18 bands, so is every simplex a run visits. -/
theorem jolt_visitedGood_of_minkDiff {A B : V → Prop} {sA sB : V → V} (S : JoltSetup A B sA sB)
    {tolSq maxD : ℝ} (htol : 0 ≤ tolSq)
    (hall : ∀ (Y : A4 V) (n : Nat), n ≤ 4 → (∀ y ∈ Y.pre n, MinkDiff A B y) → JoltGood Y n)
    (y0 : A4 V) : VisitedGood JoltGood joltSolver sA sB tolSq maxD (gjkInit y0) :=
  visitedGood_of_minkDiff S.convA S.convB joltSolver_spec S.supA S.supB htol hall
    (stored_init A B y0) (Or.inr ⟨isInit_init y0, S.fin⟩) e1_ne_zero

theorem cross_self_zero (u : V) : V3.cross (u - u) (u - u) = (⟨0, 0, 0⟩ : V) := by
  apply V3.ext' <;> simp [Simplex.cross_x, Simplex.cross_y, Simplex.cross_z]

/-- a simplex made of copies of one point `w` (`|w|² < MAX_FLOAT`) is `JoltGood`: every edge
has length zero, every face is exactly collinear, the tetrahedron is exactly flat -/
theorem joltGood_const (w : V) (hw : V3.dot w w < Simplex.MAXF) (Y : A4 V) (n : Nat) (hn : n ≤ 4)
    (h : ∀ y ∈ Y.pre n, y = w) : JoltGood Y n := by
  obtain ⟨y0, y1, y2, y3⟩ := Y
  have hface : Simplex.FaceOK w w w :=
    Or.inr ⟨cross_self_zero w, Or.inr rfl, Or.inr rfl, Or.inr rfl⟩
  interval_cases n
  · exact ⟨fun h => absurd h (by decide), fun h => absurd h (by decide),
      fun h => absurd h (by decide)⟩
  · exact joltGood_1 _
  · have h0 : y0 = w := h y0 (by simp [A4.pre, A4.toList])
    have h1 : y1 = w := h y1 (by simp [A4.pre, A4.toList])
    subst h0; subst h1
    exact joltGood_2 (Or.inr rfl)
  · have h0 : y0 = w := h y0 (by simp [A4.pre, A4.toList])
    have h1 : y1 = w := h y1 (by simp [A4.pre, A4.toList])
    have h2 : y2 = w := h y2 (by simp [A4.pre, A4.toList])
    subst h0; subst h1; subst h2
    exact joltGood_3 hface
  · have h0 : y0 = w := h y0 (by simp [A4.pre, A4.toList])
    have h1 : y1 = w := h y1 (by simp [A4.pre, A4.toList])
    have h2 : y2 = w := h y2 (by simp [A4.pre, A4.toList])
    have h3 : y3 = w := h y3 (by simp [A4.pre, A4.toList])
    subst h0; subst h1; subst h2; subst h3
    refine joltGood_4 ⟨⟨hw, hw⟩, Or.inr (Or.inr ⟨?_, hface, hface, hface, hface⟩)⟩
    have hflat : ∀ u : V, V3.dot (u - u) (V3.cross (u - u) (u - u)) = 0 := by
      intro u; rw [cross_self_zero]; simp [V3.dot_def]
    exact hflat _

theorem MAXF_eq : (Simplex.MAXF : ℝ) = MAXF := rfl

/-- two one-point sets `{pA}`, `{pB}` with their (constant) support mappings -/
theorem two_points_setup (pA pB : V) (hfin : V3.normSq (pA - pB) < (1 - EPS) * MAXF) :
    JoltSetup (fun x : V => x = pA) (fun x : V => x = pB) (fun _ => pA) (fun _ => pB) where
  convA := by
    intro x y hx hy t _ _; rw [hx, hy]; apply V3.ext' <;> simp <;> ring
  convB := by
    intro x y hx hy t _ _; rw [hx, hy]; apply V3.ext' <;> simp <;> ring
  supA := fun d _ => ⟨rfl, fun x hx => by rw [hx]⟩
  supB := fun d _ => ⟨rfl, fun x hx => by rw [hx]⟩
  fin := hfin

/-- **a fully discharged instance**: for two points every hypothesis of the function-level
theorems about the real solver holds — every simplex the run visits consists of copies of
`pA − pB` (the last iteration hands the solver the exact duplicate `[w, w]`) -/
theorem two_points_visitedGood (pA pB : V) (hfin : V3.normSq (pA - pB) < (1 - EPS) * MAXF)
    {tolSq maxD : ℝ} (htol : 0 ≤ tolSq) (y0 : A4 V) :
    VisitedGood JoltGood joltSolver (fun _ => pA) (fun _ => pB) tolSq maxD (gjkInit y0) := by
  refine jolt_visitedGood_of_minkDiff (two_points_setup pA pB hfin) htol ?_ y0
  intro Y n hn hY
  refine joltGood_const (pA - pB) ?_ Y n hn ?_
  · have h1 : (1 - EPS) * MAXF ≤ (MAXF : ℝ) := by
      have := EPS_pos; have := MAXF_pos; nlinarith
    rw [MAXF_eq]
    exact lt_of_lt_of_le hfin h1
  · intro y hy
    obtain ⟨a, b, ha, hb, he⟩ := hY y hy
    rw [he, ha, hb]

/-- non-vacuity of the function-level theorems at the real solver: for `{(2,0,0)}`, `{0}` the
`while True` loop with `joltSolver` terminates (`jolt_terminates`, all hypotheses discharged)
and a non-clipped answer is `NoIntersection` with `d > 0` (`jolt_separated_positive`). -/
example (y0 : A4 V) (maxD : ℝ) :
    ∃ N, ∀ fuel, N ≤ fuel → ∃ res, gjkLoop joltSolver (fun _ => (⟨2, 0, 0⟩ : V))
      (fun _ => (⟨0, 0, 0⟩ : V)) ((1e-10 : ℝ) * 1e-10) maxD fuel 0 (gjkInit y0) = .ok res := by
  have hfin : V3.normSq ((⟨2, 0, 0⟩ : V) - ⟨0, 0, 0⟩) < (1 - EPS) * MAXF := by
    simp only [V3.normSq_def, V3.sub_x, V3.sub_y, V3.sub_z, EPS, MAXF, D3.Gen.utils__EPSILON,
      D3.Gen.utils__MAX_FLOAT]
    norm_num
  exact jolt_terminates (two_points_setup _ _ hfin) (by norm_num) y0
    (two_points_visitedGood _ _ hfin (by norm_num) y0)

/-! ### repair dbe9d34: `get_barycentric_coordinates_plane`, relative degeneracy test

Witness: the well-shaped triangle `5e-5·[(1,0,1), (−1,1,1), (−1,−1,1)]` (edges `≈ 1.1e-4`, the
size of a final GJK simplex near contact with a curved shape).  The projection of the origin,
`(0,0,5e-5) = ½a + ¼b + ¼c`, is inside the triangle.  The Gram determinant the routine uses is
`1e-16` (4·area², dimension length⁴). -/

/-- weights and branch returned by a barycentric routine (exact rational arithmetic) -/
def baryOut (r : Except Err (Rat × Rat × Rat × Nat)) : Option (Rat × Rat × Rat × Nat) :=
  match r with
  | .ok c => some c
  | .error _ => none

/-- **before repair dbe9d34** the absolute test `abs(denominator) < EPSILON` (`1e-16 < 2.2e-16`)
declared this triangle degenerate and returned the weights `(0.6, 0, 0.4)` of the closest point
of the edge `ac` (branch 4): the point `0.6a + 0.4c = (1e-5, −2e-5, 5e-5)` has squared norm
`3e-9`, more than the `2.5e-9` of the point `(0,0,5e-5)` of the triangle — the reported
"closest points" of A and B were then off by the same amount (finding of the C01 oracle:
common point `1.2e-5·L` outside an ellipsoid touching a mesh vertex). -/
theorem bary_plane_band_asIs_before_fix_counterexample :
    baryOut (Simplex.baryPlane_asIs_before_fix (α := Rat) ⟨5e-5, 0, 5e-5⟩ ⟨-5e-5, 5e-5, 5e-5⟩
      ⟨-5e-5, -5e-5, 5e-5⟩) = some (0.6, 0, 0.4, 4) ∧
    ((0.6 : Rat) * 5e-5 + 0.4 * (-5e-5) = 1e-5 ∧ (0.6 : Rat) * 0 + 0.4 * (-5e-5) = -2e-5 ∧
      (0.6 : Rat) * 5e-5 + 0.4 * 5e-5 = 5e-5) ∧
    ((0.5 : Rat) * 5e-5 + 0.25 * (-5e-5) + 0.25 * (-5e-5) = 0 ∧
      (0.5 : Rat) * 0 + 0.25 * 5e-5 + 0.25 * (-5e-5) = 0) ∧
    (5e-5 : Rat) * 5e-5 < 1e-5 * 1e-5 + (-2e-5) * (-2e-5) + 5e-5 * 5e-5 := by
  refine ⟨?_, ⟨?_, ?_, ?_⟩, ⟨?_, ?_⟩, ?_⟩ <;> decide +kernel

/-- **after the repair** the test is relative (`1e-16 > EPSILON · (1.25e-8)² = 3.5e-32`): the
regular branch (3) is taken and the weights `(½, ¼, ¼)` of the projection are returned. -/
theorem bary_plane_band_fixed :
    baryOut (Simplex.baryPlane (α := Rat) ⟨5e-5, 0, 5e-5⟩ ⟨-5e-5, 5e-5, 5e-5⟩
      ⟨-5e-5, -5e-5, 5e-5⟩) = some (0.5, 0.25, 0.25, 3) := by
  decide +kernel

/-- at `ℝ`: the tiny triangle is outside the repaired band `jnd3` (so `joltBary_plane_spec`,
`jolt_feasible`, `jolt_exit_intersection` apply to it), while it was inside the old absolute
band `|den| < EPSILON` -/
theorem tiny_triangle_jnd3 :
    jnd3 (⟨5e-5, 0, 5e-5⟩ : V) ⟨-5e-5, 5e-5, 5e-5⟩ ⟨-5e-5, -5e-5, 5e-5⟩ ∧
    absS (V3.dot ((⟨-5e-5, -5e-5, 5e-5⟩ : V) - ⟨5e-5, 0, 5e-5⟩)
          ((⟨-5e-5, -5e-5, 5e-5⟩ : V) - ⟨5e-5, 0, 5e-5⟩) *
        V3.dot ((⟨-5e-5, -5e-5, 5e-5⟩ : V) - ⟨-5e-5, 5e-5, 5e-5⟩)
          ((⟨-5e-5, -5e-5, 5e-5⟩ : V) - ⟨-5e-5, 5e-5, 5e-5⟩) -
        V3.dot ((⟨-5e-5, -5e-5, 5e-5⟩ : V) - ⟨5e-5, 0, 5e-5⟩)
          ((⟨-5e-5, -5e-5, 5e-5⟩ : V) - ⟨-5e-5, 5e-5, 5e-5⟩) *
        V3.dot ((⟨-5e-5, -5e-5, 5e-5⟩ : V) - ⟨5e-5, 0, 5e-5⟩)
          ((⟨-5e-5, -5e-5, 5e-5⟩ : V) - ⟨-5e-5, 5e-5, 5e-5⟩)) < (Simplex.EPS : ℝ) := by
  constructor
  · simp only [jnd3, absS, Simplex.maxEdgeLenSq, Simplex.EPS, D3.Gen.utils__EPSILON, V3.dot_def,
      V3.sub_x, V3.sub_y, V3.sub_z]
    norm_num
  · simp only [absS, Simplex.EPS, D3.Gen.utils__EPSILON, V3.dot_def, V3.sub_x, V3.sub_y, V3.sub_z]
    norm_num

/-- `(0,0,5e-5)` is the closest point of the tiny triangle, with weights `(½, ¼, ¼)` -/
theorem tiny_triangle_closest :
    Closest [(⟨5e-5, 0, 5e-5⟩ : V), ⟨-5e-5, 5e-5, 5e-5⟩, ⟨-5e-5, -5e-5, 5e-5⟩]
      (⟨0, 0, 5e-5⟩ : V) := by
  have hx : (⟨0, 0, 5e-5⟩ : V) = lincomb [0.5, 0.25, 0.25]
      [(⟨5e-5, 0, 5e-5⟩ : V), ⟨-5e-5, 5e-5, 5e-5⟩, ⟨-5e-5, -5e-5, 5e-5⟩] := by
    apply V3.ext' <;> simp [lincomb] <;> norm_num
  have hrel : InRelInt [(⟨5e-5, 0, 5e-5⟩ : V), ⟨-5e-5, 5e-5, 5e-5⟩, ⟨-5e-5, -5e-5, 5e-5⟩]
      (⟨0, 0, 5e-5⟩ : V) := by
    refine ⟨[0.5, 0.25, 0.25], rfl, ?_, by norm_num, hx⟩
    intro w hw
    simp only [List.mem_cons, List.not_mem_nil, or_false] at hw
    rcases hw with rfl | rfl | rfl <;> norm_num
  refine ⟨?_, hrel⟩
  rw [Gjk.isMinNorm_iff]
  refine Simplex.isMinNorm_hull_of_vertices ((Gjk.inHull_iff _ _).mp hrel.inHull) ?_
  intro p hp
  simp only [List.mem_cons, List.not_mem_nil, or_false] at hp
  rcases hp with rfl | rfl | rfl <;> norm_num [V3.dot_def]

/-- **the repaired routine returns the closest point of the tiny triangle** (real arithmetic):
whatever weights `get_barycentric_coordinates_plane` returns on it, they are non-negative, sum to
one and reproduce `(0,0,5e-5)` -/
theorem bary_plane_tiny_triangle_fixed (u v w : ℝ)
    (h : (joltBary (α := ℝ)).plane ⟨5e-5, 0, 5e-5⟩ ⟨-5e-5, 5e-5, 5e-5⟩ ⟨-5e-5, -5e-5, 5e-5⟩
      = .ok (u, v, w)) :
    0 ≤ u ∧ 0 ≤ v ∧ 0 ≤ w ∧ u + v + w = 1 ∧
      u * (⟨5e-5, 0, 5e-5⟩ : V) + v * (⟨-5e-5, 5e-5, 5e-5⟩ : V) + w * (⟨-5e-5, -5e-5, 5e-5⟩ : V)
        = ⟨0, 0, 5e-5⟩ :=
  joltBary_plane_spec _ _ _ u v w _ tiny_triangle_jnd3.1 h tiny_triangle_closest

end C01
end D3
