/-
C12 ↔ C11 / C10 — cross-property LINK theorems: the closed-form functions of `distance3d.distance`
inherit C12 (invariance under a common rigid motion, swap symmetry, homogeneity under uniform scaling)
for their **distance output** from their own optimality theorems.

`D3/Properties/C12.lean` proves the schema `C12.scalar_inherits`: a function whose value is the attained
minimum distance `IsDist K₁ K₂ d` of the scene's two point sets takes the same value on a rigidly moved
or swapped scene and `s·d` on the scaled scene.  `D3/Properties/C11.lean` and `D3/Properties/C10.lean`
prove, per modelled function, "returned points feasible, `d ≥ 0`, `d² = |p₁ − p₂|²`, no competing pair
closer" — which is `IsDist` (bridge lemmas `isDist_of_c11`, `isDist_of_lowerBound` of
`D3/Proofs/PoseAlgLink.lean`).  This file instantiates the schema with those functions: each theorem
is about the **output of the model function** on the original and on the transformed arguments, the
well-formedness hypotheses are only asked of the original scene (they are derived for the moved /
scaled scene), and the point sets move as shown by the transport lemmas `…Set_rigid`, `…Set_scale`.

Conventions.  A rigid motion `g` (orthonormal `g.R`, proper or not) moves points by `g.apply`, rotates
directions / normals / axes by `g.R.mulVec`, and left-multiplies poses (`compose g A`).  Scaling by
`s > 0` multiplies points, lengths, radii and sizes, keeps unit directions and rotation blocks
(`scalePose s A = ⟨A.R, s·A.t⟩`).
-/
import D3.Proofs.PoseAlgLink
import D3.Properties.C12
import D3.Properties.C11
import D3.Properties.C10
import D3.Properties.C10Link

namespace D3
namespace C12Link
open PoseAlg

/-! ## the schema at the scene type "two point sets and a number" -/

/-- a scene: two point sets and the number a function returned for them -/
abbrev Scene := (V → Prop) × (V → Prop) × ℝ

/-- **`C12.scalar_inherits` instantiated**: scenes are (set, set, returned number), well-formed when the
number is the attained minimum distance of the two sets (what the C11 / C10 theorems establish for the
modelled functions). -/
theorem schema :
    (∀ (σ σ' : Scene) (g : Pose ℝ), IsDist σ.1 σ.2.1 σ.2.2 → IsDist σ'.1 σ'.2.1 σ'.2.2 →
      Orthonormal g.R → σ'.1 = poseImage g σ.1 → σ'.2.1 = poseImage g σ.2.1 → σ'.2.2 = σ.2.2) ∧
    (∀ (σ σ' : Scene), IsDist σ.1 σ.2.1 σ.2.2 → IsDist σ'.1 σ'.2.1 σ'.2.2 →
      σ'.1 = σ.2.1 → σ'.2.1 = σ.1 → σ'.2.2 = σ.2.2) ∧
    (∀ (σ σ' : Scene) (s : ℝ), IsDist σ.1 σ.2.1 σ.2.2 → IsDist σ'.1 σ'.2.1 σ'.2.2 → 0 < s →
      σ'.1 = scaleSet s σ.1 → σ'.2.1 = scaleSet s σ.2.1 → σ'.2.2 = s * σ.2.2) :=
  C12.scalar_inherits (Scene := Scene) (fun σ => IsDist σ.1 σ.2.1 σ.2.2) (fun σ => σ.1)
    (fun σ => σ.2.1) (fun σ => σ.2.2) (fun _ h => h)

example : V3.norm (pose345.apply ⟨1, 2, 3⟩ - pose345.apply ⟨0, 0, 7⟩) =
    V3.norm ((⟨1, 2, 3⟩ : V) - ⟨0, 0, 7⟩) :=
  schema.1 ((· = ⟨1, 2, 3⟩), (· = ⟨0, 0, 7⟩), _) ((· = _), (· = _), _) pose345
    (C12.isDist_singletons _ _) (C12.isDist_singletons _ _) rot345_orth
    (poseImage_point _ _).symm (poseImage_point _ _).symm

/-- point-to-primitive form, rigid motion: if the call on the moved arguments returns the distance of the
moved point to the moved set, it returns the same number -/
theorem pt_rigid {ε : Type} {g : Pose ℝ} (hg : Orthonormal g.R) {K K' : V → Prop} {p : V} {d : ℝ}
    {f' : Except ε (DistPoly.PtRes ℝ)} (e : K' = poseImage g K) (h : IsDist (· = p) K d)
    (h' : ∃ r', f' = .ok r' ∧ IsDist (· = g.apply p) K' r'.dist) :
    ∃ r', f' = .ok r' ∧ r'.dist = d := by
  obtain ⟨r', hr', hd'⟩ := h'
  exact ⟨r', hr', schema.1 (_, K, d) (_, K', r'.dist) g h hd' hg (poseImage_point g p).symm e⟩

example : ∃ r', (Except.ok ⟨0, V3.norm (pose345.apply ⟨1, 2, 3⟩ - pose345.apply ⟨0, 0, 7⟩),
      pose345.apply ⟨0, 0, 7⟩⟩ : Except Unit (DistPoly.PtRes ℝ)) = .ok r' ∧
    r'.dist = V3.norm ((⟨1, 2, 3⟩ : V) - ⟨0, 0, 7⟩) :=
  pt_rigid rot345_orth (poseImage_point pose345 ⟨0, 0, 7⟩).symm (C12.isDist_singletons _ _)
    ⟨_, rfl, C12.isDist_singletons _ _⟩

/-- point-to-primitive form, scaling -/
theorem pt_scale {ε : Type} {s : ℝ} (hs : 0 < s) {K K' : V → Prop} {p : V} {d : ℝ}
    {f' : Except ε (DistPoly.PtRes ℝ)} (e : K' = scaleSet s K) (h : IsDist (· = p) K d)
    (h' : ∃ r', f' = .ok r' ∧ IsDist (· = s * p) K' r'.dist) :
    ∃ r', f' = .ok r' ∧ r'.dist = s * d := by
  obtain ⟨r', hr', hd'⟩ := h'
  exact ⟨r', hr', schema.2.2 (_, K, d) (_, K', r'.dist) s h hd' hs (scaleSet_point s p).symm e⟩

example : ∃ r', (Except.ok ⟨0, V3.norm ((2 : ℝ) * (⟨1, 2, 3⟩ : V) - (2 : ℝ) * (⟨0, 0, 7⟩ : V)),
      (2 : ℝ) * (⟨0, 0, 7⟩ : V)⟩ : Except Unit (DistPoly.PtRes ℝ)) = .ok r' ∧
    r'.dist = 2 * V3.norm ((⟨1, 2, 3⟩ : V) - ⟨0, 0, 7⟩) :=
  pt_scale (by norm_num) (scaleSet_point 2 ⟨0, 0, 7⟩).symm (C12.isDist_singletons _ _)
    ⟨_, rfl, C12.isDist_singletons _ _⟩

/-! ## C11 family -/

/-- **`point_to_triangle` inherits C12.** For a triangle of non-zero area and any query point the
function succeeds, its distance is the attained minimum distance between the point and the triangle
(C11 in `IsDist` form), and: for every rigid motion `g` the call on `g p, g a, g b, g c` succeeds with
the **same** distance; for every `s > 0` the call on `s p, s a, s b, s c` succeeds with `s` times the
distance.  (Swap: not applicable, the arguments have different types.) -/
theorem point_to_triangle_inherits (p a b c : V) (h : 0 < V3.normSq (V3.cross (b - a) (c - a))) :
    ∃ r, DistPoly.pointToTriangle p a b c = .ok r ∧
      IsDist (· = p) (DistPoly.triangleSet a b c) r.dist ∧
      (∀ g : Pose ℝ, Orthonormal g.R → ∃ r',
        DistPoly.pointToTriangle (g.apply p) (g.apply a) (g.apply b) (g.apply c) = .ok r' ∧
          r'.dist = r.dist) ∧
      (∀ s : ℝ, 0 < s → ∃ r',
        DistPoly.pointToTriangle (s * p) (s * a) (s * b) (s * c) = .ok r' ∧ r'.dist = s * r.dist) := by
  have key : ∀ p a b c : V, 0 < V3.normSq (V3.cross (b - a) (c - a)) →
      ∃ r, DistPoly.pointToTriangle p a b c = .ok r ∧
        IsDist (· = p) (DistPoly.triangleSet a b c) r.dist := fun p a b c h =>
    isDist_of_c11₃ (C11.point_to_triangle_opt p a b c h) (C11.point_to_triangle_mem p a b c h)
      (C11.point_to_triangle_dist p a b c h)
  obtain ⟨r, hr, hd⟩ := key p a b c h
  refine ⟨r, hr, hd, fun g hg => ?_, fun s hs => ?_⟩
  · exact pt_rigid hg (triangleSet_rigid g a b c) hd
      (key _ _ _ _ (by rw [triangleArea_rigid hg]; exact h))
  · refine pt_scale hs (triangleSet_scale s a b c) hd (key _ _ _ _ ?_)
    rw [triangleArea_scale]
    exact mul_pos (mul_pos (mul_pos hs hs) (mul_pos hs hs)) h

example : ∃ r r', DistPoly.pointToTriangle (⟨1, 2, 3⟩ : V) ⟨0, 0, 0⟩ ⟨1, 0, 0⟩ ⟨0, 1, 0⟩ = .ok r ∧
    DistPoly.pointToTriangle (pose345.apply ⟨1, 2, 3⟩) (pose345.apply ⟨0, 0, 0⟩)
      (pose345.apply ⟨1, 0, 0⟩) (pose345.apply ⟨0, 1, 0⟩) = .ok r' ∧ r'.dist = r.dist := by
  obtain ⟨r, hr, _, hrig, _⟩ := point_to_triangle_inherits (⟨1, 2, 3⟩ : V) ⟨0, 0, 0⟩ ⟨1, 0, 0⟩ ⟨0, 1, 0⟩
    (by norm_num [V3.normSq_def, V3.cross])
  obtain ⟨r', hr', e⟩ := hrig pose345 rot345_orth
  exact ⟨r, r', hr, hr', e⟩

/-- **`point_to_rectangle` inherits C12.** Unit orthogonal axes, non-negative side lengths: the distance
is the attained minimum distance to the rectangle; moving point and centre by `g` and rotating the axes
leaves it unchanged; scaling point, centre and side lengths by `s > 0` (unit axes kept) scales it by `s`. -/
theorem point_to_rectangle_inherits (p c ax0 ax1 : V) (l0 l1 : ℝ)
    (h00 : V3.dot ax0 ax0 = 1) (h11 : V3.dot ax1 ax1 = 1) (h01 : V3.dot ax0 ax1 = 0)
    (hl0 : 0 ≤ l0) (hl1 : 0 ≤ l1) :
    ∃ r, DistPoly.pointToRectangle p c ax0 ax1 l0 l1 = .ok r ∧
      IsDist (· = p) (DistPoly.rectSet c ax0 ax1 l0 l1) r.dist ∧
      (∀ g : Pose ℝ, Orthonormal g.R → ∃ r',
        DistPoly.pointToRectangle (g.apply p) (g.apply c) (g.R.mulVec ax0) (g.R.mulVec ax1) l0 l1
          = .ok r' ∧ r'.dist = r.dist) ∧
      (∀ s : ℝ, 0 < s → ∃ r',
        DistPoly.pointToRectangle (s * p) (s * c) ax0 ax1 (s * l0) (s * l1) = .ok r' ∧
          r'.dist = s * r.dist) := by
  have key : ∀ (p c ax0 ax1 : V) (l0 l1 : ℝ), V3.dot ax0 ax0 = 1 → V3.dot ax1 ax1 = 1 →
      V3.dot ax0 ax1 = 0 → 0 ≤ l0 → 0 ≤ l1 →
      ∃ r, DistPoly.pointToRectangle p c ax0 ax1 l0 l1 = .ok r ∧
        IsDist (· = p) (DistPoly.rectSet c ax0 ax1 l0 l1) r.dist :=
    fun p c ax0 ax1 l0 l1 h00 h11 h01 hl0 hl1 =>
      isDist_of_c11 (C11.point_to_rectangle_opt p c ax0 ax1 l0 l1 h00 h11 h01 hl0 hl1)
        (C11.point_to_rectangle_mem_dist p c ax0 ax1 l0 l1 h00 h11 h01 hl0 hl1)
  obtain ⟨r, hr, hd⟩ := key p c ax0 ax1 l0 l1 h00 h11 h01 hl0 hl1
  refine ⟨r, hr, hd, fun g hg => ?_, fun s hs => ?_⟩
  · exact pt_rigid hg (rectSet_rigid g c ax0 ax1 l0 l1) hd
      (key _ _ _ _ _ _ (by rw [hg.dot_mulVec]; exact h00) (by rw [hg.dot_mulVec]; exact h11)
        (by rw [hg.dot_mulVec]; exact h01) hl0 hl1)
  · exact pt_scale hs (rectSet_scale hs c ax0 ax1 l0 l1) hd
      (key _ _ _ _ _ _ h00 h11 h01 (mul_nonneg hs.le hl0) (mul_nonneg hs.le hl1))

example : ∃ r r', DistPoly.pointToRectangle (⟨1, 2, 3⟩ : V) ⟨0, 0, 0⟩ ⟨1, 0, 0⟩ ⟨0, 1, 0⟩ 2 1 = .ok r ∧
    DistPoly.pointToRectangle (pose345.apply ⟨1, 2, 3⟩) (pose345.apply ⟨0, 0, 0⟩)
      (rot345.mulVec ⟨1, 0, 0⟩) (rot345.mulVec ⟨0, 1, 0⟩) 2 1 = .ok r' ∧ r'.dist = r.dist := by
  obtain ⟨r, hr, _, hrig, _⟩ := point_to_rectangle_inherits (⟨1, 2, 3⟩ : V) ⟨0, 0, 0⟩ ⟨1, 0, 0⟩ ⟨0, 1, 0⟩
    2 1 (by norm_num [V3.dot_def]) (by norm_num [V3.dot_def]) (by norm_num [V3.dot_def])
    (by norm_num) (by norm_num)
  obtain ⟨r', hr', e⟩ := hrig pose345 rot345_orth
  exact ⟨r, r', hr, hr', e⟩

/-- **`point_to_box` (the C11 model `DistPoly.pointToBox`) inherits C12.** Orthonormal box pose,
non-negative sizes: the distance is the attained minimum distance to the box; moving the point by `g` and
the pose to `g · box2origin` leaves it unchanged; scaling point, box position and sizes by `s > 0` scales
it by `s`.  (`C12.point_to_box_equivariant` is the direct proof for the kernel model of
`D3.Model.PoseAlg`, including the closest point; this one goes through optimality.) -/
theorem point_to_box_inherits (p : V) (A : Pose ℝ) (size : V) (hR : Orthonormal A.R)
    (hx : 0 ≤ size.x) (hy : 0 ≤ size.y) (hz : 0 ≤ size.z) :
    ∃ r, DistPoly.pointToBox p A size = .ok r ∧ IsDist (· = p) (DistPoly.boxSet A size) r.dist ∧
      (∀ g : Pose ℝ, Orthonormal g.R → ∃ r',
        DistPoly.pointToBox (g.apply p) (compose g A) size = .ok r' ∧ r'.dist = r.dist) ∧
      (∀ s : ℝ, 0 < s → ∃ r',
        DistPoly.pointToBox (s * p) (scalePose s A) (s * size) = .ok r' ∧ r'.dist = s * r.dist) := by
  have key : ∀ (p : V) (A : Pose ℝ) (size : V), Orthonormal A.R → 0 ≤ size.x → 0 ≤ size.y →
      0 ≤ size.z → ∃ r, DistPoly.pointToBox p A size = .ok r ∧
        IsDist (· = p) (DistPoly.boxSet A size) r.dist :=
    fun p A size hR hx hy hz => isDist_of_c11 (C11.point_to_box_opt p A size hR hx hy hz)
      (C11.point_to_box_mem_dist p A size hR hx hy hz)
  obtain ⟨r, hr, hd⟩ := key p A size hR hx hy hz
  refine ⟨r, hr, hd, fun g hg => ?_, fun s hs => ?_⟩
  · exact pt_rigid hg (boxSet_rigid g A size) hd (key _ _ _ (compose_orthonormal hg hR) hx hy hz)
  · exact pt_scale hs (boxSet_scale hs A size) hd
      (key _ (scalePose s A) (s * size) hR (mul_nonneg hs.le hx) (mul_nonneg hs.le hy)
        (mul_nonneg hs.le hz))

example : ∃ r r', DistPoly.pointToBox (⟨5, 2, 3⟩ : V) pose345 ⟨1, 2, 3⟩ = .ok r ∧
    DistPoly.pointToBox (pose345.apply ⟨5, 2, 3⟩) (compose pose345 pose345) ⟨1, 2, 3⟩ = .ok r' ∧
      r'.dist = r.dist := by
  obtain ⟨r, hr, _, hrig, _⟩ := point_to_box_inherits (⟨5, 2, 3⟩ : V) pose345 ⟨1, 2, 3⟩ rot345_orth
    (by norm_num) (by norm_num) (by norm_num)
  obtain ⟨r', hr', e⟩ := hrig pose345 rot345_orth
  exact ⟨r, r', hr, hr', e⟩

/-- **`point_to_disk` inherits C12.** Unit normal, `r ≥ 0`: the distance is the attained minimum distance
to the disk; moving point and centre by `g` and rotating the normal leaves it unchanged; scaling point,
centre and radius by `s > 0` (unit normal kept) scales it by `s`. -/
theorem point_to_disk_inherits (p c : V) (r : ℝ) (n : V) (hn : V3.dot n n = 1) (hr : 0 ≤ r) :
    ∃ res, DistPoly.pointToDisk p c r n = .ok res ∧ IsDist (· = p) (DistPoly.diskSet c r n) res.dist ∧
      (∀ g : Pose ℝ, Orthonormal g.R → ∃ res',
        DistPoly.pointToDisk (g.apply p) (g.apply c) r (g.R.mulVec n) = .ok res' ∧
          res'.dist = res.dist) ∧
      (∀ s : ℝ, 0 < s → ∃ res',
        DistPoly.pointToDisk (s * p) (s * c) (s * r) n = .ok res' ∧ res'.dist = s * res.dist) := by
  have key : ∀ (p c : V) (r : ℝ) (n : V), V3.dot n n = 1 → 0 ≤ r →
      ∃ res, DistPoly.pointToDisk p c r n = .ok res ∧
        IsDist (· = p) (DistPoly.diskSet c r n) res.dist :=
    fun p c r n hn hr => isDist_of_c11 (C11.point_to_disk_opt p c r n hn hr)
      (C11.point_to_disk_mem_dist p c r n hn hr)
  obtain ⟨res, hres, hd⟩ := key p c r n hn hr
  refine ⟨res, hres, hd, fun g hg => ?_, fun s hs => ?_⟩
  · exact pt_rigid hg (diskSet_rigid hg c r n) hd
      (key _ _ _ _ (by rw [hg.dot_mulVec]; exact hn) hr)
  · exact pt_scale hs (diskSet_scale hs c r n) hd (key _ _ _ _ hn (mul_nonneg hs.le hr))

example : ∃ r r', DistPoly.pointToDisk (⟨1, 2, 3⟩ : V) ⟨0, 0, 0⟩ 1 ⟨0, 0, 1⟩ = .ok r ∧
    DistPoly.pointToDisk (pose345.apply ⟨1, 2, 3⟩) (pose345.apply ⟨0, 0, 0⟩) 1
      (rot345.mulVec ⟨0, 0, 1⟩) = .ok r' ∧ r'.dist = r.dist := by
  obtain ⟨r, hr, _, hrig, _⟩ := point_to_disk_inherits (⟨1, 2, 3⟩ : V) ⟨0, 0, 0⟩ 1 ⟨0, 0, 1⟩
    (by norm_num [V3.dot_def]) (by norm_num)
  obtain ⟨r', hr', e⟩ := hrig pose345 rot345_orth
  exact ⟨r, r', hr, hr', e⟩

/-- **`point_to_cylinder` inherits C12.** Orthonormal pose, `r ≥ 0`, `l ≥ 0`: the distance is the
attained minimum distance to the solid cylinder; moving the point by `g` and the pose to
`g · cylinder2origin` leaves it unchanged; scaling point, cylinder position, radius and length by `s > 0`
scales it by `s`. -/
theorem point_to_cylinder_inherits (p : V) (A : Pose ℝ) (r l : ℝ) (hR : Orthonormal A.R)
    (hr : 0 ≤ r) (hl : 0 ≤ l) :
    ∃ res, DistPoly.pointToCylinder p A r l = .ok res ∧
      IsDist (· = p) (DistPoly.cylinderSet A r l) res.dist ∧
      (∀ g : Pose ℝ, Orthonormal g.R → ∃ res',
        DistPoly.pointToCylinder (g.apply p) (compose g A) r l = .ok res' ∧ res'.dist = res.dist) ∧
      (∀ s : ℝ, 0 < s → ∃ res',
        DistPoly.pointToCylinder (s * p) (scalePose s A) (s * r) (s * l) = .ok res' ∧
          res'.dist = s * res.dist) := by
  have key : ∀ (p : V) (A : Pose ℝ) (r l : ℝ), Orthonormal A.R → 0 ≤ r → 0 ≤ l →
      ∃ res, DistPoly.pointToCylinder p A r l = .ok res ∧
        IsDist (· = p) (DistPoly.cylinderSet A r l) res.dist :=
    fun p A r l hR hr hl => isDist_of_c11 (C11.point_to_cylinder_opt p A r l hR hr hl)
      (C11.point_to_cylinder_mem_dist p A r l hR hr hl)
  obtain ⟨res, hres, hd⟩ := key p A r l hR hr hl
  refine ⟨res, hres, hd, fun g hg => ?_, fun s hs => ?_⟩
  · exact pt_rigid hg (cylinderSet_rigid g A r l) hd (key _ _ _ _ (compose_orthonormal hg hR) hr hl)
  · exact pt_scale hs (cylinderSet_scale hs A r l) hd
      (key _ (scalePose s A) _ _ hR (mul_nonneg hs.le hr) (mul_nonneg hs.le hl))

example : ∃ r r', DistPoly.pointToCylinder (⟨5, 2, 3⟩ : V) pose345 1 2 = .ok r ∧
    DistPoly.pointToCylinder ((2 : ℝ) * (⟨5, 2, 3⟩ : V)) (scalePose 2 pose345) (2 * 1) (2 * 2) = .ok r' ∧
      r'.dist = 2 * r.dist := by
  obtain ⟨r, hr, _, _, hsc⟩ := point_to_cylinder_inherits (⟨5, 2, 3⟩ : V) pose345 1 2 rot345_orth
    (by norm_num) (by norm_num)
  obtain ⟨r', hr', e⟩ := hsc 2 (by norm_num)
  exact ⟨r, r', hr, hr', e⟩

/-- **`point_to_circle` (non-convex, code as of /repo 0e4a1a6) inherits C12 where its exact C11 theorem
applies in both scenes.** Unit normal, `r ≥ 0`, query point outside the band `0 < |dip|² < epsilon²` and
normal outside pytransform3d's band `0 < |n.z| < 1e-7` (the hypotheses of `C11.point_to_circle_opt`).
The offset `|dip|²` is invariant under a rigid motion, so the first band hypothesis moves with the scene;
the second one reads the **world** z-component of the normal and is asked of the rotated normal as well.
Under scaling `|dip|²` is compared with the absolute `epsilon²`, so the band hypothesis is asked of the
scaled scene (it follows from the original one for `s ≥ 1` and in the on-axis case). -/
theorem point_to_circle_inherits (p c : V) (r : ℝ) (n : V) (hn : V3.dot n n = 1) (hr : 0 ≤ r)
    (hband : V3.normSq ((p - c) - V3.dot (p - c) n * n) = 0 ∨
      (Gen.distance__circle__point_to_circle__epsilon : ℝ) *
        Gen.distance__circle__point_to_circle__epsilon ≤ V3.normSq ((p - c) - V3.dot (p - c) n * n))
    (hz : n.z = 0 ∨ (DistPoly.pt3dEps : ℝ) ≤ |n.z|) :
    ∃ res, DistPoly.pointToCircle p c r n Gen.distance__circle__point_to_circle__epsilon = .ok res ∧
      IsDist (· = p) (DistPoly.circleSet c r n) res.dist ∧
      (∀ g : Pose ℝ, Orthonormal g.R →
        ((g.R.mulVec n).z = 0 ∨ (DistPoly.pt3dEps : ℝ) ≤ |(g.R.mulVec n).z|) →
        ∃ res', DistPoly.pointToCircle (g.apply p) (g.apply c) r (g.R.mulVec n)
            Gen.distance__circle__point_to_circle__epsilon = .ok res' ∧ res'.dist = res.dist) ∧
      (∀ s : ℝ, 0 < s →
        (V3.normSq ((s * p - s * c) - V3.dot (s * p - s * c) n * n) = 0 ∨
          (Gen.distance__circle__point_to_circle__epsilon : ℝ) *
            Gen.distance__circle__point_to_circle__epsilon ≤
              V3.normSq ((s * p - s * c) - V3.dot (s * p - s * c) n * n)) →
        ∃ res', DistPoly.pointToCircle (s * p) (s * c) (s * r) n
            Gen.distance__circle__point_to_circle__epsilon = .ok res' ∧ res'.dist = s * res.dist) := by
  have key : ∀ (p c : V) (r : ℝ) (n : V), V3.dot n n = 1 → 0 ≤ r →
      (V3.normSq ((p - c) - V3.dot (p - c) n * n) = 0 ∨
        (Gen.distance__circle__point_to_circle__epsilon : ℝ) *
          Gen.distance__circle__point_to_circle__epsilon ≤ V3.normSq ((p - c) - V3.dot (p - c) n * n)) →
      (n.z = 0 ∨ (DistPoly.pt3dEps : ℝ) ≤ |n.z|) →
      ∃ res, DistPoly.pointToCircle p c r n Gen.distance__circle__point_to_circle__epsilon = .ok res ∧
        IsDist (· = p) (DistPoly.circleSet c r n) res.dist :=
    fun p c r n hn hr hband hz => isDist_of_c11 (C11.point_to_circle_opt p c r n hn hr hband hz)
      (C11.point_to_circle_mem_dist p c r n hn hr hband hz)
  obtain ⟨res, hres, hd⟩ := key p c r n hn hr hband hz
  refine ⟨res, hres, hd, fun g hg hz' => ?_, fun s hs hband' => ?_⟩
  · exact pt_rigid hg (circleSet_rigid hg c r n) hd
      (key _ _ _ _ (by rw [hg.dot_mulVec]; exact hn) hr (by rw [reject_rigid hg]; exact hband) hz')
  · exact pt_scale hs (circleSet_scale hs c r n) hd (key _ _ _ _ hn (mul_nonneg hs.le hr) hband' hz)

example : ∃ r r', DistPoly.pointToCircle (⟨2, 0, 1⟩ : V) ⟨0, 0, 0⟩ 1 ⟨0, 0, 1⟩
      Gen.distance__circle__point_to_circle__epsilon = .ok r ∧
    DistPoly.pointToCircle (pose345.apply ⟨2, 0, 1⟩) (pose345.apply ⟨0, 0, 0⟩) 1 (rot345.mulVec ⟨0, 0, 1⟩)
      Gen.distance__circle__point_to_circle__epsilon = .ok r' ∧ r'.dist = r.dist := by
  obtain ⟨r, hr, _, hrig, _⟩ := point_to_circle_inherits (⟨2, 0, 1⟩ : V) ⟨0, 0, 0⟩ 1 ⟨0, 0, 1⟩
    (by norm_num [V3.dot_def]) (by norm_num)
    (Or.inr (by unfold Gen.distance__circle__point_to_circle__epsilon
                norm_num [V3.normSq_def, V3.dot_def]))
    (Or.inr (by rw [DistPoly.pt3dEps_real]; norm_num))
  obtain ⟨r', hr', e⟩ := hrig pose345 rot345_orth
    (Or.inr (by rw [DistPoly.pt3dEps_real]; norm_num [pose345, rot345, M3.mulVec, V3.dot_def]))
  exact ⟨r, r', hr, hr', e⟩

/-! ## C10 family (models of `D3/Model/DistLine.lean`, default epsilons) -/

/-- **`line_to_plane` inherits C12.** Unit normal, outside the band `0 < (ld·n)² < epsilon` (the
hypotheses of `C10.lineToPlane_opt`; both only read the invariant `ld·n`): the function succeeds, its
distance is the attained minimum distance between line and plane, it is unchanged when line point and
plane point are moved by `g` and direction and normal are rotated, and it scales by `s` when the two
points are scaled by `s > 0`. -/
theorem line_to_plane_inherits (lp ld pp n : V) (hu : DistLine.UnitVec n)
    (hband : (Gen.distance__plane__line_to_plane__epsilon : ℝ) ≤ V3.dot ld n * V3.dot ld n ∨
      V3.dot ld n = 0) :
    ∃ r, DistLine.lineToPlane lp ld pp n = .ok r ∧
      IsDist (DistLine.lineSet lp ld) (DistLine.planeSet pp n) r.d ∧
      (∀ g : Pose ℝ, Orthonormal g.R → ∃ r',
        DistLine.lineToPlane (g.apply lp) (g.R.mulVec ld) (g.apply pp) (g.R.mulVec n) = .ok r' ∧
          r'.d = r.d) ∧
      (∀ s : ℝ, 0 < s → ∃ r',
        DistLine.lineToPlane (s * lp) ld (s * pp) n = .ok r' ∧ r'.d = s * r.d) := by
  have key : ∀ lp ld pp n : V, DistLine.UnitVec n →
      ((Gen.distance__plane__line_to_plane__epsilon : ℝ) ≤ V3.dot ld n * V3.dot ld n ∨
        V3.dot ld n = 0) →
      ∃ r, DistLine.lineToPlane lp ld pp n = .ok r ∧
        IsDist (DistLine.lineSet lp ld) (DistLine.planeSet pp n) r.d := by
    intro lp ld pp n hu hband
    obtain ⟨r, hr⟩ := C10.lineToPlane_ok lp ld pp n
    exact ⟨r, hr, isDist_of_lowerBound (C10.lineToPlane_mem₁ hr) (C10.lineToPlane_mem₂ hr hu)
      (C10.lineToPlane_dist hr hu) (C10.lineToPlane_opt hr hu hband)⟩
  obtain ⟨r, hr, hd⟩ := key lp ld pp n hu hband
  refine ⟨r, hr, hd, fun g hg => ?_, fun s hs => ?_⟩
  · obtain ⟨r', hr', hd'⟩ := key (g.apply lp) (g.R.mulVec ld) (g.apply pp) (g.R.mulVec n)
      (unitVec_mulVec hg hu) (by rw [hg.dot_mulVec]; exact hband)
    exact ⟨r', hr', schema.1 (_, _, r.d) (_, _, r'.d) g hd hd' hg (lineSet_rigid g lp ld)
      (planeSet_rigid hg pp n)⟩
  · obtain ⟨r', hr', hd'⟩ := key (s * lp) ld (s * pp) n hu hband
    exact ⟨r', hr', schema.2.2 (_, _, r.d) (_, _, r'.d) s hd hd' hs (lineSet_scale hs lp ld)
      (planeSet_scale hs pp n)⟩

example : ∃ r r', DistLine.lineToPlane (⟨1, 2, 3⟩ : V) ⟨0.6, 0.8, 0⟩ ⟨0, 0, 0⟩ ⟨0, 0, 1⟩ = .ok r ∧
    DistLine.lineToPlane (pose345.apply ⟨1, 2, 3⟩) (rot345.mulVec ⟨0.6, 0.8, 0⟩)
      (pose345.apply ⟨0, 0, 0⟩) (rot345.mulVec ⟨0, 0, 1⟩) = .ok r' ∧ r'.d = r.d := by
  obtain ⟨r, hr, _, hrig, _⟩ := line_to_plane_inherits (⟨1, 2, 3⟩ : V) ⟨0.6, 0.8, 0⟩ ⟨0, 0, 0⟩ ⟨0, 0, 1⟩
    (by unfold DistLine.UnitVec; norm_num [V3.dot_def]) (Or.inr (by norm_num [V3.dot_def]))
  obtain ⟨r', hr', e⟩ := hrig pose345 rot345_orth
  exact ⟨r, r', hr, hr', e⟩

/-- **`line_segment_to_plane` inherits C12.** Unit normal, segment of non-zero length, outside the band
(the hypotheses of `C10.segToPlane_opt`; the band condition on the normalised segment direction is
`epsilon·|s₁−s₀|² ≤ ⟨s₁−s₀, n⟩²` or `⟨s₁−s₀, n⟩ = 0` in terms of the end points, which moves with the
scene): distance = attained minimum distance between segment and plane, invariant under `g`,
homogeneous under `s > 0`. -/
theorem segment_to_plane_inherits (s0 s1 pp n : V) (hu : DistLine.UnitVec n)
    (hL : 0 < V3.normSq (s1 - s0))
    (hband : (Gen.distance__plane__line_segment_to_plane__epsilon : ℝ)
        ≤ V3.dot (DistLine.segmentToLine s0 s1).1 n * V3.dot (DistLine.segmentToLine s0 s1).1 n ∨
      V3.dot (DistLine.segmentToLine s0 s1).1 n = 0) :
    ∃ r, DistLine.segToPlane s0 s1 pp n = .ok r ∧
      IsDist (DistLine.segmentSet s0 s1) (DistLine.planeSet pp n) r.d ∧
      (∀ g : Pose ℝ, Orthonormal g.R → ∃ r',
        DistLine.segToPlane (g.apply s0) (g.apply s1) (g.apply pp) (g.R.mulVec n) = .ok r' ∧
          r'.d = r.d) ∧
      (∀ s : ℝ, 0 < s → ∃ r',
        DistLine.segToPlane (s * s0) (s * s1) (s * pp) n = .ok r' ∧ r'.d = s * r.d) := by
  have key : ∀ s0 s1 pp n : V, DistLine.UnitVec n →
      ((Gen.distance__plane__line_segment_to_plane__epsilon : ℝ)
          ≤ V3.dot (DistLine.segmentToLine s0 s1).1 n * V3.dot (DistLine.segmentToLine s0 s1).1 n ∨
        V3.dot (DistLine.segmentToLine s0 s1).1 n = 0) →
      ∃ r, DistLine.segToPlane s0 s1 pp n = .ok r ∧
        IsDist (DistLine.segmentSet s0 s1) (DistLine.planeSet pp n) r.d := by
    intro s0 s1 pp n hu hband
    obtain ⟨r, hr⟩ := C10.segToPlane_ok s0 s1 pp n
    exact ⟨r, hr, isDist_of_lowerBound (C10.segToPlane_mem₁ hr) (C10.segToPlane_mem₂ hr hu)
      (C10.segToPlane_dist hr hu) (C10.segToPlane_opt hr hu hband)⟩
  obtain ⟨r, hr, hd⟩ := key s0 s1 pp n hu hband
  refine ⟨r, hr, hd, fun g hg => ?_, fun s hs => ?_⟩
  · obtain ⟨r', hr', hd'⟩ := key (g.apply s0) (g.apply s1) (g.apply pp) (g.R.mulVec n)
      (unitVec_mulVec hg hu) (segBand_rigid hg hL hband)
    exact ⟨r', hr', schema.1 (_, _, r.d) (_, _, r'.d) g hd hd' hg (segmentSet_rigid g s0 s1)
      (planeSet_rigid hg pp n)⟩
  · obtain ⟨r', hr', hd'⟩ := key (s * s0) (s * s1) (s * pp) n hu (segBand_scale hs hL hband)
    exact ⟨r', hr', schema.2.2 (_, _, r.d) (_, _, r'.d) s hd hd' hs (segmentSet_scale s s0 s1)
      (planeSet_scale hs pp n)⟩

example : ∃ r r', DistLine.segToPlane (⟨0, 0, 1⟩ : V) ⟨2, 0, 1⟩ ⟨0, 0, 0⟩ ⟨0, 0, 1⟩ = .ok r ∧
    DistLine.segToPlane (pose345.apply ⟨0, 0, 1⟩) (pose345.apply ⟨2, 0, 1⟩) (pose345.apply ⟨0, 0, 0⟩)
      (rot345.mulVec ⟨0, 0, 1⟩) = .ok r' ∧ r'.d = r.d := by
  have hL : 0 < V3.normSq ((⟨2, 0, 1⟩ : V) - ⟨0, 0, 1⟩) := by norm_num [V3.normSq_def]
  obtain ⟨r, hr, _, hrig, _⟩ := segment_to_plane_inherits (⟨0, 0, 1⟩ : V) ⟨2, 0, 1⟩ ⟨0, 0, 0⟩ ⟨0, 0, 1⟩
    (by unfold DistLine.UnitVec; norm_num [V3.dot_def]) hL
    (segBand_of_endpoints hL (Or.inr (by norm_num [V3.dot_def])))
  obtain ⟨r', hr', e⟩ := hrig pose345 rot345_orth
  exact ⟨r, r', hr, hr', e⟩

/-- **`plane_to_plane` inherits C12, including swap symmetry.** Unit normals, outside the band
`0 < |n₁ × n₂| ≤ epsilon` (the hypotheses of `C10.planeToPlane_opt`; `|n₁ × n₂|` is preserved by every
orthonormal map and by exchanging the planes): the distance is the attained minimum distance between the
planes, unchanged under a common rigid motion, unchanged when the two planes are exchanged, and scaled by
`s` when both plane points are scaled by `s > 0`. -/
theorem plane_to_plane_inherits (pp1 n1 pp2 n2 : V) (hu1 : DistLine.UnitVec n1)
    (hu2 : DistLine.UnitVec n2)
    (hband : (Gen.distance__plane__plane_to_plane__epsilon : ℝ) < V3.norm (V3.cross n1 n2) ∨
      V3.cross n1 n2 = ⟨0, 0, 0⟩) :
    IsDist (DistLine.planeSet pp1 n1) (DistLine.planeSet pp2 n2)
        (DistLine.planeToPlane pp1 n1 pp2 n2).d ∧
      (∀ g : Pose ℝ, Orthonormal g.R →
        (DistLine.planeToPlane (g.apply pp1) (g.R.mulVec n1) (g.apply pp2) (g.R.mulVec n2)).d =
          (DistLine.planeToPlane pp1 n1 pp2 n2).d) ∧
      (DistLine.planeToPlane pp2 n2 pp1 n1).d = (DistLine.planeToPlane pp1 n1 pp2 n2).d ∧
      (∀ s : ℝ, 0 < s →
        (DistLine.planeToPlane (s * pp1) n1 (s * pp2) n2).d =
          s * (DistLine.planeToPlane pp1 n1 pp2 n2).d) := by
  have key : ∀ pp1 n1 pp2 n2 : V, DistLine.UnitVec n1 → DistLine.UnitVec n2 →
      ((Gen.distance__plane__plane_to_plane__epsilon : ℝ) < V3.norm (V3.cross n1 n2) ∨
        V3.cross n1 n2 = ⟨0, 0, 0⟩) →
      IsDist (DistLine.planeSet pp1 n1) (DistLine.planeSet pp2 n2)
        (DistLine.planeToPlane pp1 n1 pp2 n2).d :=
    fun pp1 n1 pp2 n2 hu1 hu2 hband =>
      isDist_of_lowerBound (C10.planeToPlane_mem₁ pp1 n1 pp2 n2) (C10.planeToPlane_mem₂ pp1 n1 pp2 n2 hu2)
        (C10.planeToPlane_dist pp1 n1 pp2 n2 hu2) (C10.planeToPlane_opt pp1 n1 pp2 n2 hu1 hu2 hband)
  have hd := key pp1 n1 pp2 n2 hu1 hu2 hband
  refine ⟨hd, fun g hg => ?_, ?_, fun s hs => ?_⟩
  · exact schema.1 (_, _, _) (_, _, _) g hd
      (key (g.apply pp1) (g.R.mulVec n1) (g.apply pp2) (g.R.mulVec n2) (unitVec_mulVec hg hu1)
        (unitVec_mulVec hg hu2) (planeBand_of_normSq (normSq_cross_mulVec hg n1 n2) hband))
      hg (planeSet_rigid hg pp1 n1) (planeSet_rigid hg pp2 n2)
  · exact schema.2.1 (_, _, _) (_, _, _) hd
      (key pp2 n2 pp1 n1 hu2 hu1 (planeBand_of_normSq (normSq_cross_comm n1 n2) hband)) rfl rfl
  · exact schema.2.2 (_, _, _) (_, _, _) s hd (key (s * pp1) n1 (s * pp2) n2 hu1 hu2 hband) hs
      (planeSet_scale hs pp1 n1) (planeSet_scale hs pp2 n2)

example : (DistLine.planeToPlane (pose345.apply ⟨0, 0, 0⟩) (rot345.mulVec ⟨0, 0, 1⟩)
      (pose345.apply ⟨1, 2, 3⟩) (rot345.mulVec ⟨0, 0, -1⟩)).d =
    (DistLine.planeToPlane (⟨0, 0, 0⟩ : V) ⟨0, 0, 1⟩ ⟨1, 2, 3⟩ ⟨0, 0, -1⟩).d :=
  (plane_to_plane_inherits (⟨0, 0, 0⟩ : V) ⟨0, 0, 1⟩ ⟨1, 2, 3⟩ ⟨0, 0, -1⟩
    (by unfold DistLine.UnitVec; norm_num [V3.dot_def])
    (by unfold DistLine.UnitVec; norm_num [V3.dot_def])
    (Or.inr (by apply V3.ext' <;> simp [V3.cross]))).2.1 pose345 rot345_orth

/-- **`plane_to_triangle` inherits C12.** Unit normal, outside the band (`HullNoBand`, the hypothesis of
`C10.planeToTriangle_spec`; it only reads signed heights over the plane and squared edge lengths, hence
moves with the scene — `hullNoBand_rigid`, `hullNoBand_scale`): distance = attained minimum distance
between plane and triangle, invariant under `g`, homogeneous under `s > 0`. -/
theorem plane_to_triangle_inherits (pp n A B C : V) (hu : DistLine.UnitVec n)
    (hband : DistLine.HullNoBand pp n [A, B, C]) :
    ∃ r, DistLine.planeToTriangle pp n A B C = .ok r ∧
      IsDist (DistLine.planeSet pp n) (DistLine.triangleSet A B C) r.d ∧
      (∀ g : Pose ℝ, Orthonormal g.R → ∃ r',
        DistLine.planeToTriangle (g.apply pp) (g.R.mulVec n) (g.apply A) (g.apply B) (g.apply C)
          = .ok r' ∧ r'.d = r.d) ∧
      (∀ s : ℝ, 0 < s → ∃ r',
        DistLine.planeToTriangle (s * pp) n (s * A) (s * B) (s * C) = .ok r' ∧ r'.d = s * r.d) := by
  have key : ∀ pp n A B C : V, DistLine.UnitVec n → DistLine.HullNoBand pp n [A, B, C] →
      ∃ r, DistLine.planeToTriangle pp n A B C = .ok r ∧
        IsDist (DistLine.planeSet pp n) (DistLine.triangleSet A B C) r.d := by
    intro pp n A B C hu hband
    obtain ⟨r, hr⟩ := C10.planeToTriangle_ok pp n A B C
    obtain ⟨h1, h2, h3, h4⟩ := C10.planeToTriangle_spec hr hu hband
    exact ⟨r, hr, isDist_of_lowerBound h1 h2 h3 h4⟩
  obtain ⟨r, hr, hd⟩ := key pp n A B C hu hband
  refine ⟨r, hr, hd, fun g hg => ?_, fun s hs => ?_⟩
  · obtain ⟨r', hr', hd'⟩ := key (g.apply pp) (g.R.mulVec n) (g.apply A) (g.apply B) (g.apply C)
      (unitVec_mulVec hg hu) (hullNoBand_rigid hg hband)
    exact ⟨r', hr', schema.1 (_, _, r.d) (_, _, r'.d) g hd hd' hg (planeSet_rigid hg pp n)
      (triangleSet_rigid g A B C)⟩
  · obtain ⟨r', hr', hd'⟩ := key (s * pp) n (s * A) (s * B) (s * C) hu (hullNoBand_scale hs hband)
    exact ⟨r', hr', schema.2.2 (_, _, r.d) (_, _, r'.d) s hd hd' hs (planeSet_scale hs pp n)
      (triangleSet_scale s A B C)⟩

example : ∃ r r', DistLine.planeToTriangle (⟨0, 0, 0⟩ : V) ⟨0, 0, 1⟩ ⟨0, 0, 1⟩ ⟨1, 0, 1⟩ ⟨0, 1, 2⟩ = .ok r ∧
    DistLine.planeToTriangle (pose345.apply ⟨0, 0, 0⟩) (rot345.mulVec ⟨0, 0, 1⟩)
      (pose345.apply ⟨0, 0, 1⟩) (pose345.apply ⟨1, 0, 1⟩) (pose345.apply ⟨0, 1, 2⟩) = .ok r' ∧
      r'.d = r.d := by
  have hb : DistLine.HullNoBand (⟨0, 0, 0⟩ : V) ⟨0, 0, 1⟩ [⟨0, 0, 1⟩, ⟨1, 0, 1⟩, ⟨0, 1, 2⟩] := by
    intro p hp q _ hpn _
    exfalso
    simp only [List.mem_cons, List.mem_nil_iff, or_false] at hp
    rcases hp with rfl | rfl | rfl <;> revert hpn <;> norm_num [V3.dot_def]
  obtain ⟨r, hr, _, hrig, _⟩ := plane_to_triangle_inherits (⟨0, 0, 0⟩ : V) ⟨0, 0, 1⟩ ⟨0, 0, 1⟩ ⟨1, 0, 1⟩
    ⟨0, 1, 2⟩ (by unfold DistLine.UnitVec; norm_num [V3.dot_def]) hb
  obtain ⟨r', hr', e⟩ := hrig pose345 rot345_orth
  exact ⟨r, r', hr, hr', e⟩

/-- **`plane_to_rectangle` inherits C12.** Unit normal, positive side lengths, outside the band
(`HullNoBand` on the four vertices, the hypotheses of `C10.planeToRectangle_spec`): distance = attained
minimum distance between plane and rectangle, invariant under `g` (centre moved, axes and normal
rotated), homogeneous under `s > 0` (points and side lengths scaled). -/
theorem plane_to_rectangle_inherits (pp n c ax0 ax1 : V) (l0 l1 : ℝ) (hu : DistLine.UnitVec n)
    (h0 : 0 < l0) (h1 : 0 < l1) (hband : DistLine.HullNoBand pp n (DistLine.rectVertices c ax0 ax1 l0 l1)) :
    ∃ r, DistLine.planeToRectangle pp n c ax0 ax1 l0 l1 = .ok r ∧
      IsDist (DistLine.planeSet pp n) (DistLine.rectSet c ax0 ax1 l0 l1) r.d ∧
      (∀ g : Pose ℝ, Orthonormal g.R → ∃ r',
        DistLine.planeToRectangle (g.apply pp) (g.R.mulVec n) (g.apply c) (g.R.mulVec ax0)
          (g.R.mulVec ax1) l0 l1 = .ok r' ∧ r'.d = r.d) ∧
      (∀ s : ℝ, 0 < s → ∃ r',
        DistLine.planeToRectangle (s * pp) n (s * c) ax0 ax1 (s * l0) (s * l1) = .ok r' ∧
          r'.d = s * r.d) := by
  have key : ∀ (pp n c ax0 ax1 : V) (l0 l1 : ℝ), DistLine.UnitVec n → 0 < l0 → 0 < l1 →
      DistLine.HullNoBand pp n (DistLine.rectVertices c ax0 ax1 l0 l1) →
      ∃ r, DistLine.planeToRectangle pp n c ax0 ax1 l0 l1 = .ok r ∧
        IsDist (DistLine.planeSet pp n) (DistLine.rectSet c ax0 ax1 l0 l1) r.d := by
    intro pp n c ax0 ax1 l0 l1 hu h0 h1 hband
    obtain ⟨r, hr⟩ := C10.planeToRectangle_ok pp n c ax0 ax1 l0 l1
    obtain ⟨m1, m2, m3, m4⟩ := C10.planeToRectangle_spec hr hu h0 h1 hband
    exact ⟨r, hr, isDist_of_lowerBound m1 m2 m3 m4⟩
  obtain ⟨r, hr, hd⟩ := key pp n c ax0 ax1 l0 l1 hu h0 h1 hband
  refine ⟨r, hr, hd, fun g hg => ?_, fun s hs => ?_⟩
  · obtain ⟨r', hr', hd'⟩ := key (g.apply pp) (g.R.mulVec n) (g.apply c) (g.R.mulVec ax0)
      (g.R.mulVec ax1) l0 l1 (unitVec_mulVec hg hu) h0 h1
      (by rw [rectVertices_rigid]; exact hullNoBand_rigid hg hband)
    exact ⟨r', hr', schema.1 (_, _, r.d) (_, _, r'.d) g hd hd' hg (planeSet_rigid hg pp n)
      (lrectSet_rigid g c ax0 ax1 l0 l1)⟩
  · obtain ⟨r', hr', hd'⟩ := key (s * pp) n (s * c) ax0 ax1 (s * l0) (s * l1) hu (mul_pos hs h0)
      (mul_pos hs h1) (by rw [rectVertices_scale]; exact hullNoBand_scale hs hband)
    exact ⟨r', hr', schema.2.2 (_, _, r.d) (_, _, r'.d) s hd hd' hs (planeSet_scale hs pp n)
      (lrectSet_scale hs c ax0 ax1 l0 l1)⟩

example : ∃ r r', DistLine.planeToRectangle (⟨0, 0, 0⟩ : V) ⟨0, 0, 1⟩ ⟨0, 0, 3⟩ ⟨1, 0, 0⟩ ⟨0, 0.6, 0.8⟩ 2 1
      = .ok r ∧
    DistLine.planeToRectangle (pose345.apply ⟨0, 0, 0⟩) (rot345.mulVec ⟨0, 0, 1⟩)
      (pose345.apply ⟨0, 0, 3⟩) (rot345.mulVec ⟨1, 0, 0⟩) (rot345.mulVec ⟨0, 0.6, 0.8⟩) 2 1 = .ok r' ∧
      r'.d = r.d := by
  have hb : DistLine.HullNoBand (⟨0, 0, 0⟩ : V) ⟨0, 0, 1⟩
      (DistLine.rectVertices ⟨0, 0, 3⟩ ⟨1, 0, 0⟩ ⟨0, 0.6, 0.8⟩ 2 1) := by
    apply hullNoBand_of_above
    intro p hp
    simp only [DistLine.rectVertices, DistLine.rectCoords, List.map_cons, List.map_nil,
      List.mem_cons, List.mem_nil_iff, or_false] at hp
    rcases hp with rfl | rfl | rfl | rfl <;> norm_num [DistLine.rectVertex, V3.dot_def]
  obtain ⟨r, hr, _, hrig, _⟩ := plane_to_rectangle_inherits (⟨0, 0, 0⟩ : V) ⟨0, 0, 1⟩ ⟨0, 0, 3⟩ ⟨1, 0, 0⟩
    ⟨0, 0.6, 0.8⟩ 2 1 (by unfold DistLine.UnitVec; norm_num [V3.dot_def]) (by norm_num) (by norm_num) hb
  obtain ⟨r', hr', e⟩ := hrig pose345 rot345_orth
  exact ⟨r, r', hr, hr', e⟩

/-- **`plane_to_box` inherits C12.** Unit normal, positive edge lengths, outside the band (`HullNoBand` on
the eight vertices, the hypotheses of `C10.planeToBox_spec`; no orthonormality of the box pose is needed):
distance = attained minimum distance between plane and box, invariant under `g` (pose `g · box2origin`),
homogeneous under `s > 0`. -/
theorem plane_to_box_inherits (pp n : V) (A : Pose ℝ) (size : V) (hu : DistLine.UnitVec n)
    (hx : 0 < size.x) (hy : 0 < size.y) (hz : 0 < size.z)
    (hband : DistLine.HullNoBand pp n (DistLine.boxVertices A size)) :
    ∃ r, DistLine.planeToBox pp n A size = .ok r ∧
      IsDist (DistLine.planeSet pp n) (DistLine.boxSet A size) r.d ∧
      (∀ g : Pose ℝ, Orthonormal g.R → ∃ r',
        DistLine.planeToBox (g.apply pp) (g.R.mulVec n) (compose g A) size = .ok r' ∧ r'.d = r.d) ∧
      (∀ s : ℝ, 0 < s → ∃ r',
        DistLine.planeToBox (s * pp) n (scalePose s A) (s * size) = .ok r' ∧ r'.d = s * r.d) := by
  have key : ∀ (pp n : V) (A : Pose ℝ) (size : V), DistLine.UnitVec n → 0 < size.x → 0 < size.y →
      0 < size.z → DistLine.HullNoBand pp n (DistLine.boxVertices A size) →
      ∃ r, DistLine.planeToBox pp n A size = .ok r ∧
        IsDist (DistLine.planeSet pp n) (DistLine.boxSet A size) r.d := by
    intro pp n A size hu hx hy hz hband
    obtain ⟨r, hr⟩ := C10.planeToBox_ok pp n A size
    obtain ⟨m1, m2, m3, m4⟩ := C10.planeToBox_spec hr hu hx hy hz hband
    exact ⟨r, hr, isDist_of_lowerBound m1 m2 m3 m4⟩
  obtain ⟨r, hr, hd⟩ := key pp n A size hu hx hy hz hband
  refine ⟨r, hr, hd, fun g hg => ?_, fun s hs => ?_⟩
  · obtain ⟨r', hr', hd'⟩ := key (g.apply pp) (g.R.mulVec n) (compose g A) size
      (unitVec_mulVec hg hu) hx hy hz (by rw [boxVertices_rigid]; exact hullNoBand_rigid hg hband)
    exact ⟨r', hr', schema.1 (_, _, r.d) (_, _, r'.d) g hd hd' hg (planeSet_rigid hg pp n)
      (lboxSet_rigid g A size)⟩
  · obtain ⟨r', hr', hd'⟩ := key (s * pp) n (scalePose s A) (s * size) hu (mul_pos hs hx)
      (mul_pos hs hy) (mul_pos hs hz) (by rw [boxVertices_scale]; exact hullNoBand_scale hs hband)
    exact ⟨r', hr', schema.2.2 (_, _, r.d) (_, _, r'.d) s hd hd' hs (planeSet_scale hs pp n)
      (lboxSet_scale hs A size)⟩

example : ∃ r r', DistLine.planeToBox (⟨0, 0, 0⟩ : V) ⟨0, 0, 1⟩ pose345 ⟨1, 2, 3⟩ = .ok r ∧
    DistLine.planeToBox (pose345.apply ⟨0, 0, 0⟩) (rot345.mulVec ⟨0, 0, 1⟩) (compose pose345 pose345)
      ⟨1, 2, 3⟩ = .ok r' ∧ r'.d = r.d := by
  have hb : DistLine.HullNoBand (⟨0, 0, 0⟩ : V) ⟨0, 0, 1⟩ (DistLine.boxVertices pose345 ⟨1, 2, 3⟩) := by
    apply hullNoBand_of_above
    intro p hp
    simp only [DistLine.boxVertices, DistLine.boxCoords, List.map_cons, List.map_nil,
      List.mem_cons, List.mem_nil_iff, or_false] at hp
    rcases hp with rfl | rfl | rfl | rfl | rfl | rfl | rfl | rfl <;>
      norm_num [DistLine.boxVertex, V3.dot_def, pose345, rot345]
  obtain ⟨r, hr, _, hrig, _⟩ := plane_to_box_inherits (⟨0, 0, 0⟩ : V) ⟨0, 0, 1⟩ pose345 ⟨1, 2, 3⟩
    (by unfold DistLine.UnitVec; norm_num [V3.dot_def]) (by norm_num) (by norm_num) (by norm_num) hb
  obtain ⟨r', hr', e⟩ := hrig pose345 rot345_orth
  exact ⟨r, r', hr, hr', e⟩

/-- **`plane_to_ellipsoid` inherits C12** (the whole function: two calls of `support_function_ellipsoid`,
then `_plane_to_convex_hull_points`; model `DistLine.planeToEllipsoid`).  Unit normal, orthonormal pose,
radii in `[lo, hi]` with `0 < lo`, `hi ≤ 1000·lo` (the hypotheses of `C10Link.planeToEllipsoid_spec_orthonormal`,
no band hypothesis; the aspect-ratio bound is invariant under rigid motions and scaling): the distance is the
attained minimum distance between the plane and the solid ellipsoid, unchanged when the plane point is moved
by `g`, the normal rotated and the pose replaced by `g · ellipsoid2origin`, and scaled by `s` when plane
point, ellipsoid position and radii are scaled by `s > 0`. -/
theorem plane_to_ellipsoid_inherits (pp n : V) (A : Pose ℝ) (radii : V) (hu : DistLine.UnitVec n)
    (hA : Orthonormal A.R) {lo hi : ℝ} (hlo : 0 < lo) (hhi : hi ≤ 1000 * lo)
    (hx : lo ≤ radii.x ∧ radii.x ≤ hi) (hy : lo ≤ radii.y ∧ radii.y ≤ hi)
    (hz : lo ≤ radii.z ∧ radii.z ≤ hi) :
    ∃ r, DistLine.planeToEllipsoid pp n A radii = .ok r ∧
      IsDist (DistLine.planeSet pp n) (poseImage A (Support.ellipsoidLocalSet radii)) r.d ∧
      (∀ g : Pose ℝ, Orthonormal g.R → ∃ r',
        DistLine.planeToEllipsoid (g.apply pp) (g.R.mulVec n) (compose g A) radii = .ok r' ∧
          r'.d = r.d) ∧
      (∀ s : ℝ, 0 < s → ∃ r',
        DistLine.planeToEllipsoid (s * pp) n (scalePose s A) (s * radii) = .ok r' ∧
          r'.d = s * r.d) := by
  have key : ∀ (pp n : V) (A : Pose ℝ) (radii : V) (lo hi : ℝ), DistLine.UnitVec n →
      Orthonormal A.R → 0 < lo → hi ≤ 1000 * lo → (lo ≤ radii.x ∧ radii.x ≤ hi) →
      (lo ≤ radii.y ∧ radii.y ≤ hi) → (lo ≤ radii.z ∧ radii.z ≤ hi) →
      ∃ r, DistLine.planeToEllipsoid pp n A radii = .ok r ∧
        IsDist (DistLine.planeSet pp n) (poseImage A (Support.ellipsoidLocalSet radii)) r.d := by
    intro pp n A radii lo hi hu hA hlo hhi hx hy hz
    obtain ⟨r, hr⟩ := C10Link.planeToEllipsoid_ok pp n A radii
    obtain ⟨m1, m2, m3, m4⟩ := C10Link.planeToEllipsoid_spec_orthonormal hr hu hA hlo hhi hx hy hz
    exact ⟨r, hr, isDist_of_lowerBound m1 m2 m3 m4⟩
  obtain ⟨r, hr, hd⟩ := key pp n A radii lo hi hu hA hlo hhi hx hy hz
  refine ⟨r, hr, hd, fun g hg => ?_, fun s hs => ?_⟩
  · obtain ⟨r', hr', hd'⟩ := key (g.apply pp) (g.R.mulVec n) (compose g A) radii lo hi
      (unitVec_mulVec hg hu) (compose_orthonormal hg hA) hlo hhi hx hy hz
    exact ⟨r', hr', schema.1 (_, _, r.d) (_, _, r'.d) g hd hd' hg (planeSet_rigid hg pp n)
      (ellipsoidSet_rigid g A radii)⟩
  · have hb : ∀ t : ℝ, lo ≤ t ∧ t ≤ hi → s * lo ≤ s * t ∧ s * t ≤ s * hi := fun t ht =>
      ⟨mul_le_mul_of_nonneg_left ht.1 hs.le, mul_le_mul_of_nonneg_left ht.2 hs.le⟩
    obtain ⟨r', hr', hd'⟩ := key (s * pp) n (scalePose s A) (s * radii) (s * lo) (s * hi) hu hA
      (mul_pos hs hlo)
      (by have := mul_le_mul_of_nonneg_left hhi hs.le; linarith)
      (hb _ hx) (hb _ hy) (hb _ hz)
    exact ⟨r', hr', schema.2.2 (_, _, r.d) (_, _, r'.d) s hd hd' hs (planeSet_scale hs pp n)
      (ellipsoidSet_scale hs A radii)⟩

example : ∃ r r', DistLine.planeToEllipsoid (⟨1, 2, 3⟩ : V) ⟨0, 3 / 5, 4 / 5⟩ C10Link.exPose ⟨1, 2, 3⟩
      = .ok r ∧
    DistLine.planeToEllipsoid (pose345.apply ⟨1, 2, 3⟩) (rot345.mulVec ⟨0, 3 / 5, 4 / 5⟩)
      (compose pose345 C10Link.exPose) ⟨1, 2, 3⟩ = .ok r' ∧ r'.d = r.d := by
  obtain ⟨r, hr, _, hrig, _⟩ := plane_to_ellipsoid_inherits (⟨1, 2, 3⟩ : V) ⟨0, 3 / 5, 4 / 5⟩
    C10Link.exPose ⟨1, 2, 3⟩ C10Link.exTilt_unit C10Link.exPose_orth (lo := 1) (hi := 3) one_pos
    (by norm_num) (by norm_num) (by norm_num) (by norm_num)
  obtain ⟨r', hr', e⟩ := hrig pose345 rot345_orth
  exact ⟨r, r', hr, hr', e⟩

/-- **`plane_to_cylinder` inherits C12** (the whole function: two calls of `support_function_cylinder`, then
`_plane_to_convex_hull_points`; model `DistLine.planeToCylinder`).  Unit normal, orthonormal pose, `r ≥ 0`,
`l ≥ 0`, diameter and length within a factor 999 of each other (the hypotheses of
`C10Link.planeToCylinder_spec_orthonormal`, no band hypothesis): the distance is the attained minimum
distance between the plane and the solid cylinder, unchanged under a common rigid motion (pose
`g · cylinder2origin`), scaled by `s` when plane point, cylinder position, radius and length are scaled by
`s > 0`. -/
theorem plane_to_cylinder_inherits (pp n : V) (A : Pose ℝ) (r l : ℝ) (hu : DistLine.UnitVec n)
    (hA : Orthonormal A.R) (hr : 0 ≤ r) (hl : 0 ≤ l) (h1 : l ≤ 999 * (2 * r))
    (h2 : 2 * r ≤ 999 * l) :
    ∃ res, DistLine.planeToCylinder pp n A r l = .ok res ∧
      IsDist (DistLine.planeSet pp n) (poseImage A (Support.cylinderLocalSet r l)) res.d ∧
      (∀ g : Pose ℝ, Orthonormal g.R → ∃ res',
        DistLine.planeToCylinder (g.apply pp) (g.R.mulVec n) (compose g A) r l = .ok res' ∧
          res'.d = res.d) ∧
      (∀ s : ℝ, 0 < s → ∃ res',
        DistLine.planeToCylinder (s * pp) n (scalePose s A) (s * r) (s * l) = .ok res' ∧
          res'.d = s * res.d) := by
  have key : ∀ (pp n : V) (A : Pose ℝ) (r l : ℝ), DistLine.UnitVec n → Orthonormal A.R → 0 ≤ r →
      0 ≤ l → l ≤ 999 * (2 * r) → 2 * r ≤ 999 * l →
      ∃ res, DistLine.planeToCylinder pp n A r l = .ok res ∧
        IsDist (DistLine.planeSet pp n) (poseImage A (Support.cylinderLocalSet r l)) res.d := by
    intro pp n A r l hu hA hr hl h1 h2
    obtain ⟨res, hres⟩ := C10Link.planeToCylinder_ok pp n A r l
    obtain ⟨m1, m2, m3, m4⟩ := C10Link.planeToCylinder_spec_orthonormal hres hu hA hr hl h1 h2
    exact ⟨res, hres, isDist_of_lowerBound m1 m2 m3 m4⟩
  obtain ⟨res, hres, hd⟩ := key pp n A r l hu hA hr hl h1 h2
  refine ⟨res, hres, hd, fun g hg => ?_, fun s hs => ?_⟩
  · obtain ⟨res', hres', hd'⟩ := key (g.apply pp) (g.R.mulVec n) (compose g A) r l
      (unitVec_mulVec hg hu) (compose_orthonormal hg hA) hr hl h1 h2
    exact ⟨res', hres', schema.1 (_, _, res.d) (_, _, res'.d) g hd hd' hg (planeSet_rigid hg pp n)
      (scylinderSet_rigid g A r l)⟩
  · obtain ⟨res', hres', hd'⟩ := key (s * pp) n (scalePose s A) (s * r) (s * l) hu hA
      (mul_nonneg hs.le hr) (mul_nonneg hs.le hl)
      (by have := mul_le_mul_of_nonneg_left h1 hs.le; linarith)
      (by have := mul_le_mul_of_nonneg_left h2 hs.le; linarith)
    exact ⟨res', hres', schema.2.2 (_, _, res.d) (_, _, res'.d) s hd hd' hs (planeSet_scale hs pp n)
      (scylinderSet_scale hs A r l)⟩

example : ∃ r r', DistLine.planeToCylinder (⟨1, 2, 3⟩ : V) ⟨0, 3 / 5, 4 / 5⟩ C10Link.exPose 1 2 = .ok r ∧
    DistLine.planeToCylinder ((2 : ℝ) * (⟨1, 2, 3⟩ : V)) ⟨0, 3 / 5, 4 / 5⟩ (scalePose 2 C10Link.exPose)
      (2 * 1) (2 * 2) = .ok r' ∧ r'.d = 2 * r.d := by
  obtain ⟨r, hr, _, _, hsc⟩ := plane_to_cylinder_inherits (⟨1, 2, 3⟩ : V) ⟨0, 3 / 5, 4 / 5⟩
    C10Link.exPose 1 2 C10Link.exTilt_unit C10Link.exPose_orth (by norm_num) (by norm_num)
    (by norm_num) (by norm_num)
  obtain ⟨r', hr', e⟩ := hsc 2 (by norm_num)
  exact ⟨r, r', hr, hr', e⟩

/-- **`line_to_line_segment` inherits C12.** Unit line direction and a segment the code does not treat as
a point (`|s₁ − s₀|² ≥ epsilon`, the hypotheses of `C10.lineToSegment_opt`): distance = attained minimum
distance between line and segment, invariant under `g`; homogeneous under `s > 0` *provided the scaled
segment is not treated as a point either* (the absolute `epsilon` test on the squared length is the only
scale-dependent branch; for `s ≥ 1` the proviso follows). -/
theorem line_to_segment_inherits (lp ld s0 s1 : V) (hu : DistLine.UnitVec ld)
    (hlen : (Gen.distance__line__line_to_line_segment__epsilon : ℝ) ≤ V3.normSq (s1 - s0)) :
    ∃ r, DistLine.lineToSegment lp ld s0 s1 = .ok r ∧
      IsDist (DistLine.lineSet lp ld) (DistLine.segmentSet s0 s1) r.d ∧
      (∀ g : Pose ℝ, Orthonormal g.R → ∃ r',
        DistLine.lineToSegment (g.apply lp) (g.R.mulVec ld) (g.apply s0) (g.apply s1) = .ok r' ∧
          r'.d = r.d) ∧
      (∀ s : ℝ, 0 < s →
        (Gen.distance__line__line_to_line_segment__epsilon : ℝ) ≤ V3.normSq (s * s1 - s * s0) →
        ∃ r', DistLine.lineToSegment (s * lp) ld (s * s0) (s * s1) = .ok r' ∧ r'.d = s * r.d) := by
  have key : ∀ lp ld s0 s1 : V, DistLine.UnitVec ld →
      (Gen.distance__line__line_to_line_segment__epsilon : ℝ) ≤ V3.normSq (s1 - s0) →
      ∃ r, DistLine.lineToSegment lp ld s0 s1 = .ok r ∧
        IsDist (DistLine.lineSet lp ld) (DistLine.segmentSet s0 s1) r.d := by
    intro lp ld s0 s1 hu hlen
    obtain ⟨r, hr⟩ := C10.lineToSegment_ok lp ld s0 s1
    exact ⟨r, hr, isDist_of_lowerBound (C10.lineToSegment_mem₁ hr hu) (C10.lineToSegment_mem₂ hr hu)
      (C10.lineToSegment_dist hr hu) (C10.lineToSegment_opt hr hu hlen)⟩
  obtain ⟨r, hr, hd⟩ := key lp ld s0 s1 hu hlen
  refine ⟨r, hr, hd, fun g hg => ?_, fun s hs hlen' => ?_⟩
  · obtain ⟨r', hr', hd'⟩ := key (g.apply lp) (g.R.mulVec ld) (g.apply s0) (g.apply s1)
      (unitVec_mulVec hg hu) (by rw [normSq_rigid hg]; exact hlen)
    exact ⟨r', hr', schema.1 (_, _, r.d) (_, _, r'.d) g hd hd' hg (lineSet_rigid g lp ld)
      (segmentSet_rigid g s0 s1)⟩
  · obtain ⟨r', hr', hd'⟩ := key (s * lp) ld (s * s0) (s * s1) hu hlen'
    exact ⟨r', hr', schema.2.2 (_, _, r.d) (_, _, r'.d) s hd hd' hs (lineSet_scale hs lp ld)
      (segmentSet_scale s s0 s1)⟩

example : ∃ r r', DistLine.lineToSegment (⟨5, 5, 5⟩ : V) ⟨0, 1, 0⟩ ⟨0, 0, 0⟩ ⟨1, 2, 0.5⟩ = .ok r ∧
    DistLine.lineToSegment (pose345.apply ⟨5, 5, 5⟩) (rot345.mulVec ⟨0, 1, 0⟩) (pose345.apply ⟨0, 0, 0⟩)
      (pose345.apply ⟨1, 2, 0.5⟩) = .ok r' ∧ r'.d = r.d := by
  obtain ⟨r, hr, _, hrig, _⟩ := line_to_segment_inherits (⟨5, 5, 5⟩ : V) ⟨0, 1, 0⟩ ⟨0, 0, 0⟩ ⟨1, 2, 0.5⟩
    (by unfold DistLine.UnitVec; norm_num [V3.dot_def])
    (by unfold Gen.distance__line__line_to_line_segment__epsilon; norm_num [V3.normSq_def])
  obtain ⟨r', hr', e⟩ := hrig pose345 rot345_orth
  exact ⟨r, r', hr, hr', e⟩

/-- **`line_segment_to_line_segment` is swap-symmetric in its distance** (C10 model, default epsilon): for
two segments the code does not treat as points (both squared lengths `> epsilon`, the hypotheses of
`C10.segToSeg_opt` for either order) exchanging the segments leaves the returned distance unchanged —
for every branch of Ericson's clamping, although the code is not symmetric in its arguments.
(Rigid equivariance and homogeneity of this kernel: `C12.seg_to_seg_equivariant`, `C12.seg_to_seg_scale`.) -/
theorem segment_to_segment_swap (a0 a1 b0 b1 : V)
    (hlen1 : (Gen.distance__line__line_segment_to_line_segment__epsilon : ℝ) < V3.normSq (a1 - a0))
    (hlen2 : (Gen.distance__line__line_segment_to_line_segment__epsilon : ℝ) < V3.normSq (b1 - b0)) :
    ∃ r r', DistLine.segToSeg a0 a1 b0 b1 = .ok r ∧ DistLine.segToSeg b0 b1 a0 a1 = .ok r' ∧
      IsDist (DistLine.segmentSet a0 a1) (DistLine.segmentSet b0 b1) r.d ∧ r'.d = r.d := by
  have key : ∀ a0 a1 b0 b1 : V,
      (Gen.distance__line__line_segment_to_line_segment__epsilon : ℝ) < V3.normSq (a1 - a0) →
      (Gen.distance__line__line_segment_to_line_segment__epsilon : ℝ) < V3.normSq (b1 - b0) →
      ∃ r, DistLine.segToSeg a0 a1 b0 b1 = .ok r ∧
        IsDist (DistLine.segmentSet a0 a1) (DistLine.segmentSet b0 b1) r.d := by
    intro a0 a1 b0 b1 h1 h2
    obtain ⟨r, hr⟩ := C10.segToSeg_ok a0 a1 b0 b1
    exact ⟨r, hr, isDist_of_lowerBound (C10.segToSeg_mem₁ hr) (C10.segToSeg_mem₂ hr)
      (C10.segToSeg_dist hr) (C10.segToSeg_opt hr h1.le h2)⟩
  obtain ⟨r, hr, hd⟩ := key a0 a1 b0 b1 hlen1 hlen2
  obtain ⟨r', hr', hd'⟩ := key b0 b1 a0 a1 hlen2 hlen1
  exact ⟨r, r', hr, hr', hd, schema.2.1 (_, _, r.d) (_, _, r'.d) hd hd' rfl rfl⟩

example : ∃ r r', DistLine.segToSeg (⟨0, 0, 0⟩ : V) ⟨1, 0, 0⟩ ⟨0.5, 0, 1⟩ ⟨2, 0, 1⟩ = .ok r ∧
    DistLine.segToSeg (⟨0.5, 0, 1⟩ : V) ⟨2, 0, 1⟩ ⟨0, 0, 0⟩ ⟨1, 0, 0⟩ = .ok r' ∧ r'.d = r.d := by
  obtain ⟨r, r', hr, hr', _, e⟩ := segment_to_segment_swap (⟨0, 0, 0⟩ : V) ⟨1, 0, 0⟩ ⟨0.5, 0, 1⟩ ⟨2, 0, 1⟩
    (by unfold Gen.distance__line__line_segment_to_line_segment__epsilon; norm_num [V3.normSq_def])
    (by unfold Gen.distance__line__line_segment_to_line_segment__epsilon; norm_num [V3.normSq_def])
  exact ⟨r, r', hr, hr', e⟩

/-- **`line_to_line` is swap-symmetric in its distance, parallel branch included** (C10 model, default
epsilon): unit directions outside the band `0 < |1 − (d₁·d₂)²| < epsilon` (the hypotheses of
`C10.lineToLine_opt`, symmetric in the two lines).  `C12.line_to_line_swap` proves the full result swap
only in the non-parallel branch and the distance only for exactly (anti)parallel directions of the kernel
model; through optimality the distance is symmetric in both branches. -/
theorem line_to_line_swap_dist (lp1 ld1 lp2 ld2 : V) (hu1 : DistLine.UnitVec ld1)
    (hu2 : DistLine.UnitVec ld2)
    (hband : (Gen.distance__line__line_to_line__epsilon : ℝ) ≤ |C10.parDet ld1 ld2| ∨
      C10.parDet ld1 ld2 = 0) :
    ∃ r r', DistLine.lineToLine lp1 ld1 lp2 ld2 = .ok r ∧ DistLine.lineToLine lp2 ld2 lp1 ld1 = .ok r' ∧
      IsDist (DistLine.lineSet lp1 ld1) (DistLine.lineSet lp2 ld2) r.d ∧ r'.d = r.d := by
  have key : ∀ lp1 ld1 lp2 ld2 : V, DistLine.UnitVec ld1 → DistLine.UnitVec ld2 →
      ((Gen.distance__line__line_to_line__epsilon : ℝ) ≤ |C10.parDet ld1 ld2| ∨
        C10.parDet ld1 ld2 = 0) →
      ∃ r, DistLine.lineToLine lp1 ld1 lp2 ld2 = .ok r ∧
        IsDist (DistLine.lineSet lp1 ld1) (DistLine.lineSet lp2 ld2) r.d := by
    intro lp1 ld1 lp2 ld2 hu1 hu2 hband
    obtain ⟨r, hr⟩ := C10.lineToLine_ok lp1 ld1 lp2 ld2
    exact ⟨r, hr, isDist_of_lowerBound (C10.lineToLine_mem₁ hr) (C10.lineToLine_mem₂ hr)
      (C10.lineToLine_dist hr hu1 hu2) (C10.lineToLine_opt hr hu1 hu2 hband)⟩
  have hsym : C10.parDet ld2 ld1 = C10.parDet ld1 ld2 := by
    unfold C10.parDet; rw [V3.dot_comm]
  obtain ⟨r, hr, hd⟩ := key lp1 ld1 lp2 ld2 hu1 hu2 hband
  obtain ⟨r', hr', hd'⟩ := key lp2 ld2 lp1 ld1 hu2 hu1 (by rw [hsym]; exact hband)
  exact ⟨r, r', hr, hr', hd, schema.2.1 (_, _, r.d) (_, _, r'.d) hd hd' rfl rfl⟩

example : ∃ r r', DistLine.lineToLine (⟨1, 2, 3⟩ : V) ⟨0, 0.6, 0.8⟩ ⟨0, 0, 0⟩ ⟨0, -0.6, -0.8⟩ = .ok r ∧
    DistLine.lineToLine (⟨0, 0, 0⟩ : V) ⟨0, -0.6, -0.8⟩ ⟨1, 2, 3⟩ ⟨0, 0.6, 0.8⟩ = .ok r' ∧ r'.d = r.d := by
  obtain ⟨r, r', hr, hr', _, e⟩ := line_to_line_swap_dist (⟨1, 2, 3⟩ : V) ⟨0, 0.6, 0.8⟩ ⟨0, 0, 0⟩
    ⟨0, -0.6, -0.8⟩ (by unfold DistLine.UnitVec; norm_num [V3.dot_def])
    (by unfold DistLine.UnitVec; norm_num [V3.dot_def])
    (Or.inr (by unfold C10.parDet; norm_num [V3.dot_def]))
  exact ⟨r, r', hr, hr', e⟩

end C12Link
end D3
