/-
C12 — results are symmetric in the arguments, invariant under a common rigid motion, and
homogeneous under uniform scaling.

Property theorems only (helper lemmas live in D3/Proofs/PoseAlg*.lean).  Three layers:

1. **pose algebra** of `distance3d/utils.py` as the code computes it (`D3.PoseAlg.transformPoint`,
   `inverseTransformPoint`, `invertTransform`, `transformPoints`, `compose`): inverses, composition,
   preservation of Gram entries / norms / distances, cross products under proper rotations;
2. **specification level** (`dist_spec_invariant`, `pen_depth_invariant`): the attained minimum distance
   `IsDist K₁ K₂ d` of two *arbitrary* point sets and the penetration depth `IsPenDepth` are invariant
   under a common rigid motion, symmetric under swapping, homogeneous under scaling, and unique — hence
   (`scalar_inherits`, `scalar_inherits_approx`, `pen_depth_inherits`) **any** function that returns the
   true distance / depth (exactly, or within a tolerance: every function with a C01/C09/C11/C07-type
   theorem) returns the same scalar on the moved / swapped scene and `s·d` on the scaled scene, with no
   new case analysis; closest points move with `g` where the optimum is unique
   (`closest_pair_equivariant`);
3. **direct equivariance** `f (g • inputs) = g • f inputs` of the dot-product-only kernels modelled in
   `D3.Model.PoseAlg` (`_point_to_line`, `point_to_line_segment`, `_line_to_line`,
   `_line_segment_to_line_segment`, `_point_to_plane`, `point_to_box`, the local-frame support pattern of
   geometry.py, the relative pose of the Nesterov support function), their swap symmetry where the code has
   it, and scale homogeneity — unconditional where no absolute threshold interferes, under an explicit
   branch-stability hypothesis otherwise (`seg_to_seg_scale`), which is shown to be necessary
   (`seg_to_seg_scale_needs_branch_stability`).

Not proved here (see `PARTIAL` in harness/props/c12.py): equivariance of the *outputs* of the iterative
algorithms (GJK flavours, EPA, MPR) and of the remaining closed-form distance functions beyond what
layer 2 gives for their scalar output; point outputs where the optimum is not unique.
-/
import D3.Proofs.PoseAlgSpec
import D3.Proofs.PoseAlgKernels

namespace D3
namespace C12
open PoseAlg

/-! ## 1. pose algebra (`utils.py`) -/

/-- **`invert_transform` is the inverse (left).** For an orthonormal rotation block,
`transform_point(invert_transform(A), transform_point(A, p)) = p`. -/
theorem invert_transform_left_inverse {A : Pose ℝ} (h : Orthonormal A.R) (p : V) :
    transformPoint (invertTransform A) (transformPoint A p) = p :=
  invertTransform_left h p

example : transformPoint (invertTransform pose345) (transformPoint pose345 ⟨1, 2, 3⟩) = ⟨1, 2, 3⟩ :=
  invert_transform_left_inverse rot345_orth _

/-- **`invert_transform` is the inverse (right).** -/
theorem invert_transform_right_inverse {A : Pose ℝ} (h : Orthonormal A.R) (p : V) :
    transformPoint A (transformPoint (invertTransform A) p) = p :=
  invertTransform_right h p

example : transformPoint pose345 (transformPoint (invertTransform pose345) ⟨1, 2, 3⟩) = ⟨1, 2, 3⟩ :=
  invert_transform_right_inverse rot345_orth _

/-- **`transform_point ∘ inverse_transform_point = id`, both ways**, and `inverse_transform_point(A, ·)`
is `transform_point(invert_transform(A), ·)` (the latter for every matrix). -/
theorem inverse_transform_point_cancel {A : Pose ℝ} (h : Orthonormal A.R) (p : V) :
    transformPoint A (inverseTransformPoint A p) = p ∧
    inverseTransformPoint A (transformPoint A p) = p ∧
    inverseTransformPoint A p = transformPoint (invertTransform A) p := by
  refine ⟨?_, ?_, inverseTransformPoint_eq A p⟩
  · rw [inverseTransformPoint_eq]; exact invertTransform_right h p
  · rw [inverseTransformPoint_eq]; exact invertTransform_left h _

example : transformPoint pose345 (inverseTransformPoint pose345 ⟨1, 2, 3⟩) = ⟨1, 2, 3⟩ :=
  (inverse_transform_point_cancel rot345_orth _).1

/-- **Composition.** The 4×4 product acts as the composition of the maps (every matrix); for
orthonormal `A` the inverse of a product is the reversed product of the inverses; inverting twice gives
the pose back; orthonormality is preserved by inversion and composition. -/
theorem invert_transform_compose {A B : Pose ℝ} (hA : Orthonormal A.R) (hB : Orthonormal B.R) :
    (∀ p, transformPoint (compose A B) p = transformPoint A (transformPoint B p)) ∧
    invertTransform (compose A B) = compose (invertTransform B) (invertTransform A) ∧
    invertTransform (invertTransform A) = A ∧
    Orthonormal (invertTransform A).R ∧ Orthonormal (compose A B).R :=
  ⟨compose_transformPoint A B, invertTransform_compose hA, invertTransform_involutive hA,
    invertTransform_orthonormal hA, compose_orthonormal hA hB⟩

example : invertTransform (compose pose345 pose345) =
    compose (invertTransform pose345) (invertTransform pose345) :=
  (invert_transform_compose rot345_orth rot345_orth).2.1

/-- **`transform_points` / `transform_directions`** are `transform_point` / the rotation mapped over
the rows (`np.dot(P, R.T) + t` row-wise). -/
theorem transform_points_map (A : Pose ℝ) (ps : List V) :
    transformPoints A ps = ps.map (transformPoint A) ∧
    transformDirections A ps = ps.map A.R.mulVec :=
  ⟨transformPoints_eq_map A ps, transformDirections_eq_map A ps⟩

example : transformPoints pose345 [⟨1, 0, 0⟩, ⟨0, 1, 0⟩] =
    [transformPoint pose345 ⟨1, 0, 0⟩, transformPoint pose345 ⟨0, 1, 0⟩] :=
  (transform_points_map pose345 _).1

/-- **Rigid motions preserve dot products of differences, norms and distances**, as computed by
`transform_point`; directions (rotated only) keep their dot products with differences. -/
theorem rigid_preserves {g : Pose ℝ} (hg : Orthonormal g.R) (x y z w d : V) :
    V3.dot (transformPoint g x - transformPoint g y) (transformPoint g z - transformPoint g w) =
      V3.dot (x - y) (z - w) ∧
    V3.norm (transformPoint g x - transformPoint g y) = V3.norm (x - y) ∧
    V3.dot (g.R.mulVec d) (transformPoint g x - transformPoint g y) = V3.dot d (x - y) ∧
    V3.norm (g.R.mulVec d) = V3.norm d := by
  simp only [transformPoint_eq_apply]
  exact ⟨dot_rigid hg x y z w, dist_rigid hg x y, dot_dir_rigid hg d x y, norm_mulVec hg d⟩

example : V3.norm (transformPoint pose345 ⟨1, 2, 3⟩ - transformPoint pose345 ⟨0, 0, 7⟩) =
    V3.norm ((⟨1, 2, 3⟩ : V) - ⟨0, 0, 7⟩) :=
  (rigid_preserves rot345_orth _ _ ⟨0, 0, 0⟩ ⟨0, 0, 0⟩ ⟨0, 0, 1⟩).2.1

/-- **Cross products rotate with proper rotations** (`det R = +1`, stated as right-handedness
`r0 × r1 = r2` of an orthonormal matrix): `(R a) × (R b) = R (a × b)`; for an arbitrary matrix the
cofactor matrix appears instead. -/
theorem cross_rotate {R : Mat} (h : ProperRot R) (a b : V) :
    V3.cross (R.mulVec a) (R.mulVec b) = R.mulVec (V3.cross a b) :=
  PoseAlg.cross_rotate h a b

example : V3.cross (rot345.mulVec ⟨1, 0, 0⟩) (rot345.mulVec ⟨0, 1, 0⟩) =
    rot345.mulVec (V3.cross ⟨1, 0, 0⟩ ⟨0, 1, 0⟩) :=
  cross_rotate rot345_proper _ _

/-! ## 2. specification level -/

/-- the distance of two singletons, used by the non-vacuity examples -/
theorem isDist_singletons (a b : V) : IsDist (· = a) (· = b) (V3.norm (a - b)) :=
  ⟨⟨a, rfl, b, rfl, rfl⟩, by rintro x rfl y rfl; exact le_refl _⟩

/-- **`dist_spec_invariant`.** For arbitrary point sets, "`d` is the attained minimum distance" is
invariant under a common rigid motion, symmetric under swapping the sets, and homogeneous under a
common positive scaling. -/
theorem dist_spec_invariant (K₁ K₂ : V → Prop) (d : ℝ) :
    (∀ g : Pose ℝ, Orthonormal g.R →
      (IsDist (poseImage g K₁) (poseImage g K₂) d ↔ IsDist K₁ K₂ d)) ∧
    (IsDist K₂ K₁ d ↔ IsDist K₁ K₂ d) ∧
    (∀ s : ℝ, 0 < s → (IsDist (scaleSet s K₁) (scaleSet s K₂) (s * d) ↔ IsDist K₁ K₂ d)) :=
  ⟨fun _ hg => isDist_rigid hg K₁ K₂ d, isDist_swap K₁ K₂ d, fun _ hs => isDist_scale hs K₁ K₂ d⟩

example : IsDist (poseImage pose345 (· = (⟨1, 2, 3⟩ : V))) (poseImage pose345 (· = (⟨0, 0, 7⟩ : V)))
    (V3.norm ((⟨1, 2, 3⟩ : V) - ⟨0, 0, 7⟩)) :=
  ((dist_spec_invariant _ _ _).1 pose345 rot345_orth).mpr (isDist_singletons _ _)

/-- **The distance is unique.** -/
theorem dist_unique {K₁ K₂ : V → Prop} {d d' : ℝ} (h : IsDist K₁ K₂ d) (h' : IsDist K₁ K₂ d') :
    d = d' :=
  isDist_unique h h'

example : V3.norm ((⟨1, 2, 3⟩ : V) - ⟨0, 0, 7⟩) = V3.norm ((⟨1, 2, 3⟩ : V) - ⟨0, 0, 7⟩) :=
  dist_unique (isDist_singletons _ _) (isDist_singletons _ _)

/-- **Schema: every exact distance function inherits C12 for its scalar output.**
Let `f` be any function on scenes (of any type) whose value is the true distance of the scene's two
point sets on the well-formed scenes.  Then `f` takes the same value on a rigidly moved scene and on
the swapped scene, and `s · f` on the scene scaled by `s > 0`. -/
theorem scalar_inherits {Scene : Type} (wf : Scene → Prop) (K₁ K₂ : Scene → V → Prop) (f : Scene → ℝ)
    (hf : ∀ σ, wf σ → IsDist (K₁ σ) (K₂ σ) (f σ)) :
    (∀ σ σ' (g : Pose ℝ), wf σ → wf σ' → Orthonormal g.R →
      K₁ σ' = poseImage g (K₁ σ) → K₂ σ' = poseImage g (K₂ σ) → f σ' = f σ) ∧
    (∀ σ σ', wf σ → wf σ' → K₁ σ' = K₂ σ → K₂ σ' = K₁ σ → f σ' = f σ) ∧
    (∀ σ σ' (s : ℝ), wf σ → wf σ' → 0 < s →
      K₁ σ' = scaleSet s (K₁ σ) → K₂ σ' = scaleSet s (K₂ σ) → f σ' = s * f σ) := by
  refine ⟨?_, ?_, ?_⟩
  · intro σ σ' g hw hw' hg h1 h2
    have h' := hf σ' hw'
    rw [h1, h2] at h'
    exact isDist_unique ((isDist_rigid hg _ _ _).mp h') (hf σ hw)
  · intro σ σ' hw hw' h1 h2
    have h' := hf σ' hw'
    rw [h1, h2] at h'
    exact isDist_unique ((isDist_swap _ _ _).mp h') (hf σ hw)
  · intro σ σ' s hw hw' hs h1 h2
    have h' := hf σ' hw'
    rw [h1, h2] at h'
    exact isDist_unique h' ((isDist_scale hs _ _ _).mpr (hf σ hw))

/-- the schema is not vacuous: scenes = pairs of points, `f` = their distance -/
example : ∀ (a b : V), V3.norm (pose345.apply a - pose345.apply b) = V3.norm (a - b) := by
  intro a b
  have H := (scalar_inherits (Scene := V × V) (fun _ => True) (fun σ => (· = σ.1)) (fun σ => (· = σ.2))
    (fun σ => V3.norm (σ.1 - σ.2)) (fun σ _ => isDist_singletons σ.1 σ.2)).1
  refine H (a, b) (pose345.apply a, pose345.apply b) pose345 trivial trivial rot345_orth ?_ ?_
  · funext p; simp only [poseImage, eq_iff_iff]
    exact ⟨fun h => ⟨a, rfl, h⟩, fun ⟨q, hq, hp⟩ => by rw [hp, hq]⟩
  · funext p; simp only [poseImage, eq_iff_iff]
    exact ⟨fun h => ⟨b, rfl, h⟩, fun ⟨q, hq, hp⟩ => by rw [hp, hq]⟩

/-- **Schema with tolerances (iterative algorithms).** If `f` is within `tol σ` of the true distance
on every well-formed scene (a C01/C09-type theorem), then its values on a scene and on the moved /
swapped scene differ by at most the sum of the two tolerances, and on the scaled scene
`|f σ' − s·f σ| ≤ tol σ' + s·tol σ`. -/
theorem scalar_inherits_approx {Scene : Type} (wf : Scene → Prop) (K₁ K₂ : Scene → V → Prop)
    (f tol : Scene → ℝ)
    (hf : ∀ σ, wf σ → ∃ d, IsDist (K₁ σ) (K₂ σ) d ∧ |f σ - d| ≤ tol σ) :
    (∀ σ σ' (g : Pose ℝ), wf σ → wf σ' → Orthonormal g.R →
      K₁ σ' = poseImage g (K₁ σ) → K₂ σ' = poseImage g (K₂ σ) → |f σ' - f σ| ≤ tol σ' + tol σ) ∧
    (∀ σ σ', wf σ → wf σ' → K₁ σ' = K₂ σ → K₂ σ' = K₁ σ → |f σ' - f σ| ≤ tol σ' + tol σ) ∧
    (∀ σ σ' (s : ℝ), wf σ → wf σ' → 0 < s →
      K₁ σ' = scaleSet s (K₁ σ) → K₂ σ' = scaleSet s (K₂ σ) →
      |f σ' - s * f σ| ≤ tol σ' + s * tol σ) := by
  have tri : ∀ a b d e1 e2 : ℝ, |a - d| ≤ e1 → |b - d| ≤ e2 → |a - b| ≤ e1 + e2 := by
    intro a b d e1 e2 h1 h2
    rw [abs_le] at *
    constructor <;> linarith [h1.1, h1.2, h2.1, h2.2]
  refine ⟨?_, ?_, ?_⟩
  · intro σ σ' g hw hw' hg h1 h2
    obtain ⟨d, hd, he⟩ := hf σ hw
    obtain ⟨d', hd', he'⟩ := hf σ' hw'
    rw [h1, h2] at hd'
    have : d' = d := isDist_unique ((isDist_rigid hg _ _ _).mp hd') hd
    subst this
    exact tri _ _ _ _ _ he' he
  · intro σ σ' hw hw' h1 h2
    obtain ⟨d, hd, he⟩ := hf σ hw
    obtain ⟨d', hd', he'⟩ := hf σ' hw'
    rw [h1, h2] at hd'
    have : d' = d := isDist_unique ((isDist_swap _ _ _).mp hd') hd
    subst this
    exact tri _ _ _ _ _ he' he
  · intro σ σ' s hw hw' hs h1 h2
    obtain ⟨d, hd, he⟩ := hf σ hw
    obtain ⟨d', hd', he'⟩ := hf σ' hw'
    rw [h1, h2] at hd'
    have : d' = s * d := isDist_unique hd' ((isDist_scale hs _ _ _).mpr hd)
    subst this
    have he2 : |s * f σ - s * d| ≤ s * tol σ := by
      rw [← mul_sub, abs_mul, abs_of_pos hs]
      exact mul_le_mul_of_nonneg_left he hs.le
    exact tri _ _ _ _ _ he' he2

example : ∀ (a b : V), |V3.norm (b - a) - V3.norm (a - b)| ≤ 0 + 0 := by
  intro a b
  have H := (scalar_inherits_approx (Scene := V × V) (fun _ => True) (fun σ => (· = σ.1))
    (fun σ => (· = σ.2)) (fun σ => V3.norm (σ.1 - σ.2)) (fun _ => 0)
    (fun σ _ => ⟨_, isDist_singletons σ.1 σ.2, by simp⟩)).2.1
  exact H (a, b) (b, a) trivial trivial rfl rfl

/-- **Closest points move with the scene where the optimum is unique.** If `(x, y)` is the only
closest pair of `(K₁, K₂)`, every closest pair of the moved scene is `(g x, g y)`; closest pairs of the
swapped scene are the swapped pairs; closest pairs scale. -/
theorem closest_pair_equivariant {g : Pose ℝ} (hg : Orthonormal g.R) {K₁ K₂ : V → Prop} {x y : V} :
    ((∀ a b, IsClosestPair K₁ K₂ a b → a = x ∧ b = y) →
      ∀ x' y', IsClosestPair (poseImage g K₁) (poseImage g K₂) x' y' →
        x' = g.apply x ∧ y' = g.apply y) ∧
    (IsClosestPair K₂ K₁ y x ↔ IsClosestPair K₁ K₂ x y) ∧
    (∀ s : ℝ, 0 < s → IsClosestPair K₁ K₂ x y →
      IsClosestPair (scaleSet s K₁) (scaleSet s K₂) (s * x) (s * y)) :=
  ⟨fun hu _ _ h' => closestPair_rigid_of_unique hg hu h', isClosestPair_swap K₁ K₂ x y,
    fun _ hs h => isClosestPair_scale hs K₁ K₂ x y h⟩

example : ∀ x' y', IsClosestPair (poseImage pose345 (· = (⟨1, 2, 3⟩ : V)))
    (poseImage pose345 (· = (⟨0, 0, 7⟩ : V))) x' y' →
    x' = pose345.apply ⟨1, 2, 3⟩ ∧ y' = pose345.apply ⟨0, 0, 7⟩ :=
  (closest_pair_equivariant rot345_orth).1 (fun _ _ h => ⟨h.1, h.2.1⟩)

/-- **`pen_depth_invariant`.** The penetration depth (attained minimum over unit directions of the
attained support value of `K₁ ⊖ K₂`) is invariant under a common rigid motion, independent of the
argument order, homogeneous under scaling, and unique. -/
theorem pen_depth_invariant (K₁ K₂ : V → Prop) (δ : ℝ) :
    (∀ g : Pose ℝ, Orthonormal g.R →
      (IsPenDepth (poseImage g K₁) (poseImage g K₂) δ ↔ IsPenDepth K₁ K₂ δ)) ∧
    (IsPenDepth K₂ K₁ δ ↔ IsPenDepth K₁ K₂ δ) ∧
    (∀ s : ℝ, 0 < s → (IsPenDepth (scaleSet s K₁) (scaleSet s K₂) (s * δ) ↔ IsPenDepth K₁ K₂ δ)) ∧
    (∀ δ', IsPenDepth K₁ K₂ δ → IsPenDepth K₁ K₂ δ' → δ = δ') :=
  ⟨fun _ hg => isPenDepth_rigid hg K₁ K₂ δ, isPenDepth_swap K₁ K₂ δ,
    fun _ hs => isPenDepth_scale hs K₁ K₂ δ, fun _ h h' => isPenDepth_unique h h'⟩

/-- two coincident points have penetration depth 0 (every direction has support value 0) -/
theorem isPenDepth_point (a : V) : IsPenDepth (· = a) (· = a) 0 := by
  have hz : ∀ n z : V, mdiff (· = a) (· = a) z → V3.dot n z = 0 := by
    rintro n z ⟨x, y, rfl, rfl, rfl⟩
    simp [V3.dot_def]
  refine ⟨⟨⟨1, 0, 0⟩, by simp [IsUnitV, V3.dot_def], ⟨a - a, ⟨a, a, rfl, rfl, rfl⟩, hz _ _ ⟨a, a, rfl, rfl, rfl⟩⟩,
    fun z hzm => (hz _ z hzm).le⟩, ?_⟩
  rintro n h _ ⟨⟨z, hzm, hzv⟩, _⟩
  rw [← hzv, hz n z hzm]

example : IsPenDepth (poseImage pose345 (· = (⟨1, 2, 3⟩ : V))) (poseImage pose345 (· = (⟨1, 2, 3⟩ : V))) 0 :=
  ((pen_depth_invariant _ _ _).1 pose345 rot345_orth).mpr (isPenDepth_point _)

/-- **Schema: every exact penetration-depth function inherits C12** (C07-type theorems). -/
theorem pen_depth_inherits {Scene : Type} (wf : Scene → Prop) (K₁ K₂ : Scene → V → Prop) (f : Scene → ℝ)
    (hf : ∀ σ, wf σ → IsPenDepth (K₁ σ) (K₂ σ) (f σ)) :
    (∀ σ σ' (g : Pose ℝ), wf σ → wf σ' → Orthonormal g.R →
      K₁ σ' = poseImage g (K₁ σ) → K₂ σ' = poseImage g (K₂ σ) → f σ' = f σ) ∧
    (∀ σ σ', wf σ → wf σ' → K₁ σ' = K₂ σ → K₂ σ' = K₁ σ → f σ' = f σ) ∧
    (∀ σ σ' (s : ℝ), wf σ → wf σ' → 0 < s →
      K₁ σ' = scaleSet s (K₁ σ) → K₂ σ' = scaleSet s (K₂ σ) → f σ' = s * f σ) := by
  refine ⟨?_, ?_, ?_⟩
  · intro σ σ' g hw hw' hg h1 h2
    have h' := hf σ' hw'
    rw [h1, h2] at h'
    exact isPenDepth_unique ((isPenDepth_rigid hg _ _ _).mp h') (hf σ hw)
  · intro σ σ' hw hw' h1 h2
    have h' := hf σ' hw'
    rw [h1, h2] at h'
    exact isPenDepth_unique ((isPenDepth_swap _ _ _).mp h') (hf σ hw)
  · intro σ σ' s hw hw' hs h1 h2
    have h' := hf σ' hw'
    rw [h1, h2] at h'
    exact isPenDepth_unique h' ((isPenDepth_scale hs _ _ _).mpr (hf σ hw))

example : ∀ _a : V, (0 : ℝ) = 0 := by
  intro a
  have H := (pen_depth_inherits (Scene := V) (fun _ => True) (fun σ => (· = σ)) (fun σ => (· = σ))
    (fun _ => 0) (fun σ _ => isPenDepth_point σ)).2.1
  exact H a a trivial trivial rfl rfl

/-! ## 3. direct equivariance of the kernels -/

/-- **`_point_to_line`**: a common rigid motion (point and line point moved, direction rotated) leaves
distance and line parameter unchanged and moves the closest point; scaling point and line point by
`k ≥ 0` (unit direction kept) scales distance, closest point and parameter. -/
theorem point_to_line_equivariant {g : Pose ℝ} (hg : Orthonormal g.R) {k : ℝ} (hk : 0 ≤ k) (p lp ld : V) :
    pointToLineK (g.apply p) (g.apply lp) (g.R.mulVec ld) = (pointToLineK p lp ld).move g ∧
    pointToLineK (k * p) (k * lp) ld = (pointToLineK p lp ld).scale k k :=
  ⟨pointToLineK_rigid hg p lp ld, pointToLineK_scale hk p lp ld⟩

example : pointToLineK (pose345.apply ⟨1, 2, 3⟩) (pose345.apply ⟨0, 0, 0⟩) (rot345.mulVec ⟨0, 0, 1⟩) =
    (pointToLineK ⟨1, 2, 3⟩ ⟨0, 0, 0⟩ ⟨0, 0, 1⟩).move pose345 :=
  (point_to_line_equivariant rot345_orth (k := 2) (by norm_num) _ _ _).1

/-- **`point_to_line_segment`** (including its `divZero` outcome for a degenerate segment): rigid
equivariance and homogeneity for `k > 0` (the segment parameter is a fraction: invariant). -/
theorem point_to_segment_equivariant {g : Pose ℝ} (hg : Orthonormal g.R) {k : ℝ} (hk : 0 < k) (p a b : V) :
    pointToSegment (g.apply p) (g.apply a) (g.apply b) = (pointToSegment p a b).map (PL.move g) ∧
    pointToSegment (k * p) (k * a) (k * b) = (pointToSegment p a b).map (PL.scale k 1) :=
  ⟨pointToSegment_rigid hg p a b, pointToSegment_scale hk p a b⟩

example : pointToSegment (pose345.apply ⟨1, 2, 3⟩) (pose345.apply ⟨0, 0, 0⟩) (pose345.apply ⟨0, 0, 1⟩) =
    (pointToSegment ⟨1, 2, 3⟩ ⟨0, 0, 0⟩ ⟨0, 0, 1⟩).map (PL.move pose345) :=
  (point_to_segment_equivariant rot345_orth (k := 2) (by norm_num) _ _ _).1

/-- **`_line_to_line`** (both branches, any `epsilon`): rigid equivariance — the branch test
`abs(1 − a12²) >= epsilon` only sees the invariant `a12` — and homogeneity for `k ≥ 0` (the unit
directions are not scaled, so the branch test does not change either: no threshold hypothesis). -/
theorem line_to_line_equivariant {g : Pose ℝ} (hg : Orthonormal g.R) {k : ℝ} (hk : 0 ≤ k)
    (lp1 ld1 lp2 ld2 : V) (ε : ℝ) :
    lineToLineK (g.apply lp1) (g.R.mulVec ld1) (g.apply lp2) (g.R.mulVec ld2) ε =
      (lineToLineK lp1 ld1 lp2 ld2 ε).map (Res.move g) ∧
    lineToLineK (k * lp1) ld1 (k * lp2) ld2 ε = (lineToLineK lp1 ld1 lp2 ld2 ε).map (Res.scale k k) :=
  ⟨lineToLineK_rigid hg lp1 ld1 lp2 ld2 ε, lineToLineK_scale hk lp1 ld1 lp2 ld2 ε⟩

example : lineToLine (pose345.apply ⟨1, 2, 3⟩) (rot345.mulVec ⟨0, 0, 1⟩) (pose345.apply ⟨0, 0, 0⟩)
      (rot345.mulVec ⟨1, 0, 0⟩) =
    (lineToLine ⟨1, 2, 3⟩ ⟨0, 0, 1⟩ ⟨0, 0, 0⟩ ⟨1, 0, 0⟩).map (Res.move pose345) :=
  (line_to_line_equivariant rot345_orth (k := 2) (by norm_num) _ _ _ _ _).1

/-- **`_line_to_line` is symmetric in its non-parallel branch**: swapping the lines swaps points and
parameters and keeps the distance.  In the parallel branch the code anchors the result at
`line_point2`, so the points are not swapped images; the distance is still symmetric when the
directions are exactly (anti)parallel. -/
theorem line_to_line_swap (lp1 ld1 lp2 ld2 : V) (ε : ℝ) :
    (ε ≤ |1 - V3.dot ld1 ld2 * V3.dot ld1 ld2| →
      lineToLineK lp2 ld2 lp1 ld1 ε = (lineToLineK lp1 ld1 lp2 ld2 ε).map Res.swap) ∧
    (∀ σ : ℝ, σ * σ = 1 → ld2 = σ * ld1 → V3.dot ld1 ld1 = 1 → 0 < ε →
      ∃ r r', lineToLineK lp1 ld1 lp2 ld2 ε = .ok r ∧ lineToLineK lp2 ld2 lp1 ld1 ε = .ok r' ∧
        r.br = 1 ∧ r'.br = 1 ∧ r'.d = r.d) := by
  refine ⟨lineToLineK_swap lp1 ld1 lp2 ld2 ε, ?_⟩
  rintro σ hσ rfl hu hε
  exact lineToLineK_parallel_swap_dist lp1 ld1 lp2 σ ε hσ hu hε

example : lineToLineK ⟨0, 0, 0⟩ ⟨1, 0, 0⟩ ⟨1, 2, 3⟩ ⟨0, 0, 1⟩ 1e-6 =
    (lineToLineK ⟨1, 2, 3⟩ ⟨0, 0, 1⟩ ⟨0, 0, 0⟩ ⟨1, 0, 0⟩ 1e-6).map Res.swap :=
  (line_to_line_swap _ _ _ _ _).1 (by simp only [V3.dot_def]; norm_num)

/-- **`_line_segment_to_line_segment`** (every branch, any `epsilon`, including the degenerate ones and
`divZero`): rigid equivariance — all branch tests read Gram entries. -/
theorem seg_to_seg_equivariant {g : Pose ℝ} (hg : Orthonormal g.R) (s1 e1 s2 e2 : V) (ε : ℝ) :
    segToSegK (g.apply s1) (g.apply e1) (g.apply s2) (g.apply e2) ε =
      (segToSegK s1 e1 s2 e2 ε).map (Res.move g) :=
  segToSegK_rigid hg s1 e1 s2 e2 ε

example : segToSeg (pose345.apply ⟨1, 2, 3⟩) (pose345.apply ⟨1, 2, 4⟩) (pose345.apply ⟨0, 0, 0⟩)
      (pose345.apply ⟨1, 0, 0⟩) =
    (segToSeg ⟨1, 2, 3⟩ ⟨1, 2, 4⟩ ⟨0, 0, 0⟩ ⟨1, 0, 0⟩).map (Res.move pose345) :=
  seg_to_seg_equivariant rot345_orth _ _ _ _ _

/-- **`_line_segment_to_line_segment` under scaling**: distance and points scale by `k > 0` and the
segment parameters stay, *provided the absolute `epsilon` tests on the squared segment lengths decide
the same way in both scenes*.  (In the primitive domain P all squared lengths are ≥ 0.04 > 1e-6.) -/
theorem seg_to_seg_scale {k : ℝ} (hk : 0 < k) (s1 e1 s2 e2 : V) (ε : ℝ)
    (ha : k * k * V3.dot (e1 - s1) (e1 - s1) < ε ↔ V3.dot (e1 - s1) (e1 - s1) < ε)
    (he : k * k * V3.dot (e2 - s2) (e2 - s2) < ε ↔ V3.dot (e2 - s2) (e2 - s2) < ε)
    (he' : k * k * V3.dot (e2 - s2) (e2 - s2) ≤ ε ↔ V3.dot (e2 - s2) (e2 - s2) ≤ ε) :
    segToSegK (k * s1) (k * e1) (k * s2) (k * e2) ε = (segToSegK s1 e1 s2 e2 ε).map (Res.scale k 1) :=
  segToSegK_scale hk s1 e1 s2 e2 ε ha he he'

example : segToSegK ((2 : ℝ) * (⟨1, 2, 3⟩ : V)) ((2 : ℝ) * (⟨1, 2, 4⟩ : V)) ((2 : ℝ) * (⟨0, 0, 0⟩ : V))
      ((2 : ℝ) * (⟨1, 0, 0⟩ : V)) 1e-6 =
    (segToSegK ⟨1, 2, 3⟩ ⟨1, 2, 4⟩ ⟨0, 0, 0⟩ ⟨1, 0, 0⟩ 1e-6).map (Res.scale 2 1) :=
  seg_to_seg_scale (by norm_num) _ _ _ _ _
    (by simp only [V3.dot_def, V3.sub_x, V3.sub_y, V3.sub_z]; norm_num)
    (by simp only [V3.dot_def, V3.sub_x, V3.sub_y, V3.sub_z]; norm_num)
    (by simp only [V3.dot_def, V3.sub_x, V3.sub_y, V3.sub_z]; norm_num)

/-- **The branch-stability hypothesis is necessary**: with the default `epsilon = 1e-6` a segment of
length `5e-4` (outside the primitive domain P) is treated as its start point, the same scene scaled by
`1000` is not; the parameter of the closest point on segment 1 jumps from 0 to 1. -/
theorem seg_to_seg_scale_needs_branch_stability :
    ∃ (s1 e1 s2 e2 : V) (k : ℝ) (r r' : Res ℝ), 0 < k ∧
      segToSeg s1 e1 s2 e2 = .ok r ∧ segToSeg (k * s1) (k * e1) (k * s2) (k * e2) = .ok r' ∧
      r.br = 1 ∧ r.t1 = 0 ∧ r'.br = 5 ∧ r'.t1 = 1 :=
  segToSeg_scale_needs_branch_stability

/-- **`_point_to_plane`** (signed or not): rigid equivariance, homogeneity for `k ≥ 0`. -/
theorem point_to_plane_equivariant {g : Pose ℝ} (hg : Orthonormal g.R) {k : ℝ} (hk : 0 ≤ k)
    (p pp pn : V) (signed : Bool) :
    pointToPlaneK (g.apply p) (g.apply pp) (g.R.mulVec pn) signed =
      ((pointToPlaneK p pp pn signed).1, g.apply (pointToPlaneK p pp pn signed).2) ∧
    pointToPlaneK (k * p) (k * pp) pn signed =
      (k * (pointToPlaneK p pp pn signed).1, k * (pointToPlaneK p pp pn signed).2) :=
  ⟨pointToPlaneK_rigid hg p pp pn signed, pointToPlaneK_scale hk p pp pn signed⟩

example : pointToPlaneK (pose345.apply ⟨1, 2, 3⟩) (pose345.apply ⟨0, 0, 0⟩) (pose345.R.mulVec ⟨0, 0, 1⟩) false =
    ((pointToPlaneK ⟨1, 2, 3⟩ ⟨0, 0, 0⟩ ⟨0, 0, 1⟩ false).1,
      pose345.apply (pointToPlaneK ⟨1, 2, 3⟩ ⟨0, 0, 0⟩ ⟨0, 0, 1⟩ false).2) :=
  (point_to_plane_equivariant (g := pose345) rot345_orth (k := 2) (by norm_num) _ _ _ _).1

/-- **`point_to_box`** (local-frame evaluation through `inverse_transform_point`): moving the point
by `g` and the box pose to `g · box2origin` leaves the distance unchanged and moves the closest point
(the box pose itself need not be orthonormal for this); scaling point, box position and size by
`k ≥ 0` scales the result. -/
theorem point_to_box_equivariant {g : Pose ℝ} (hg : Orthonormal g.R) {k : ℝ} (hk : 0 ≤ k)
    (p : V) (A : Pose ℝ) (size : V) :
    pointToBox (g.apply p) (compose g A) size =
      ((pointToBox p A size).1, g.apply (pointToBox p A size).2) ∧
    pointToBox (k * p) ⟨A.R, k * A.t⟩ (k * size) =
      (k * (pointToBox p A size).1, k * (pointToBox p A size).2) :=
  ⟨pointToBox_rigid hg p A size, pointToBox_scale hk p A size⟩

example : pointToBox (pose345.apply ⟨5, 2, 3⟩) (compose pose345 pose345) ⟨1, 2, 3⟩ =
    ((pointToBox ⟨5, 2, 3⟩ pose345 ⟨1, 2, 3⟩).1, pose345.apply (pointToBox ⟨5, 2, 3⟩ pose345 ⟨1, 2, 3⟩).2) :=
  (point_to_box_equivariant (g := pose345) rot345_orth (k := 2) (by norm_num) _ _ _).1

/-- **Local-frame support functions** (`support_function_{cylinder,capsule,ellipsoid,box,cone}` of
geometry.py all have the form `transform_point(pose, local(R.T d))`): for *every* local rule, rotating
the direction and composing the pose with `g` moves the support point by `g`; instance: the capsule. -/
theorem local_frame_support_equivariant {g : Pose ℝ} (hg : Orthonormal g.R) (A : Pose ℝ) (d : V) :
    (∀ f : V → V, localFrameSupport (compose g A) f (g.R.mulVec d) = g.apply (localFrameSupport A f d)) ∧
    (∀ r h : ℝ, supportCapsule (g.R.mulVec d) (compose g A) r h = g.apply (supportCapsule d A r h)) :=
  ⟨fun f => localFrameSupport_rigid hg A f d, fun r h => supportCapsule_rigid hg A d r h⟩

example : supportCapsule (rot345.mulVec ⟨1, 1, 1⟩) (compose pose345 pose345) 0.5 2 =
    pose345.apply (supportCapsule ⟨1, 1, 1⟩ pose345 0.5 2) :=
  (local_frame_support_equivariant rot345_orth _ _).2 _ _

/-- **Relative pose of the Nesterov support function** (`oR1 = R0ᵀ R1`, `ot1 = R0ᵀ (c1 − t0)`):
it equals `invert_transform(A0) · A1` and does not change under a common rigid motion of both colliders. -/
theorem relative_pose_invariant {g : Pose ℝ} (hg : Orthonormal g.R) (A0 A1 : Pose ℝ) :
    relativePose A0 A1 = compose (invertTransform A0) A1 ∧
    relativePose (compose g A0) (compose g A1) = relativePose A0 A1 :=
  ⟨relativePose_eq A0 A1, relativePose_rigid hg A0 A1⟩

example : relativePose (compose pose345 pose345) (compose pose345 Pose.id) = relativePose pose345 Pose.id :=
  (relative_pose_invariant rot345_orth _ _).2

end C12
end D3
