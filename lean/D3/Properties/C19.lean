/-
C19 — narrow-phase queries always terminate with finite results on valid input.

What is proved here (for all inputs):
* every iteration-capped loop runs its body at most `cap` times (`capped_loop_bound`), and the
  number of collider-level support evaluations that follows from the caps *currently in the
  source* (read from D3.Gen.Constants, regenerated on every run) is ≤ 1000 for
  gjk_intersection_libccd, the capped parts of MPR, EPA and both Nesterov variants;
* the two unbounded `while True` loops of the Jolt GJK cannot run forever: every continuing
  iteration contracts the squared length by the factor (1-ε) while it stays above tol², which
  gives the explicit bound `n·ε·tol² < |v₀|²`;
* mesh hill climbing (after repair e900ae9) makes at most #vertices − 1 moves from any start
  vertex — in exact reals and in ANY arithmetic whose `<` is a strict order with
  `thr < a - b → b < a` (floating point included); before the repair it could cycle forever.
What is NOT proved (see PARTIAL in harness/props/c19.py): "≤ 1000 support evaluations" for
the unbounded loops (the measure above gives ~1e17, not 1000), UNCONDITIONAL termination of
MPR's `_refine_portal` (proved: what a continuing pass establishes, the monotone ray-crossing
quantity, and an iteration bound conditional on a barycentric-weight hypothesis) and termination of
the original GJK's main loop; these are explored by the counting proxy.
-/
import D3.Proofs.Termination
import D3.Proofs.TerminationHill
import D3.Proofs.TerminationMpr
import D3.Gen.Constants

namespace D3
namespace C19
open Term

/-- **capped loops.** -/
theorem capped_loop_bound {σ : Type} (body : σ → σ × Bool) (cap : Nat) (s : σ) :
    (runCapped body cap s 0).2 ≤ cap := by
  have := runCapped_count_le body cap s 0; omega

/-! Collider-level support evaluations implied by the caps (one `minkowski.support_function`
= one support evaluation on each of the two colliders). The formulas are read off the code:
libccd: `for _ in range(max_iterations)`, one Minkowski support per iteration;
MPR `_discover_portal`: v1, v2, then ≤ `max_iterations` loop bodies;
MPR `_find_penetration_info`: bodies for `iterations = 0 … max_iterations + 1`;
EPA: `for iteration in range(max_iter)`, one support on each collider per iteration;
Nesterov: `while i < max_interations`, one support pair per pass; `i` is incremented on every pass
except the single pass on which the acceleration is switched off (`continue` without `i += 1`;
both `continue` sites set `use_nesterov_acceleration = False`, so this happens at most once):
at most `max_interations + 1` passes. -/
def libccdEvals (cap : Nat) : Nat := 2 * cap
def mprDiscoverEvals (cap : Nat) : Nat := 2 * (2 + cap)
def mprPenetrationInfoEvals (cap : Nat) : Nat := 2 * (cap + 2)
def epaEvals (cap : Nat) : Nat := 2 * cap
def nesterovEvals (cap : Nat) : Nat := 2 * (cap + 1)

theorem libccd_support_evals_le :
    libccdEvals Gen.gjk__gjk_libccd__gjk_intersection_libccd__max_iterations ≤ 1000 := by decide

theorem mpr_discover_support_evals_le :
    mprDiscoverEvals Gen.mpr__mpr_intersection__max_iterations ≤ 1000 ∧
    mprDiscoverEvals Gen.mpr__mpr_penetration__max_iterations ≤ 1000 := by decide

/-- the two capped stages of `mpr_penetration` together -/
theorem mpr_penetration_capped_evals_le :
    mprDiscoverEvals Gen.mpr__mpr_penetration__max_iterations +
      mprPenetrationInfoEvals Gen.mpr__mpr_penetration__max_iterations ≤ 1000 := by decide

theorem epa_support_evals_le : epaEvals Gen.epa__epa__max_iter ≤ 1000 := by decide

theorem nesterov_support_evals_le :
    nesterovEvals Gen.gjk__gjk_nesterov_accelerated__gjk_nesterov_accelerated__max_interations ≤ 1000 ∧
    nesterovEvals
      Gen.gjk__gjk_nesterov_accelerated_primitives__gjk_nesterov_accelerated_primitives__max_interations
      ≤ 1000 := by decide

/-- **Jolt distance loop terminates.** For the exit logic of `_distance_loop` (model
`Term.distStep`), any positive tolerance, any ε ∈ (0,1): a run in which the first `n ≥ 1`
iterations all return `Unknown` satisfies `n · ε · tol² < prev₀` — so the `while True` loop of
`gjk_distance_jolt` cannot spin forever, whatever the support mappings return. -/
theorem jolt_distance_terminates (eps tolSq maxDistSq : ℝ) (h0 : 0 < eps) (h1 : eps < 1)
    (htol : 0 < tolSq) (steps : List (StepIn ℝ)) (prev v : ℝ) (m : Nat) (hprev : 0 ≤ prev)
    (hv : v ≤ prev) (hne : steps ≠ [])
    (h : distRun eps tolSq maxDistSq prev v steps 0 = (.unknown, m)) :
    (steps.length : ℝ) * eps * tolSq < prev :=
  distRun_iterations_bound eps tolSq maxDistSq h0 h1 htol steps prev v m hprev hv hne h

/-- **Jolt intersection loop terminates** (same statement for `_intersection_loop`). -/
theorem jolt_intersection_terminates (eps tolSq : ℝ) (h0 : 0 < eps) (h1 : eps < 1)
    (htol : 0 < tolSq) (steps : List (StepIn ℝ)) (prev : ℝ) (m : Nat) (hprev : 0 ≤ prev)
    (hne : steps ≠ [])
    (h : interRun eps tolSq prev steps 0 = (.unknown, m)) :
    (steps.length : ℝ) * eps * tolSq < prev :=
  interRun_iterations_bound eps tolSq h0 h1 htol steps prev m hprev hne h

/-- abstract form: no infinite sequence of continuing iterations exists -/
theorem jolt_no_infinite_run (eps tolSq : ℝ) (h0 : 0 < eps) (h1 : eps < 1) (htol : 0 < tolSq)
    (s : ℕ → ℝ) (hs0 : 0 ≤ s 0) : ¬ ∀ k, Continues eps tolSq (s k) (s (k + 1)) :=
  no_infinite_run eps tolSq h0 h1 htol s hs0

/-- **mesh hill climbing** (code after repair e900ae9, exact reals) makes at most `n − 1`
(n = #vertices) moves from any start vertex, for any non-negative threshold, within fuel `n`, and
stops at a vertex none of whose neighbours is better by more than the threshold. -/
theorem hill_climbing_bound (proj : Nat → ℝ) (nbrs : Nat → List Nat) (thr : ℝ) (hthr : 0 ≤ thr)
    (n : Nat) (hn : ∀ i, i < n → ∀ j ∈ nbrs i, j < n) (i : Nat) (hi : i < n) :
    ∃ r, hillClimb proj nbrs thr n i 0 = some r ∧ r.2 + 1 ≤ n ∧ r.1 < n ∧
      ∀ j ∈ nbrs r.1, ¬ (proj r.1 + thr < proj j) :=
  hillClimb_terminates proj nbrs thr hthr n hn i hi n (le_refl _)

example :=
  hill_climbing_bound (fun i => (i : ℝ)) (fun i => [(i + 1) % 3, (i + 2) % 3]) 0.5 (by norm_num) 3
    (by intro i _ j hj; simp at hj; omega) 0 (by omega)

/-- **mesh hill climbing terminates in ANY arithmetic** (the statement that covers floating
point): for every scalar type `α` with arbitrary `-` and `<`, if `<` is irreflexive and transitive
and `thr < a - b → b < a` (IEEE-754 comparison/subtraction for `thr ≥ 0` or NaN; with NaN operands
every comparison is false and no move is accepted), the climb on the ONE computed projection per
vertex makes at most `n − 1` moves within fuel `n`. Nothing is assumed about how the projections
were computed. (Model-level version on the real data structures:
`C03.hillClimb_terminates_strictOrder`.) -/
theorem hill_climbing_bound_anyArith {α : Type} [Add α] [Sub α] [Mul α] [Div α] [Neg α] [LT α]
    [LE α] [DecidableLT α] [DecidableLE α] [DecidableEq α] [OfNat α 0] [OfNat α 1] [OfNat α 2]
    [OfScientific α] [Min α] [Max α] [HasSqrt α]
    (proj : Nat → α) (nbrs : Nat → List Nat) (thr : α)
    (lt_irrefl : ∀ a : α, ¬ a < a) (lt_trans : ∀ a b c : α, a < b → b < c → a < c)
    (sub_pos : ∀ a b : α, thr < a - b → b < a)
    (n : Nat) (hn : ∀ i, i < n → ∀ j ∈ nbrs i, j < n) (i : Nat) (hi : i < n) (fuel : Nat)
    (hfuel : n ≤ fuel) :
    ∃ r, hillClimb proj nbrs thr fuel i 0 = some r ∧ r.2 + 1 ≤ n ∧ r.1 < n ∧
      ∀ j ∈ nbrs r.1, ¬ (thr < proj j - proj r.1) :=
  hillClimb_terminates_strictOrder proj nbrs thr lt_irrefl lt_trans sub_pos n hn i hi fuel hfuel

example :=
  hill_climbing_bound_anyArith (α := Rat) (fun i => (i : Rat)) (fun i => [(i + 1) % 3, (i + 2) % 3]) 0
    (fun a => lt_irrefl a) (fun _ _ _ h1 h2 => lt_trans h1 h2) (fun a b h => sub_pos.mp h) 3
    (by intro i _ j hj; simp at hj; omega) 0 (by omega) 3 (le_refl _)

/-- **the defect repaired by e900ae9 (F-mesh-hill-climb-cycle), abstractly**: before the repair the
improvement was a separately computed quantity per ordered pair (`fl(d · fl(v_j − v_i))`); as soon
as these exceed the threshold around a cycle — rounding noise of vertices with equal projections
does — the climb exhausts every fuel. (Concrete arithmetic and mesh:
`C03.hillClimb_asIs_before_fix_counterexample`.) -/
theorem hill_climbing_asIs_before_fix_counterexample {β : Type} [LT β] [DecidableLT β]
    (gain : Nat → Nat → β) (thr : β) (h01 : thr < gain 0 1) (h12 : thr < gain 1 2)
    (h20 : thr < gain 2 0) (fuel : Nat) :
    hillClimb_asIs_before_fix gain (fun i => [(i + 1) % 3]) thr fuel 0 0 = none :=
  hillClimb_asIs_before_fix_cycles gain thr h01 h12 h20 fuel 0 0 (by omega)

example : hillClimb_asIs_before_fix (fun _ _ => (2 : Int)) (fun i => [(i + 1) % 3]) 1 1000 0 0 = none :=
  hill_climbing_asIs_before_fix_counterexample _ _ (by decide) (by decide) (by decide) 1000

/-! ### MPR portal refinement (`mpr._refine_portal`, `mpr._find_penetration_info`) -/

/-- **what a continuing pass of `_refine_portal` establishes** (exit logic `Term.refineStep`):
the portal plane does not yet contain the origin (`v1·dir ≤ −10·EPSILON`), the new support point
does (`v4·dir > −10·EPSILON`) and lies beyond each of the three portal vertices by at least
`mpr_tolerance + EPSILON` along the current portal direction. -/
theorem refine_portal_continue_gap (eps tol : ℝ) (o : PortalObs ℝ)
    (h : refineStep eps tol o = .unknown) :
    o.d1 ≤ -(10.0 * eps) ∧ -(10.0 * eps) < o.d4 ∧
      tol + eps ≤ o.d4 - o.d1 ∧ tol + eps ≤ o.d4 - o.d2 ∧ tol + eps ≤ o.d4 - o.d3 :=
  refineStep_unknown eps tol o h

example : refineStep (0 : ℝ) 1 ⟨-1, -1, -1, 1⟩ = .unknown := by
  unfold refineStep; norm_num

/-- **the monotone quantity of portal refinement** (exact geometry, any direction `n`, no
normalisation needed).  The portal direction changes on every pass, so `v1·dir` is not comparable
between passes; what is monotone is the parameter `s` at which the origin ray `t ↦ t·v0` crosses
the portal plane.  If the two kept portal vertices `a`, `b` lie in the current plane
(`a·n = b·n = h`), the current crossing is `s·v0`, the new support point is beyond the plane by
`gap`, and the ray crosses the new triangle `(a, b, v4)` at `s'·v0` with barycentric weights
`l1, l2, l3 ≥ 0` — then `(s' − s)·(v0·n) ≥ l3·gap`.  With `v0·n < 0` (v0 is behind the portal) this
says `s` decreases by at least `l3·gap/|v0·n|`: the crossing moves towards and past the origin. -/
theorem mpr_portal_crossing_progress (n v0 a b v4 : V) (h s s' l1 l2 l3 gap : ℝ)
    (ha : V3.dot a n = h) (hb : V3.dot b n = h) (h4 : h + gap ≤ V3.dot v4 n)
    (hs : V3.dot (s * v0) n = h)
    (hs' : s' * v0 = l1 * a + l2 * b + l3 * v4)
    (hsum : l1 + l2 + l3 = 1) (hl3 : 0 ≤ l3) :
    l3 * gap ≤ (s' - s) * V3.dot v0 n :=
  portal_crossing_progress n v0 a b v4 h s s' l1 l2 l3 gap ha hb h4 hs hs' hsum hl3

example :=
  mpr_portal_crossing_progress ⟨0, 0, 1⟩ ⟨0, 0, -1⟩ ⟨1, 0, -(1/2)⟩ ⟨-1, 0, -(1/2)⟩ ⟨0, 0, 1/2⟩
    (-(1/2)) (1/2) 0 (1/4) (1/4) (1/2) 1
    (by simp [V3.dot_def]) (by simp [V3.dot_def]) (by simp [V3.dot_def]; norm_num)
    (by simp [V3.dot_def]) (by apply V3.ext' <;> norm_num) (by norm_num) (by norm_num)

/-- **`_refine_portal` iteration bound, CONDITIONAL on a weight hypothesis.**  `obs k` are the dot
products pass `k` looks at, `d0 k = v0·dir_k`, `s k` the crossing parameter of the origin ray with
the portal plane of pass `k` (`s k · d0 k = v1·dir_k`).  Hypotheses: the first `N` passes all
continue; `v0` is behind every portal plane and `|v0·dir_k| ≤ D` (true with `D = |v0|` since `dir`
is a unit vector); and — the hypothesis that is NOT derived from the code — in every pass the new
support point enters the next crossing point with barycentric weight at least `lam > 0`, which by
`mpr_portal_crossing_progress` gives `hprog`.  Then every continuing pass `k` satisfies
`k · lam · (mpr_tolerance + EPSILON) ≤ s₀ · D`: at most `s₀·D / (lam·(tol+EPSILON)) + 1` passes. -/
theorem refine_portal_terminates_conditional (eps tol lam D : ℝ) (heps : 0 ≤ eps)
    (htol : 0 < tol + eps) (hlam : 0 < lam) (obs : ℕ → PortalObs ℝ) (s d0 : ℕ → ℝ) (N : ℕ)
    (hcont : ∀ k, k < N → refineStep eps tol (obs k) = .unknown)
    (hd0 : ∀ k, k < N → d0 k < 0 ∧ -D ≤ d0 k)
    (hplane : ∀ k, k < N → s k * d0 k = (obs k).d1)
    (hprog : ∀ k, k < N → lam * ((obs k).d4 - (obs k).d1) ≤ (s (k + 1) - s k) * d0 k) :
    ∀ k, k < N → (k : ℝ) * (lam * (tol + eps)) ≤ s 0 * D :=
  refine_iterations_bound eps tol lam D heps htol hlam obs s d0 N hcont hd0 hplane hprog

/-- hypotheses satisfiable: two continuing passes, crossing parameter 1, 3/4, 1/2 -/
example :=
  refine_portal_terminates_conditional 0 1 (1/8) 1 (le_refl _) (by norm_num) (by norm_num)
    (fun k => ⟨(k : ℝ) / 4 - 1, (k : ℝ) / 4 - 1, (k : ℝ) / 4 - 1, (k : ℝ) / 4 + 1⟩)
    (fun k => 1 - (k : ℝ) / 4) (fun _ => -1) 2
    (by intro k hk; have hk' : k = 0 ∨ k = 1 := by omega
        rcases hk' with rfl | rfl <;> (unfold refineStep; norm_num))
    (by intro k _; norm_num)
    (by intro k _; ring)
    (by intro k _; push_cast; ring_nf; norm_num)

/-- **`_find_penetration_info` is capped**: whatever the support mappings return, the loop body
(one Minkowski support evaluation each) runs at most `max_iterations + 2` times — the count behind
`mprPenetrationInfoEvals`. -/
theorem find_penetration_info_capped_bound (eps tol : ℝ) (maxIter : Nat)
    (l : List (PortalObs ℝ)) : (penInfoRun eps tol maxIter l 0).2 ≤ maxIter + 2 :=
  penInfoRun_count_le eps tol maxIter l 0 (by omega)

example : penInfoRun (0 : Rat) 1 1 (List.replicate 10 ⟨-1, -1, -1, 1⟩) 0 = (true, 3) := by
  decide +kernel

/-- non-vacuity: a concrete continuing step and a concrete exit of the modelled exit logic -/
example : (distStep (1e-3 : Rat) 1e-6 100000 4 4 ⟨1, true, 1, false, 9⟩).1 = .unknown := by
  decide +kernel
example : (distStep (1e-3 : Rat) 1e-6 100000 1 1 ⟨1, true, 0.9999, false, 9⟩).1 = .noIntersection := by
  decide +kernel

end C19
end D3
