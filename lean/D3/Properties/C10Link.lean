/-
C10 ↔ C03 — cross-property LINK theorems for `plane_to_ellipsoid` and `plane_to_cylinder`
(`distance/_plane.py`).

`D3/Properties/C10.lean` proves the tail of the two functions (`planeToSupportPair_spec/_feas/_ok`:
`_plane_to_convex_hull_points` applied to the two support points of **any** convex body `K` in the directions
`−n`, `+n`).  `D3/Properties/C03.lean` proves that the modelled `support_function_ellipsoid` /
`support_function_cylinder` return support points of the solid ellipsoid / solid cylinder
(`ellipsoid_support`, `cylinder_support`).  This file composes them on the **whole** functions

  `planeToEllipsoid pp n A radii`, `planeToCylinder pp n A r l`   (`D3/Proofs/DistLineSupportLink.lean`):

  `point1 = support_function_X(-plane_normal, X2origin, …)`, `point2 = support_function_X(plane_normal, …)`,
  `return _plane_to_convex_hull_points(plane_point, plane_normal, np.vstack((point1, point2)))`

(argument order of the cylinder call `(search_direction, cylinder2origin, radius, length)` =
`Support.supportCylinder d A radius length`).  The sets are C03's:
`poseImage A (Support.ellipsoidLocalSet radii)` (`Σ (qᵢ/rᵢ)² ≤ 1` in the body frame) and
`poseImage A (Support.cylinderLocalSet r l)` (`x² + y² ≤ r²`, `|z| ≤ l/2`; `l` is the full length).

Per function:
* `…_ok`    — total (`.ok`) for every input;
* `…_feas`  — every placement: point on the plane, point in the solid, `d² = |p₁ − p₂|²`, `d ≥ 0`;
* `…_spec`  — the same plus global optimality `LowerBound`, under the band hypothesis `HullNoBand` of the tail
              for the two support points;
* `…_spec_of_side` — the band hypothesis discharged when the plane does not cut the solid;
* `…_spec_orthonormal` — **no band hypothesis at all**: for an orthonormal pose and bounded aspect ratio
              (radii within a factor 1000; cylinder diameter/length within a factor 999) the two support points
              are never inside the `sin² < 1e-6` band of `_line_segment_to_plane`.
Convexity of the two solids (`ellipsoidSet_convex`, `cylinderSet_convex`) holds for every pose matrix.
-/
import D3.Properties.C10
import D3.Properties.C03
import D3.Proofs.DistLineSupportLink

namespace D3
namespace C10Link
open DistLine

/-! ### concrete input used by the non-vacuity examples: rotation by the 3-4-5 angle about `x`, centre `(1,2,3)` -/

noncomputable def exPose : Pose ℝ := ⟨⟨⟨1, 0, 0⟩, ⟨0, 3 / 5, -4 / 5⟩, ⟨0, 4 / 5, 3 / 5⟩⟩, ⟨1, 2, 3⟩⟩

theorem exPose_orth : Orthonormal exPose.R := by
  constructor <;> norm_num [exPose, V3.dot_def, M3.col0, M3.col1, M3.col2]

/-- the plane `z = −5` with its unit normal -/
theorem exNormal_unit : UnitVec (⟨0, 0, 1⟩ : V) := by unfold UnitVec; vsimp; norm_num

/-- a tilted unit normal -/
theorem exTilt_unit : UnitVec (⟨0, 3 / 5, 4 / 5⟩ : V) := by unfold UnitVec; vsimp; norm_num

/-! ## convexity of C03's solids -/

/-- **The solid ellipsoid of C03 is convex** (closed under segments), for every pose matrix and every `radii`. -/
theorem ellipsoidSet_convex (A : Pose ℝ) (radii : V) :
    DistLine.ConvexSet (poseImage A (Support.ellipsoidLocalSet radii)) :=
  convex_ellipsoidSet A radii

example : DistLine.ConvexSet (poseImage exPose (Support.ellipsoidLocalSet ⟨1, 2, 3⟩)) :=
  ellipsoidSet_convex _ _

/-- **The solid cylinder of C03 is convex**, for every pose matrix, radius and length. -/
theorem cylinderSet_convex (A : Pose ℝ) (r l : ℝ) :
    DistLine.ConvexSet (poseImage A (Support.cylinderLocalSet r l)) :=
  convex_cylinderSet A r l

example : DistLine.ConvexSet (poseImage exPose (Support.cylinderLocalSet 1 2)) :=
  cylinderSet_convex _ _ _

/-- the image of any convex set under any pose `q ↦ R q + t` is convex -/
theorem poseImage_convex {K : V → Prop} (hK : DistLine.ConvexSet K) (A : Pose ℝ) :
    DistLine.ConvexSet (poseImage A K) :=
  convex_poseImage hK A

example : DistLine.ConvexSet (poseImage exPose (Support.cylinderLocalSet 1 2)) :=
  poseImage_convex (convex_cylinderLocalSet 1 2) _

/-! ## `plane_to_ellipsoid` -/

/-- **`plane_to_ellipsoid` is total**: no division by zero, no out-of-range index, for every input. -/
theorem planeToEllipsoid_ok (pp n : V) (A : Pose ℝ) (radii : V) :
    ∃ r, planeToEllipsoid pp n A radii = .ok r :=
  C10.planeToSupportPair_ok pp n _ _

example : ∃ r, planeToEllipsoid (⟨0, 0, -5⟩ : V) ⟨0, 0, 1⟩ exPose ⟨1, 2, 3⟩ = .ok r :=
  planeToEllipsoid_ok _ _ _ _

/-- **`plane_to_ellipsoid`, every placement** (also inside the band): for a unit normal and positive radii the
first returned point is on the plane, the second is in the solid ellipsoid, and the returned distance is the
distance of the two points. -/
theorem planeToEllipsoid_feas {pp n : V} {A : Pose ℝ} {radii : V} {r : Res3 ℝ}
    (h : planeToEllipsoid pp n A radii = .ok r) (hu : UnitVec n)
    (hx : 0 < radii.x) (hy : 0 < radii.y) (hz : 0 < radii.z) :
    planeSet pp n r.p1 ∧ poseImage A (Support.ellipsoidLocalSet radii) r.p2 ∧
      (r.d * r.d = V3.normSq (r.p1 - r.p2) ∧ 0 ≤ r.d) :=
  C10.planeToSupportPair_feas h hu (convex_ellipsoidSet A radii)
    (C03.ellipsoid_support (-n) A radii hx hy hz).1 (C03.ellipsoid_support n A radii hx hy hz).1

example : ∃ r, planeToEllipsoid (⟨1, 2, 3⟩ : V) ⟨0, 3 / 5, 4 / 5⟩ exPose ⟨1, 2, 3⟩ = .ok r ∧
    planeSet (⟨1, 2, 3⟩ : V) ⟨0, 3 / 5, 4 / 5⟩ r.p1 ∧
    poseImage exPose (Support.ellipsoidLocalSet ⟨1, 2, 3⟩) r.p2 ∧
    (r.d * r.d = V3.normSq (r.p1 - r.p2) ∧ 0 ≤ r.d) := by
  obtain ⟨r, hr⟩ := planeToEllipsoid_ok (⟨1, 2, 3⟩ : V) ⟨0, 3 / 5, 4 / 5⟩ exPose ⟨1, 2, 3⟩
  exact ⟨r, hr, planeToEllipsoid_feas hr exTilt_unit (by norm_num) (by norm_num) (by norm_num)⟩

/-- **`plane_to_ellipsoid`** outside the band (`HullNoBand` for the two support points the function computes):
point on the plane, point in the solid ellipsoid, consistent distance, and no point of the plane is closer to any
point of the solid ellipsoid than the returned distance. -/
theorem planeToEllipsoid_spec {pp n : V} {A : Pose ℝ} {radii : V} {r : Res3 ℝ}
    (h : planeToEllipsoid pp n A radii = .ok r) (hu : UnitVec n)
    (hx : 0 < radii.x) (hy : 0 < radii.y) (hz : 0 < radii.z)
    (hband : HullNoBand pp n
      [(Support.supportEllipsoid (-n) A radii).2, (Support.supportEllipsoid n A radii).2]) :
    planeSet pp n r.p1 ∧ poseImage A (Support.ellipsoidLocalSet radii) r.p2 ∧
      (r.d * r.d = V3.normSq (r.p1 - r.p2) ∧ 0 ≤ r.d) ∧
      LowerBound (planeSet pp n) (poseImage A (Support.ellipsoidLocalSet radii)) r.d :=
  C10.planeToSupportPair_spec h hu (convex_ellipsoidSet A radii)
    (C03.ellipsoid_support (-n) A radii hx hy hz) (C03.ellipsoid_support n A radii hx hy hz) hband

/-- the band hypothesis is satisfiable on a plane that cuts the rotated ellipsoid through its centre -/
example : HullNoBand (⟨1, 2, 3⟩ : V) ⟨0, 3 / 5, 4 / 5⟩
    [(Support.supportEllipsoid (-(⟨0, 3 / 5, 4 / 5⟩ : V)) exPose ⟨1, 2, 3⟩).2,
     (Support.supportEllipsoid (⟨0, 3 / 5, 4 / 5⟩ : V) exPose ⟨1, 2, 3⟩).2] :=
  ellipsoid_hullNoBand exPose_orth exTilt_unit _ 1 3 one_pos (by norm_num) (by norm_num) (by norm_num)
    (by norm_num) _

/-- **`plane_to_ellipsoid` when the plane does not cut the ellipsoid** (the solid lies in one closed half space
of the plane; any pose matrix): the band hypothesis holds automatically, full statement. -/
theorem planeToEllipsoid_spec_of_side {pp n : V} {A : Pose ℝ} {radii : V} {r : Res3 ℝ}
    (h : planeToEllipsoid pp n A radii = .ok r) (hu : UnitVec n)
    (hx : 0 < radii.x) (hy : 0 < radii.y) (hz : 0 < radii.z)
    (hside : (∀ x, poseImage A (Support.ellipsoidLocalSet radii) x → 0 ≤ V3.dot (x - pp) n) ∨
      (∀ x, poseImage A (Support.ellipsoidLocalSet radii) x → V3.dot (x - pp) n ≤ 0)) :
    planeSet pp n r.p1 ∧ poseImage A (Support.ellipsoidLocalSet radii) r.p2 ∧
      (r.d * r.d = V3.normSq (r.p1 - r.p2) ∧ 0 ≤ r.d) ∧
      LowerBound (planeSet pp n) (poseImage A (Support.ellipsoidLocalSet radii)) r.d :=
  planeToEllipsoid_spec h hu hx hy hz
    (hullNoBand_pair_of_side (C03.ellipsoid_support (-n) A radii hx hy hz)
      (C03.ellipsoid_support n A radii hx hy hz) hside)

/-- rotated ellipsoid with radii `(1,2,3)` about `(1,2,3)` above the plane `z = −5` -/
example : ∃ r, planeToEllipsoid (⟨0, 0, -5⟩ : V) ⟨0, 0, 1⟩ exPose ⟨1, 2, 3⟩ = .ok r ∧
    planeSet (⟨0, 0, -5⟩ : V) ⟨0, 0, 1⟩ r.p1 ∧ poseImage exPose (Support.ellipsoidLocalSet ⟨1, 2, 3⟩) r.p2 ∧
    (r.d * r.d = V3.normSq (r.p1 - r.p2) ∧ 0 ≤ r.d) ∧
    LowerBound (planeSet (⟨0, 0, -5⟩ : V) ⟨0, 0, 1⟩) (poseImage exPose (Support.ellipsoidLocalSet ⟨1, 2, 3⟩)) r.d := by
  obtain ⟨r, hr⟩ := planeToEllipsoid_ok (⟨0, 0, -5⟩ : V) ⟨0, 0, 1⟩ exPose ⟨1, 2, 3⟩
  refine ⟨r, hr, planeToEllipsoid_spec_of_side hr exNormal_unit (by norm_num) (by norm_num) (by norm_num)
    (Or.inl ?_)⟩
  rintro x ⟨q, hq, rfl⟩
  unfold Support.ellipsoidLocalSet at hq
  simp only [exPose, Pose.apply, M3.mulVec, V3.dot_def, V3.add_z, V3.sub_x, V3.sub_y, V3.sub_z]
  nlinarith [mul_self_nonneg (q.x / 1), mul_self_nonneg (q.y / 2 + 1), mul_self_nonneg (q.z / 3 + 1)]

/-- **`plane_to_ellipsoid`, no band hypothesis**: for an orthonormal pose, a unit normal and radii in `[lo, hi]`
with `0 < lo`, `hi ≤ 1000·lo`, for **every** plane (cutting the ellipsoid or not): point on the plane, point in
the solid ellipsoid, consistent distance, global optimality. -/
theorem planeToEllipsoid_spec_orthonormal {pp n : V} {A : Pose ℝ} {radii : V} {r : Res3 ℝ}
    (h : planeToEllipsoid pp n A radii = .ok r) (hu : UnitVec n) (hA : Orthonormal A.R)
    {lo hi : ℝ} (hlo : 0 < lo) (hhi : hi ≤ 1000 * lo) (hx : lo ≤ radii.x ∧ radii.x ≤ hi)
    (hy : lo ≤ radii.y ∧ radii.y ≤ hi) (hz : lo ≤ radii.z ∧ radii.z ≤ hi) :
    planeSet pp n r.p1 ∧ poseImage A (Support.ellipsoidLocalSet radii) r.p2 ∧
      (r.d * r.d = V3.normSq (r.p1 - r.p2) ∧ 0 ≤ r.d) ∧
      LowerBound (planeSet pp n) (poseImage A (Support.ellipsoidLocalSet radii)) r.d :=
  planeToEllipsoid_spec h hu (lt_of_lt_of_le hlo hx.1) (lt_of_lt_of_le hlo hy.1) (lt_of_lt_of_le hlo hz.1)
    (ellipsoid_hullNoBand hA hu radii lo hi hlo hhi hx hy hz pp)

/-- a tilted plane through the centre of the rotated ellipsoid -/
example : ∃ r, planeToEllipsoid (⟨1, 2, 3⟩ : V) ⟨0, 3 / 5, 4 / 5⟩ exPose ⟨1, 2, 3⟩ = .ok r ∧
    planeSet (⟨1, 2, 3⟩ : V) ⟨0, 3 / 5, 4 / 5⟩ r.p1 ∧
    poseImage exPose (Support.ellipsoidLocalSet ⟨1, 2, 3⟩) r.p2 ∧
    (r.d * r.d = V3.normSq (r.p1 - r.p2) ∧ 0 ≤ r.d) ∧
    LowerBound (planeSet (⟨1, 2, 3⟩ : V) ⟨0, 3 / 5, 4 / 5⟩)
      (poseImage exPose (Support.ellipsoidLocalSet ⟨1, 2, 3⟩)) r.d := by
  obtain ⟨r, hr⟩ := planeToEllipsoid_ok (⟨1, 2, 3⟩ : V) ⟨0, 3 / 5, 4 / 5⟩ exPose ⟨1, 2, 3⟩
  exact ⟨r, hr, planeToEllipsoid_spec_orthonormal hr exTilt_unit exPose_orth (lo := 1) (hi := 3) one_pos
    (by norm_num) (by norm_num) (by norm_num) (by norm_num)⟩

/-! ## `plane_to_cylinder` -/

/-- **`plane_to_cylinder` is total** for every input. -/
theorem planeToCylinder_ok (pp n : V) (A : Pose ℝ) (r l : ℝ) :
    ∃ res, planeToCylinder pp n A r l = .ok res :=
  C10.planeToSupportPair_ok pp n _ _

example : ∃ res, planeToCylinder (⟨0, 0, -5⟩ : V) ⟨0, 0, 1⟩ exPose 1 2 = .ok res :=
  planeToCylinder_ok _ _ _ _ _

/-- **`plane_to_cylinder`, every placement** (also inside the band): for a unit normal, `0 ≤ radius`,
`0 ≤ length`: point on the plane, point in the solid cylinder, consistent distance. -/
theorem planeToCylinder_feas {pp n : V} {A : Pose ℝ} {r l : ℝ} {res : Res3 ℝ}
    (h : planeToCylinder pp n A r l = .ok res) (hu : UnitVec n) (hr : 0 ≤ r) (hl : 0 ≤ l) :
    planeSet pp n res.p1 ∧ poseImage A (Support.cylinderLocalSet r l) res.p2 ∧
      (res.d * res.d = V3.normSq (res.p1 - res.p2) ∧ 0 ≤ res.d) :=
  C10.planeToSupportPair_feas h hu (convex_cylinderSet A r l)
    (C03.cylinder_support (-n) A r l hr hl).1 (C03.cylinder_support n A r l hr hl).1

example : ∃ res, planeToCylinder (⟨1, 2, 3⟩ : V) ⟨0, 3 / 5, 4 / 5⟩ exPose 1 2 = .ok res ∧
    planeSet (⟨1, 2, 3⟩ : V) ⟨0, 3 / 5, 4 / 5⟩ res.p1 ∧
    poseImage exPose (Support.cylinderLocalSet 1 2) res.p2 ∧
    (res.d * res.d = V3.normSq (res.p1 - res.p2) ∧ 0 ≤ res.d) := by
  obtain ⟨res, hres⟩ := planeToCylinder_ok (⟨1, 2, 3⟩ : V) ⟨0, 3 / 5, 4 / 5⟩ exPose 1 2
  exact ⟨res, hres, planeToCylinder_feas hres exTilt_unit (by norm_num) (by norm_num)⟩

/-- **`plane_to_cylinder`** outside the band (`HullNoBand` for the two support points the function computes):
point on the plane, point in the solid cylinder, consistent distance, global optimality against the whole solid
cylinder. -/
theorem planeToCylinder_spec {pp n : V} {A : Pose ℝ} {r l : ℝ} {res : Res3 ℝ}
    (h : planeToCylinder pp n A r l = .ok res) (hu : UnitVec n) (hr : 0 ≤ r) (hl : 0 ≤ l)
    (hband : HullNoBand pp n
      [(Support.supportCylinder (-n) A r l).2, (Support.supportCylinder n A r l).2]) :
    planeSet pp n res.p1 ∧ poseImage A (Support.cylinderLocalSet r l) res.p2 ∧
      (res.d * res.d = V3.normSq (res.p1 - res.p2) ∧ 0 ≤ res.d) ∧
      LowerBound (planeSet pp n) (poseImage A (Support.cylinderLocalSet r l)) res.d :=
  C10.planeToSupportPair_spec h hu (convex_cylinderSet A r l)
    (C03.cylinder_support (-n) A r l hr hl) (C03.cylinder_support n A r l hr hl) hband

/-- the band hypothesis is satisfiable on a plane that cuts the rotated cylinder through its centre -/
example : HullNoBand (⟨1, 2, 3⟩ : V) ⟨0, 3 / 5, 4 / 5⟩
    [(Support.supportCylinder (-(⟨0, 3 / 5, 4 / 5⟩ : V)) exPose 1 2).2,
     (Support.supportCylinder (⟨0, 3 / 5, 4 / 5⟩ : V) exPose 1 2).2] :=
  cylinder_hullNoBand exPose_orth exTilt_unit 1 2 (by norm_num) (by norm_num) (by norm_num) (by norm_num) _

/-- **`plane_to_cylinder` when the plane does not cut the cylinder** (any pose matrix): the band hypothesis holds
automatically, full statement. -/
theorem planeToCylinder_spec_of_side {pp n : V} {A : Pose ℝ} {r l : ℝ} {res : Res3 ℝ}
    (h : planeToCylinder pp n A r l = .ok res) (hu : UnitVec n) (hr : 0 ≤ r) (hl : 0 ≤ l)
    (hside : (∀ x, poseImage A (Support.cylinderLocalSet r l) x → 0 ≤ V3.dot (x - pp) n) ∨
      (∀ x, poseImage A (Support.cylinderLocalSet r l) x → V3.dot (x - pp) n ≤ 0)) :
    planeSet pp n res.p1 ∧ poseImage A (Support.cylinderLocalSet r l) res.p2 ∧
      (res.d * res.d = V3.normSq (res.p1 - res.p2) ∧ 0 ≤ res.d) ∧
      LowerBound (planeSet pp n) (poseImage A (Support.cylinderLocalSet r l)) res.d :=
  planeToCylinder_spec h hu hr hl
    (hullNoBand_pair_of_side (C03.cylinder_support (-n) A r l hr hl) (C03.cylinder_support n A r l hr hl) hside)

/-- rotated cylinder (radius 1, length 2) about `(1,2,3)` above the plane `z = −5` -/
example : ∃ res, planeToCylinder (⟨0, 0, -5⟩ : V) ⟨0, 0, 1⟩ exPose 1 2 = .ok res ∧
    planeSet (⟨0, 0, -5⟩ : V) ⟨0, 0, 1⟩ res.p1 ∧ poseImage exPose (Support.cylinderLocalSet 1 2) res.p2 ∧
    (res.d * res.d = V3.normSq (res.p1 - res.p2) ∧ 0 ≤ res.d) ∧
    LowerBound (planeSet (⟨0, 0, -5⟩ : V) ⟨0, 0, 1⟩) (poseImage exPose (Support.cylinderLocalSet 1 2)) res.d := by
  obtain ⟨res, hres⟩ := planeToCylinder_ok (⟨0, 0, -5⟩ : V) ⟨0, 0, 1⟩ exPose 1 2
  refine ⟨res, hres, planeToCylinder_spec_of_side hres exNormal_unit (by norm_num) (by norm_num) (Or.inl ?_)⟩
  rintro x ⟨q, ⟨hq, hz1, hz2⟩, rfl⟩
  simp only [exPose, Pose.apply, M3.mulVec, V3.dot_def, V3.add_z, V3.sub_x, V3.sub_y, V3.sub_z]
  nlinarith [mul_self_nonneg q.x, mul_self_nonneg (q.y + 1)]

/-- **`plane_to_cylinder`, no band hypothesis**: for an orthonormal pose, a unit normal, `0 ≤ r`, `0 ≤ l` and
diameter and length within a factor 999 of each other, for **every** plane: point on the plane, point in the
solid cylinder, consistent distance, global optimality. -/
theorem planeToCylinder_spec_orthonormal {pp n : V} {A : Pose ℝ} {r l : ℝ} {res : Res3 ℝ}
    (h : planeToCylinder pp n A r l = .ok res) (hu : UnitVec n) (hA : Orthonormal A.R)
    (hr : 0 ≤ r) (hl : 0 ≤ l) (h1 : l ≤ 999 * (2 * r)) (h2 : 2 * r ≤ 999 * l) :
    planeSet pp n res.p1 ∧ poseImage A (Support.cylinderLocalSet r l) res.p2 ∧
      (res.d * res.d = V3.normSq (res.p1 - res.p2) ∧ 0 ≤ res.d) ∧
      LowerBound (planeSet pp n) (poseImage A (Support.cylinderLocalSet r l)) res.d :=
  planeToCylinder_spec h hu hr hl (cylinder_hullNoBand hA hu r l hr hl h1 h2 pp)

/-- a tilted plane through the centre of the rotated cylinder -/
example : ∃ res, planeToCylinder (⟨1, 2, 3⟩ : V) ⟨0, 3 / 5, 4 / 5⟩ exPose 1 2 = .ok res ∧
    planeSet (⟨1, 2, 3⟩ : V) ⟨0, 3 / 5, 4 / 5⟩ res.p1 ∧
    poseImage exPose (Support.cylinderLocalSet 1 2) res.p2 ∧
    (res.d * res.d = V3.normSq (res.p1 - res.p2) ∧ 0 ≤ res.d) ∧
    LowerBound (planeSet (⟨1, 2, 3⟩ : V) ⟨0, 3 / 5, 4 / 5⟩) (poseImage exPose (Support.cylinderLocalSet 1 2)) res.d := by
  obtain ⟨res, hres⟩ := planeToCylinder_ok (⟨1, 2, 3⟩ : V) ⟨0, 3 / 5, 4 / 5⟩ exPose 1 2
  exact ⟨res, hres, planeToCylinder_spec_orthonormal hres exTilt_unit exPose_orth (by norm_num) (by norm_num)
    (by norm_num) (by norm_num)⟩

end C10Link
end D3
