/-
C01 — GJK distance query (placeholder header, filled below)
-/
import D3.Proofs.GjkSpec

namespace D3
namespace C01
end C01
end D3
