/-
C01 — the GJK distance query (`gjk.gjk` = `gjk_distance_jolt`) returns feasible, consistent and
optimal closest points.

Strength S2 (DESIGN §1): universal partial-correctness theorems about the executable model
`D3.GjkJolt.gjkDistance` (the same term the driver runs at `Float`/`Rat`, here at `α := ℝ`) for
**all** convex sets `A`, `B`, all support mappings `sA`, `sB` satisfying the C03 contract
(`IsSupport`), every solver satisfying the C18 contract on the simplices it is handed
(`SolverSpecOn good solve`; `good := fun _ _ => True` is the unconditional `SolverSpec`) and every
iteration count.  `D3/Properties/C01Link.lean` proves the contract for the model of the real
solver (`joltSolver_spec : SolverSpecOn JoltGood joltSolver`, `JoltGood` = the conjunction of the
C18 band exclusions) and restates every theorem below at `joltSolver`/`joltBary`.
Termination is C19; a run that exhausts its fuel is the distinct outcome `Err.fuel` and is never
used to prove anything (all theorems assume `gjkDistance … = .ok res`).

Property theorems only; helper lemmas live in `D3/Proofs/Gjk*.lean`.

Hypotheses, not proved here (see `PARTIAL`/`ASSUMPTIONS` in harness/props/c01.py):
* `IsSupport` (C03) is a contract of the parameters; the solver contract `SolverSpecOn good` is a
  parameter here and proved for `joltSolver` on `JoltGood` in `C01Link`; step-level theorems take
  `good` of the one simplex handed to the solver, function-level theorems take `VisitedGood`
  ("every simplex the run hands to the solver is good"; discharge: `visitedGood_of_minkDiff`);
* `BarySpec` is *proved* for the C18 model of the three barycentric routines
  (`joltBary_spec`) outside their named degenerate bands `jnd2/jnd3/jnd4`;
* the bounds are in exact real arithmetic; `terminates` needs a solver that is total on `good`
  (`joltSolver_total` for the real one).
-/
import D3.Proofs.GjkBary
import D3.Proofs.GjkTerm

namespace D3
namespace C01
open Gjk GjkJolt

/-- everything the theorems assume about the two sets, the support mappings and the solver; the
solver contract is relative to a predicate `good` on the simplices handed to the solver
(`SolverSpecOn`; `good := fun _ _ => True` gives the unconditional `SolverSpec`,
`good := JoltGood` is what the model of the real solver satisfies, see `C01Link`) -/
structure Setup (A B : V → Prop) (good : A4 V → Nat → Prop) (solve : Solver ℝ)
    (sA sB : V → V) : Prop where
  convA : ConvexSet A
  convB : ConvexSet B
  solver : SolverSpecOn good solve
  supA : ∀ d, d ≠ zeroV → IsSupport A d (sA d)
  supB : ∀ d, d ≠ zeroV → IsSupport B d (sB d)
  /-- the first support point of `A ⊖ B` is not astronomically large (`< (1−ε)·MAX_FLOAT`) -/
  fin : V3.normSq (sA e1 - sB (-e1)) < (1 - EPS) * MAXF

/-- **(3) `progress_gap`** (pure algebra).  If `v'` has minimum norm in a set `H'` that contains
the segment from `v` to `w`, then with `g = ⟨v, v − w⟩ > 0`:
`|v|² − |v'|² ≥ min(g, g²/|v − w|²)`. -/
theorem progress_gap (H' : V → Prop) (v w v' : V)
    (hseg : ∀ t : ℝ, 0 ≤ t → t ≤ 1 → H' ((1 - t) * v + t * w))
    (hmin : ∀ y, H' y → V3.normSq v' ≤ V3.normSq y) (hg : 0 < V3.dot v (v - w)) :
    min (V3.dot v (v - w)) (V3.dot v (v - w) * V3.dot v (v - w) / V3.normSq (v - w))
      ≤ V3.normSq v - V3.normSq v' :=
  Gjk.progress_gap H' v w v' hseg hmin hg

example : min (V3.dot (⟨2, 0, 0⟩ : V) ((⟨2, 0, 0⟩ : V) - ⟨1, 1, 0⟩))
    (V3.dot (⟨2, 0, 0⟩ : V) ((⟨2, 0, 0⟩ : V) - ⟨1, 1, 0⟩) *
      V3.dot (⟨2, 0, 0⟩ : V) ((⟨2, 0, 0⟩ : V) - ⟨1, 1, 0⟩) / V3.normSq ((⟨2, 0, 0⟩ : V) - ⟨1, 1, 0⟩))
    ≤ V3.normSq (⟨2, 0, 0⟩ : V) - V3.normSq (⟨1, 1, 0⟩ : V) := by
  -- H' = the segment itself, v' = w = (1,1,0) is its min-norm point: g = 2, |v-w|² = 2
  norm_num [V3.dot_def, V3.normSq_def]

/-- **(4) `weak_duality`.**  If `p`, `q` are support points of `A` along `−v` and of `B` along
`v` (so `w = p − q` is a support point of `A ⊖ B` along `−v`), then every `a ∈ A`, `b ∈ B`
satisfy `|a − b| ≥ |v| − g/|v|` with `g = ⟨v, v − w⟩`. -/
theorem weak_duality (A B : V → Prop) (v p q : V) (hv : 0 < V3.norm v)
    (hp : IsSupport A (-v) p) (hq : IsSupport B (-(-v)) q) :
    ∀ a b, A a → B b →
      V3.norm v - V3.dot v (v - (p - q)) / V3.norm v ≤ V3.norm (a - b) := by
  intro a b ha hb
  exact Gjk.weak_duality (MinkDiff A B) v (p - q) hv (IsSupport.minkDiff hp hq) (a - b)
    ⟨a, b, ha, hb, rfl⟩

/-- **(1) `inv`, one iteration.**  From a state satisfying the invariant (`Yᵢ = Pᵢ − Qᵢ`,
`Pᵢ ∈ A`, `Qᵢ ∈ B`; the search direction is minus the min-norm point of the hull of the stored
`Y`, which has positive weights on all of them) every non-clipped return of `_distance_loop`
satisfies `StepInv`: the stored points are again pre-images, the carried point `x` is the
min-norm point of the hull of the new prefix with positive weights, and on `Unknown` the full
invariant holds again. -/
theorem inv_step {A B : V → Prop} {good : A4 V → Nat → Prop} {solve : Solver ℝ}
    (hsolve : SolverSpecOn good solve)
    {st : State ℝ} {p q : V} {tolSq maxD : ℝ} (htol : 0 ≤ tolSq)
    (hst : Stored A B st 3) (hrun : Running tolSq st (p - q)) (hp : A p) (hq : B q)
    (hgood : ∀ Y1, st.Y.set st.nPoints (p - q) = .ok Y1 → good Y1 (st.nPoints + 1))
    {out : StepOut ℝ} (h : distanceLoopStep solve p q st tolSq maxD = .ok out)
    (hnc : out.gs ≠ .clipped) : ∃ x v', StepInv A B tolSq st (p - q) out x v' :=
  step_inv hsolve htol hst hrun hp hq hgood h hnc

/-- the last call of `_distance_loop` of a terminating run, with the invariant of its input -/
theorem last_step {A B : V → Prop} {good : A4 V → Nat → Prop} {solve : Solver ℝ} {sA sB : V → V}
    (S : Setup A B good solve sA sB) {tolSq maxD : ℝ} (htol : 0 ≤ tolSq) {y0 : A4 V} {fuel : Nat}
    (hvis : VisitedGood good solve sA sB tolSq maxD (gjkInit y0))
    {gs : GjkState} {st' : State ℝ} {it' : Nat}
    (h : gjkLoop solve sA sB tolSq maxD fuel 0 (gjkInit y0) = .ok (gs, st', it')) :
    ∃ stIn out, Stored A B stIn 3 ∧ Running tolSq stIn (sA stIn.sd - sB (-stIn.sd)) ∧
      stIn.sd ≠ zeroV ∧ VisitedGood good solve sA sB tolSq maxD stIn ∧
      distanceLoopStep solve (sA stIn.sd) (sB (-stIn.sd)) stIn tolSq maxD = .ok out ∧
      out.gs = gs ∧ out.st = st' ∧ gs ≠ .unknown :=
  loop_inv S.solver S.supA S.supB htol fuel 0 (gjkInit y0) gs st' it' (stored_init A B y0)
    (Or.inr ⟨isInit_init y0, S.fin⟩) e1_ne_zero hvis h

/-- **(1) `inv`, every run.**  Whatever the number of iterations, a terminating run of the loop
ends in a call of `_distance_loop` whose input satisfies the invariant and whose support
arguments are genuine support points. -/
theorem inv {A B : V → Prop} {good : A4 V → Nat → Prop} {solve : Solver ℝ} {sA sB : V → V}
    (S : Setup A B good solve sA sB) {tolerance maxD : ℝ} {y0 : A4 V} {fuel : Nat}
    (hvis : VisitedGood good solve sA sB (tolerance * tolerance) maxD (gjkInit y0))
    {gs : GjkState} {st' : State ℝ} {it' : Nat}
    (h : gjkLoop solve sA sB (tolerance * tolerance) maxD fuel 0 (gjkInit y0) = .ok (gs, st', it')) :
    ∃ stIn out, Stored A B stIn 3 ∧
      Running (tolerance * tolerance) stIn (sA stIn.sd - sB (-stIn.sd)) ∧
      IsSupport A stIn.sd (sA stIn.sd) ∧ IsSupport B (-stIn.sd) (sB (-stIn.sd)) ∧
      (∀ Y1, stIn.Y.set stIn.nPoints (sA stIn.sd - sB (-stIn.sd)) = .ok Y1 →
        good Y1 (stIn.nPoints + 1)) ∧
      distanceLoopStep solve (sA stIn.sd) (sB (-stIn.sd)) stIn (tolerance * tolerance) maxD
        = .ok out ∧ out.gs = gs ∧ out.st = st' ∧ gs ≠ .unknown := by
  obtain ⟨stIn, out, hst, hrun, hsd, hvis', hstep, hg, hs, hu⟩ :=
    last_step S (mul_self_nonneg _) hvis h
  have hneg : -stIn.sd ≠ zeroV := by
    intro h0; apply hsd
    have hx := congrArg V3.x h0; have hy := congrArg V3.y h0; have hz := congrArg V3.z h0
    simp at hx hy hz
    apply V3.ext' <;> simp <;> linarith
  exact ⟨stIn, out, hst, hrun, S.supA _ hsd, S.supB _ hneg, hvis'.here, hstep, hg, hs, hu⟩

/-- inversion of `gjkDistance` -/
theorem distance_cases {solve : Solver ℝ} {bary : Bary ℝ} {sA sB : V → V}
    {tolerance maxD sanity : ℝ} {y0 : A4 V} {fuel : Nat} {res : Result ℝ}
    (h : gjkDistance solve bary sA sB tolerance maxD sanity y0 fuel = .ok res) :
    ∃ gs st it, gjkLoop solve sA sB (tolerance * tolerance) maxD fuel 0 (gjkInit y0)
        = .ok (gs, st, it) ∧
      ((gs = .clipped ∧ res = ⟨true, MAXF, none, none, gs, st, it⟩) ∨
       (gs ≠ .clipped ∧ gjkFinish bary sanity gs st it = .ok res)) := by
  unfold gjkDistance at h
  simp only [bind, Except.bind] at h
  split at h
  · cases h
  · rename_i r hr
    obtain ⟨gs, st, it⟩ := r
    refine ⟨gs, st, it, hr, ?_⟩
    simp only at h
    split at h
    · rename_i hc
      left; exact ⟨hc, by cases h; rfl⟩
    · rename_i hc
      right; exact ⟨hc, h⟩

theorem running_vLenSq {tolSq : ℝ} {st : State ℝ} {w : V} (h : Running tolSq st w) :
    st.vLenSq = V3.normSq st.sd := by
  rcases h with ⟨x, hsd, _, hv, _⟩ | ⟨⟨_, hsd, hv, _⟩, _⟩
  · rw [hv, hsd, normSq_neg_one_smul]
  · rw [hv, hsd]; simp [V3.normSq_def]

/-- **(8) `clipped_only_beyond`.**  The query answers `Clipped` (`MAX_FLOAT, None, None`) only if
every pair `a ∈ A`, `b ∈ B` is farther apart than `sqrt(max_distance_squared)`. -/
theorem clipped_only_beyond {A B : V → Prop} {good : A4 V → Nat → Prop} {solve : Solver ℝ}
    {bary : Bary ℝ} {sA sB : V → V}
    (S : Setup A B good solve sA sB) {tolerance maxD sanity : ℝ} {y0 : A4 V} {fuel : Nat}
    (hvis : VisitedGood good solve sA sB (tolerance * tolerance) maxD (gjkInit y0))
    {res : Result ℝ}
    (h : gjkDistance solve bary sA sB tolerance maxD sanity y0 fuel = .ok res)
    (hc : res.clipped = true) : ∀ a b, A a → B b → maxD < V3.normSq (a - b) := by
  obtain ⟨gs, st, it, hloop, hcase⟩ := distance_cases h
  rcases hcase with ⟨hg, _⟩ | ⟨_, hfin⟩
  · obtain ⟨stIn, out, _, hrun, hpA, hqB, _, hstep, hog, _, _⟩ := inv S hvis hloop
    intro a b ha hb
    exact step_clipped (A := A) (B := B) (running_vLenSq hrun) (IsSupport.minkDiff hpA hqB) hstep
      (by rw [hog, hg]) (a - b) ⟨a, b, ha, hb, rfl⟩
  · obtain ⟨_, _, _, _, hcl, _⟩ := finish_cases hfin
    rw [hcl] at hc; exact Bool.noConfusion hc

/-- the `StepInv` of the last iteration of a non-clipped run -/
theorem last_stepInv {A B : V → Prop} {good : A4 V → Nat → Prop} {solve : Solver ℝ}
    {sA sB : V → V}
    (S : Setup A B good solve sA sB) {tolerance maxD : ℝ} {y0 : A4 V} {fuel : Nat}
    (hvis : VisitedGood good solve sA sB (tolerance * tolerance) maxD (gjkInit y0))
    {gs : GjkState} {st' : State ℝ} {it' : Nat}
    (h : gjkLoop solve sA sB (tolerance * tolerance) maxD fuel 0 (gjkInit y0) = .ok (gs, st', it'))
    (hc : gs ≠ .clipped) :
    ∃ stIn out x v', Stored A B stIn 3 ∧
      Running (tolerance * tolerance) stIn (sA stIn.sd - sB (-stIn.sd)) ∧
      IsSupport (MinkDiff A B) stIn.sd (sA stIn.sd - sB (-stIn.sd)) ∧
      StepInv A B (tolerance * tolerance) stIn (sA stIn.sd - sB (-stIn.sd)) out x v' ∧
      out.gs = gs ∧ out.st = st' ∧ gs ≠ .unknown := by
  obtain ⟨stIn, out, hst, hrun, hpA, hqB, hgood, hstep, hog, hos, hu⟩ := inv S hvis h
  obtain ⟨x, v', hinv⟩ := step_inv S.solver (mul_self_nonneg _) hst hrun hpA.1 hqB.1 hgood hstep
    (by rw [hog]; exact hc)
  exact ⟨stIn, out, x, v', hst, hrun, IsSupport.minkDiff hpA hqB, hinv, hog, hos, hu⟩

/-- **(2) `feasible`, separated exit.**  If the query leaves through `NoIntersection` it returns
`a ∈ A`, `b ∈ B` (convex combinations of the stored support points with the barycentric weights)
and `d = |a − b| > tolerance`.  (`tolerance ≥ EPSILON` holds for the default `1e-10`.) -/
theorem feasible {A B : V → Prop} {good : A4 V → Nat → Prop} {solve : Solver ℝ} {bary : Bary ℝ}
    {sA sB : V → V}
    (S : Setup A B good solve sA sB) {nd2 : V → V → Prop} {nd3 : V → V → V → Prop}
    {nd4 : V → V → V → V → Prop} (hb : BarySpec bary nd2 nd3 nd4)
    {tolerance maxD sanity : ℝ} (hte : EPS ≤ tolerance) {y0 : A4 V} {fuel : Nat}
    (hvis : VisitedGood good solve sA sB (tolerance * tolerance) maxD (gjkInit y0))
    {res : Result ℝ}
    (h : gjkDistance solve bary sA sB tolerance maxD sanity y0 fuel = .ok res)
    (hnd : NonDeg nd2 nd3 nd4 res.st) (hex : res.exit = .noIntersection) :
    ∃ a b, res.a = some a ∧ res.b = some b ∧ A a ∧ B b ∧ res.dist = V3.norm (a - b) ∧
      tolerance < res.dist := by
  obtain ⟨gs, st, it, hloop, hcase⟩ := distance_cases h
  rcases hcase with ⟨hg, rfl⟩ | ⟨hg, hfin⟩
  · simp only at hex; rw [hg] at hex; exact GjkState.noConfusion hex
  obtain ⟨ab, hccp, _, _, _, hdist, hexit, hrst, hab⟩ := finish_cases hfin
  obtain ⟨stIn, out, x, v', _, _, _, hinv, hog, hos, _⟩ := last_stepInv S hvis hloop hg
  rw [hrst] at hnd
  rw [hexit] at hex
  subst hos
  obtain ⟨a, b, rfl, ha, hb', hxe⟩ := ccp_feasible S.convA S.convB hb hinv.stored hinv.closest hnd hccp
  have htol0 : 0 ≤ tolerance := le_trans EPS_pos.le hte
  rcases hinv.exits with ⟨hg', _⟩ | ⟨_, _, hvl, _, htl, _⟩ | ⟨hg', _⟩
  · rw [hog, hex] at hg'; exact GjkState.noConfusion hg'
  · have hd : Real.sqrt out.st.vLenSq = V3.norm (a - b) := by rw [hvl, hxe, V3.norm_def]
    have hlt : tolerance < Real.sqrt out.st.vLenSq := by
      rw [hvl]
      have : Real.sqrt (tolerance * tolerance) < Real.sqrt (V3.normSq x) :=
        Real.sqrt_lt_sqrt (mul_self_nonneg _) htl
      rwa [Real.sqrt_mul_self htol0] at this
    rcases hab with ⟨hsmall, _⟩ | ⟨_, hra, hrb⟩
    · linarith
    · exact ⟨a, b, by simpa using hra, by simpa using hrb, ha, hb', by rw [hdist, hd],
        by rw [hdist]; exact hlt⟩
  · rw [hog, hex] at hg'; exact GjkState.noConfusion hg'

/-- **(2)/(6) `exit_intersection`.**  If the query leaves through `Intersection` it returns
`d = 0` and `a = b = ` the midpoint `m` of a pair `a₀ ∈ A`, `b₀ ∈ B` (so `m` is within
`|a₀ − b₀|/2` of both sets) with either `a₀ = b₀` — the sets meet; this is the case for the
`0xf` exit — or `|a₀ − b₀|² ≤ tolerance²`, or `|a₀ − b₀|² ≤ ε·|y|²` for some `y ∈ A ⊖ B`;
hence `dist(A, B) ≤ max(tolerance, √ε·max|Y|)`. -/
theorem exit_intersection {A B : V → Prop} {good : A4 V → Nat → Prop} {solve : Solver ℝ}
    {bary : Bary ℝ} {sA sB : V → V}
    (S : Setup A B good solve sA sB) {nd2 : V → V → Prop} {nd3 : V → V → V → Prop}
    {nd4 : V → V → V → V → Prop} (hb : BarySpec bary nd2 nd3 nd4)
    {tolerance maxD sanity : ℝ} {y0 : A4 V} {fuel : Nat}
    (hvis : VisitedGood good solve sA sB (tolerance * tolerance) maxD (gjkInit y0))
    {res : Result ℝ}
    (h : gjkDistance solve bary sA sB tolerance maxD sanity y0 fuel = .ok res)
    (hnd : NonDeg nd2 nd3 nd4 res.st) (hex : res.exit = .intersection) :
    res.dist = 0 ∧ ∃ a0 b0, A a0 ∧ B b0 ∧
      res.a = some ((0.5 : ℝ) * (a0 + b0)) ∧ res.b = some ((0.5 : ℝ) * (a0 + b0)) ∧
      (a0 = b0 ∨ V3.normSq (a0 - b0) ≤ tolerance * tolerance ∨
        ∃ y, MinkDiff A B y ∧ V3.normSq (a0 - b0) ≤ EPS * V3.normSq y) := by
  obtain ⟨gs, st, it, hloop, hcase⟩ := distance_cases h
  rcases hcase with ⟨hg, rfl⟩ | ⟨hg, hfin⟩
  · simp only at hex; rw [hg] at hex; exact GjkState.noConfusion hex
  obtain ⟨ab, hccp, _, _, _, hdist, hexit, hrst, hab⟩ := finish_cases hfin
  obtain ⟨stIn, out, x, v', _, _, _, hinv, hog, hos, _⟩ := last_stepInv S hvis hloop hg
  rw [hrst] at hnd
  rw [hexit] at hex
  subst hos
  obtain ⟨a, b, rfl, ha, hb', hxe⟩ := ccp_feasible S.convA S.convB hb hinv.stored hinv.closest hnd hccp
  rcases hinv.exits with ⟨_, hv0, _, hc⟩ | ⟨hg', _⟩ | ⟨hg', _⟩
  · have hd0 : Real.sqrt out.st.vLenSq = 0 := by rw [hv0]; exact Real.sqrt_zero
    refine ⟨by rw [hdist, hd0], a, b, ha, hb', ?_⟩
    rcases hab with ⟨_, a', b', he, hra, hrb⟩ | ⟨hbig, _⟩
    · cases he
      refine ⟨hra, hrb, ?_⟩
      rcases hc with ⟨_, hx0⟩ | hc | ⟨_, y, hy, hc⟩
      · left
        rw [hx0] at hxe
        have hx := congrArg V3.x hxe; have hy := congrArg V3.y hxe; have hz := congrArg V3.z hxe
        simp at hx hy hz
        apply V3.ext' <;> linarith
      · right; left; rw [hxe]; exact hc
      · right; right
        obtain ⟨a', b', ha', hb'', hy'⟩ :=
          stored_hull_minkDiff S.convA S.convB hinv.stored (mem_hull_of_mem hy)
        exact ⟨y, ⟨a', b', ha', hb'', hy'⟩, by rw [hxe]; exact hc⟩
    · rw [hd0] at hbig
      exact absurd hbig (not_le.mpr EPS_pos)
  · rw [hog, hex] at hg'; exact GjkState.noConfusion hg'
  · rw [hog, hex] at hg'; exact GjkState.noConfusion hg'

/-- **(5) `exit_stall_accuracy`.**  If the query leaves through `NoIntersection` (the solver
reports no improvement, or `prev − |v|² ≤ ε·prev`), the returned `d` exceeds the true distance by
at most `max(ε·R, √ε·diam)`, where `R` bounds the norms and `diam` the diameter of `A ⊖ B`:
every pair `a ∈ A`, `b ∈ B` has `|a − b| ≥ d − max(ε·R, √ε·diam)`. -/
theorem exit_stall_accuracy {A B : V → Prop} {good : A4 V → Nat → Prop} {solve : Solver ℝ}
    {bary : Bary ℝ} {sA sB : V → V}
    (S : Setup A B good solve sA sB) {tolerance maxD sanity : ℝ} {y0 : A4 V} {fuel : Nat}
    (hvis : VisitedGood good solve sA sB (tolerance * tolerance) maxD (gjkInit y0))
    {res : Result ℝ} {R diam : ℝ} (hdiam0 : 0 ≤ diam)
    (hR : ∀ y, MinkDiff A B y → V3.norm y ≤ R)
    (hdiam : ∀ y y', MinkDiff A B y → MinkDiff A B y' → V3.normSq (y - y') ≤ diam * diam)
    (h : gjkDistance solve bary sA sB tolerance maxD sanity y0 fuel = .ok res)
    (hex : res.exit = .noIntersection) :
    ∀ a b, A a → B b →
      res.dist - max (EPS * R) (Real.sqrt EPS * diam) ≤ V3.norm (a - b) := by
  obtain ⟨gs, st, it, hloop, hcase⟩ := distance_cases h
  rcases hcase with ⟨hg, rfl⟩ | ⟨hg, hfin⟩
  · simp only at hex; rw [hg] at hex; exact GjkState.noConfusion hex
  obtain ⟨ab, _, _, _, _, hdist, hexit, _, _⟩ := finish_cases hfin
  obtain ⟨stIn, out, x, v', hst, hrun, hsup, hinv, hog, hos, _⟩ := last_stepInv S hvis hloop hg
  rw [hexit] at hex
  subst hos
  have hgo : out.gs = .noIntersection := by rw [hog, hex]
  -- the returned distance is |x|
  have hdx : res.dist = V3.norm x := by
    rcases hinv.exits with ⟨hg', _⟩ | ⟨_, _, hvl, _⟩ | ⟨hg', _⟩
    · rw [hgo] at hg'; exact GjkState.noConfusion hg'
    · rw [hdist, hvl, V3.norm_def]
    · rw [hgo] at hg'; exact GjkState.noConfusion hg'
  rcases hrun with ⟨x0, hcur⟩ | ⟨hinit, hfin'⟩
  · obtain ⟨hxle, hacc⟩ := step_stall_accuracy (mul_self_nonneg _) hinv hcur hsup hgo
    intro a b ha hb
    have hy := hacc (a - b) ⟨a, b, ha, hb, rfl⟩
    -- x0 and w are points of A ⊖ B
    obtain ⟨_, hcl0, _, _, _, _⟩ := hcur
    obtain ⟨a0, b0, ha0, hb0, hx0⟩ :=
      stored_hull_minkDiff S.convA S.convB ⟨le_trans hst.1 (by norm_num), hst.2⟩ hcl0.minnorm.1
    have hx0R := hR x0 ⟨a0, b0, ha0, hb0, hx0⟩
    have hD := hdiam x0 _ ⟨a0, b0, ha0, hb0, hx0⟩ hsup.1
    have hnx : V3.norm x ≤ V3.norm x0 := by
      rw [V3.norm_def, V3.norm_def]; exact Real.sqrt_le_sqrt hxle
    have h1 : EPS * V3.norm x0 ≤ EPS * R := mul_le_mul_of_nonneg_left hx0R EPS_pos.le
    have h2 : Real.sqrt (EPS * V3.normSq (x0 - (sA stIn.sd - sB (-stIn.sd))))
        ≤ Real.sqrt EPS * diam := by
      calc Real.sqrt (EPS * V3.normSq (x0 - (sA stIn.sd - sB (-stIn.sd))))
          ≤ Real.sqrt (EPS * (diam * diam)) :=
            Real.sqrt_le_sqrt (mul_le_mul_of_nonneg_left hD EPS_pos.le)
        _ = Real.sqrt EPS * diam := by
            rw [Real.sqrt_mul EPS_pos.le, Real.sqrt_mul_self hdiam0]
    have := max_le_max h1 h2
    rw [hdx]
    linarith
  · -- first iteration: the relative-progress test cannot fire on a finite first point
    exfalso
    obtain ⟨hn0, _, _, hprev⟩ := hinit
    rcases hinv.exits with ⟨hg', _⟩ | ⟨_, _, _, _, _, hq⟩ | ⟨hg', _⟩
    · rw [hgo] at hg'; exact GjkState.noConfusion hg'
    · have hw := hinv.vmin.2 _ (hull_append_right (ys := stIn.Y.pre stIn.nPoints)
        (sA stIn.sd - sB (-stIn.sd)))
      rw [hprev] at hq
      have hM := MAXF_pos
      nlinarith [EPS_pos]
    · rw [hgo] at hg'; exact GjkState.noConfusion hg'

/-- **(7) `separated_positive`.**  If every point of `A ⊖ B` has squared norm above `tolerance²`
and above `ε·|y'|²` for all `y' ∈ A ⊖ B` (i.e. `dist > max(tolerance, √ε·max|A ⊖ B|)`), a
non-clipped answer is a `NoIntersection` answer with `d > 0`. -/
theorem separated_positive {A B : V → Prop} {good : A4 V → Nat → Prop} {solve : Solver ℝ}
    {bary : Bary ℝ} {sA sB : V → V}
    (S : Setup A B good solve sA sB) {tolerance maxD sanity : ℝ} {y0 : A4 V} {fuel : Nat}
    (hvis : VisitedGood good solve sA sB (tolerance * tolerance) maxD (gjkInit y0))
    {res : Result ℝ}
    (hsep : ∀ y, MinkDiff A B y → tolerance * tolerance < V3.normSq y ∧
      ∀ y', MinkDiff A B y' → EPS * V3.normSq y' < V3.normSq y)
    (h : gjkDistance solve bary sA sB tolerance maxD sanity y0 fuel = .ok res)
    (hc : res.clipped = false) : res.exit = .noIntersection ∧ 0 < res.dist := by
  obtain ⟨gs, st, it, hloop, hcase⟩ := distance_cases h
  rcases hcase with ⟨_, rfl⟩ | ⟨hg, hfin⟩
  · simp at hc
  obtain ⟨ab, _, _, _, _, hdist, hexit, _, _⟩ := finish_cases hfin
  obtain ⟨stIn, out, x, v', _, _, _, hinv, hog, hos, hu⟩ := last_stepInv S hvis hloop hg
  subst hos
  have hni := step_separated S.convA S.convB (mul_self_nonneg _) hinv hsep
  rcases hinv.exits with ⟨hg', _⟩ | ⟨hg', _, hvl, _, htl, _⟩ | ⟨hg', _⟩
  · exact absurd hg' hni
  · refine ⟨by rw [hexit, ← hog, hg'], ?_⟩
    rw [hdist, hvl]
    exact Real.sqrt_pos.mpr (lt_of_le_of_lt (mul_self_nonneg _) htl)
  · rw [hog] at hg'; exact absurd hg' hu

/-- **no failure under the invariant.**  From a state satisfying the invariant, `_distance_loop`
returns normally whenever the solver does: no `IndexError` on `Y/P/Q`, and the assertion
`prev_v_len_sq >= v_len_sq` is unreachable (in exact arithmetic). -/
theorem step_no_failure {A B : V → Prop} {good : A4 V → Nat → Prop} {solve : Solver ℝ}
    (hsolve : SolverSpecOn good solve)
    (htotal : ∀ Y n prev, 1 ≤ n → n ≤ 4 → good Y n → ∃ r, solve Y n prev = .ok r)
    {st : State ℝ} {p q : V} {tolSq maxD : ℝ}
    (hst : Stored A B st 3) (hrun : Running tolSq st (p - q))
    (hgood : ∀ Y1, st.Y.set st.nPoints (p - q) = .ok Y1 → good Y1 (st.nPoints + 1)) :
    ∃ out, distanceLoopStep solve p q st tolSq maxD = .ok out :=
  step_ok hsolve htotal hst hrun hgood

/-- **`terminates`** (also part of C19).  For `tolerance ≠ 0` and a total solver, the `while True`
loop returns normally for every sufficiently large fuel: each continuing iteration multiplies
`|v|²` by less than `1 − ε` while it stays above `tolerance²`, so fuel exhaustion is
unreachable. -/
theorem terminates {A B : V → Prop} {good : A4 V → Nat → Prop} {solve : Solver ℝ} {sA sB : V → V}
    (S : Setup A B good solve sA sB)
    (htotal : ∀ Y n prev, 1 ≤ n → n ≤ 4 → good Y n → ∃ r, solve Y n prev = .ok r)
    {tolerance maxD : ℝ} (htol : tolerance ≠ 0) (y0 : A4 V)
    (hvis : VisitedGood good solve sA sB (tolerance * tolerance) maxD (gjkInit y0)) :
    ∃ N, ∀ fuel, N ≤ fuel →
      ∃ res, gjkLoop solve sA sB (tolerance * tolerance) maxD fuel 0 (gjkInit y0) = .ok res :=
  loop_terminates S.solver htotal S.supA S.supB S.fin (mul_self_pos.mpr htol) y0 hvis

/-- **`BarySpec` holds for the C18 model of the three barycentric routines**
(`get_barycentric_coordinates_line/plane/tetrahedron`) outside their degenerate bands
`jnd2` (`|b−a|² ≥ ε²`), `jnd3` (after repair dbe9d34, scale free: Gram determinant of the two edges
used `> ε·L⁴` in absolute value, `L²` the longest squared edge),
`jnd4` (non-zero volume): so `feasible` and `exit_intersection` apply to `joltBary`. -/
theorem joltBary_spec : BarySpec (joltBary (α := ℝ)) jnd2 jnd3 jnd4 where
  line a b u v x hnd h hx := joltBary_line_spec a b u v x hnd h hx
  plane a b c u v w x hnd h hx := joltBary_plane_spec a b c u v w x hnd h hx
  tetra a b c d u v w t x hnd h hx := joltBary_tetra_spec a b c d u v w t x hnd h hx

/-- the non-degeneracy predicates are satisfiable: a unit right-angled corner -/
example : jnd2 (⟨1, 0, 0⟩ : V) ⟨0, 1, 0⟩ ∧ jnd3 (⟨1, 0, 0⟩ : V) ⟨0, 1, 0⟩ ⟨0, 0, 1⟩ ∧
    jnd4 (⟨1, 0, 0⟩ : V) ⟨0, 1, 0⟩ ⟨0, 0, 1⟩ ⟨-1, -1, -1⟩ := by
  refine ⟨?_, ?_, ?_⟩
  · simp only [jnd2, Simplex.EPS2, D3.Gen.gjk__gjk_jolt__EPSILON_SQR, V3.normSq_def, V3.sub_x,
      V3.sub_y, V3.sub_z]
    norm_num
  · simp only [jnd3, absS, Simplex.maxEdgeLenSq, Simplex.EPS, D3.Gen.utils__EPSILON, V3.dot_def,
      V3.sub_x, V3.sub_y, V3.sub_z]
    norm_num
  · simp only [jnd4, Simplex.triple, V3.dot_def, V3.cross, V3.sub_x, V3.sub_y, V3.sub_z]
    norm_num

/-! ### non-vacuity: the hypotheses are satisfiable -/

/-- a solver that only answers for one point, or two coincident points -/
noncomputable def toySolve : Solver ℝ := fun Y n prev =>
  open Classical in
  if n = 1 ∨ (n = 2 ∧ Y.r0 = Y.r1) then
    .ok ⟨decide (V3.normSq Y.r0 < prev), Y.r0, V3.normSq Y.r0, 1⟩
  else .error .badInput

theorem hull_single {y x : V} : InHull [y] x ↔ x = y := by
  constructor
  · rintro ⟨ws, hl, _, hs, rfl⟩
    match ws, hl with
    | [w], _ =>
      simp at hs; subst hs
      simp [lincomb, add_zeroV, one_smul_vec]
  · rintro rfl
    exact ⟨[1], rfl, by simp, by simp, by simp [lincomb, add_zeroV, one_smul_vec]⟩

theorem toySolve_spec : SolverSpec toySolve := by
  constructor
  intro Y n prev r h1 h4 h
  unfold toySolve at h
  split at h
  · rename_i hc
    cases h
    have hrel : InRelInt [Y.r0] Y.r0 :=
      ⟨[1], rfl, by simp, by simp, by simp [lincomb, add_zeroV, one_smul_vec]⟩
    rcases hc with rfl | ⟨rfl, heq⟩
    · refine ⟨rfl, by simp, by norm_num, ⟨hull_single.mpr rfl, ?_⟩, by simpa [keep, A4.pre, A4.toList] using hrel, by simp⟩
      intro y hy
      rw [show Y.pre 1 = [Y.r0] from rfl, hull_single] at hy
      rw [hy]
    · refine ⟨rfl, by simp, by norm_num, ⟨?_, ?_⟩, by simpa [keep, A4.pre, A4.toList] using hrel, by simp⟩
      · have hsub : [Y.r0].Sublist (Y.pre 2) := by simp [A4.pre, A4.toList]
        exact hull_sublist hsub (hull_single.mpr rfl)
      · intro y hy
        obtain ⟨ws, hl, _, hs, rfl⟩ := hy
        match ws, hl with
        | [w0, w1], _ =>
          have : w0 + w1 = 1 := by simpa using hs
          have e : lincomb [w0, w1] (Y.pre 2) = Y.r0 := by
            simp only [A4.pre, A4.toList, List.take, lincomb, ← heq]
            apply V3.ext' <;> simp <;> (rw [show w0 = 1 - w1 by linarith]; ring)
          rw [e]
  · cases h

/-- the hypotheses of all theorems are satisfiable: two singletons `{(2,0,0)}` and `{0}` -/
example : Setup (fun x : V => x = ⟨2, 0, 0⟩) (fun x : V => x = ⟨0, 0, 0⟩) (fun _ _ => True) toySolve
    (fun _ => ⟨2, 0, 0⟩) (fun _ => ⟨0, 0, 0⟩) where
  convA := by
    intro x y hx hy t _ _; rw [hx, hy]; apply V3.ext' <;> simp <;> ring
  convB := by
    intro x y hx hy t _ _; rw [hx, hy]; apply V3.ext' <;> simp
  solver := toySolve_spec.on _
  supA := fun d _ => ⟨rfl, fun x hx => by rw [hx]⟩
  supB := fun d _ => ⟨rfl, fun x hx => by rw [hx]⟩
  fin := by
    simp only [V3.normSq_def, V3.sub_x, V3.sub_y, V3.sub_z, EPS, MAXF, D3.Gen.utils__EPSILON,
      D3.Gen.utils__MAX_FLOAT]
    norm_num

/-! ### the unconditional form (the statements as they were before `SolverSpecOn`)

With `good := fun _ _ => True` the contract is `SolverSpec` and both the step-level hypothesis
`hgood` and the run-level hypothesis `VisitedGood` are trivial. -/

/-- `inv_step` for a solver satisfying the unconditional contract -/
example {A B : V → Prop} {solve : Solver ℝ} (hsolve : SolverSpec solve)
    {st : State ℝ} {p q : V} {tolSq maxD : ℝ} (htol : 0 ≤ tolSq)
    (hst : Stored A B st 3) (hrun : Running tolSq st (p - q)) (hp : A p) (hq : B q)
    {out : StepOut ℝ} (h : distanceLoopStep solve p q st tolSq maxD = .ok out)
    (hnc : out.gs ≠ .clipped) : ∃ x v', StepInv A B tolSq st (p - q) out x v' :=
  inv_step (hsolve.on (fun _ _ => True)) htol hst hrun hp hq (fun _ _ => trivial) h hnc

/-- `feasible` for a solver satisfying the unconditional contract -/
example {A B : V → Prop} {solve : Solver ℝ} {bary : Bary ℝ} {sA sB : V → V}
    (S : Setup A B (fun _ _ => True) solve sA sB) {nd2 : V → V → Prop} {nd3 : V → V → V → Prop}
    {nd4 : V → V → V → V → Prop} (hb : BarySpec bary nd2 nd3 nd4)
    {tolerance maxD sanity : ℝ} (hte : EPS ≤ tolerance) {y0 : A4 V} {fuel : Nat} {res : Result ℝ}
    (h : gjkDistance solve bary sA sB tolerance maxD sanity y0 fuel = .ok res)
    (hnd : NonDeg nd2 nd3 nd4 res.st) (hex : res.exit = .noIntersection) :
    ∃ a b, res.a = some a ∧ res.b = some b ∧ A a ∧ B b ∧ res.dist = V3.norm (a - b) ∧
      tolerance < res.dist :=
  feasible S hb hte (visitedGood_true _ _ _ _ _ _) h hnd hex

/-- the default tolerance satisfies `EPSILON ≤ tolerance` (hypothesis of `feasible`) -/
example : (EPS : ℝ) ≤ D3.Gen.gjk__gjk_jolt__gjk_distance_jolt__tolerance := by
  unfold EPS D3.Gen.utils__EPSILON D3.Gen.gjk__gjk_jolt__gjk_distance_jolt__tolerance; norm_num

/-- the model with the C18 solver plugged in, run in exact rational arithmetic on the two
singletons above: two iterations, exit `NoIntersection` (code 0), `d = 2` -/
example : (match gjkDistanceDefault (α := Rat) joltSolver joltBary (fun _ => ⟨2, 0, 0⟩)
      (fun _ => ⟨0, 0, 0⟩) ⟨V3.zero, V3.zero, V3.zero, V3.zero⟩ 10 with
    | .ok r => some (r.dist, r.exit.code, r.iterations)
    | .error _ => none) = some (2, 0, 2) := by decide +kernel

end C01
end D3
