/-
C02 ⟵ C18 — the Jolt theorems of C02 instantiated at the model of the REAL simplex solver, and lifted from one
call of `_intersection_loop` to every reachable loop state and to the result of `gjk_intersection_jolt`.

`D3/Properties/C02.lean` states `jolt_true_sound` / `jolt_false_stall_not_deep` for one call, with the solver
facts as hypotheses (`SolverInHull`, `SolverBeatsSegment`) and the loop invariant (`dir = -v_prev`,
`prev = |v_prev|²`, stored points in `A ⊖ B`) assumed.  Here

* (1) the two solver hypotheses are PROVED for `Simplex.getClosestPointToOrigin` — the function
  `IsectJolt.intersectionLoop` calls and `D3/Driver/C02.lean` runs — on `JoltGood` simplices (the conjunction of
  the C18 band exclusions, decided by the executable `joltGoodB`): `jolt_solverInHull`,
  `jolt_solverBeatsSegment`; the step-level theorems are restated with the real solver:
  `jolt_true_sound_real`, `jolt_true_not_on_gap_real`, `jolt_false_stall_not_deep_real`;
* (2) the loop invariant is proved (`jolt_inv_preserved` through `update_simplex_y`, `jolt_inv_reachable` for
  every reachable state, first iteration included), and the theorems are lifted to reachable states
  (`jolt_reach_true_sound`, `jolt_reach_false_not_deep`) and to the function:
  (a) `jolt_fn_false_sep_axis`, (b) `jolt_fn_true_sound`, `jolt_fn_true_dist`, `jolt_fn_gap_false`,
  (c) `jolt_fn_deep_true`; plus `jolt_fn_step_no_failure`, `jolt_fn_terminates` and the two total forms
  `jolt_fn_deep_answers_true`, `jolt_fn_gap_answers_false`.

The only solver-side hypothesis left is `VisitedGood JoltGood …`: every simplex the run hands to the solver is
outside the C18 bands (step level: `JoltGood` of the one simplex of that call).  `jolt_visitedGood_of_mdiff`
discharges it from a property of `A ⊖ B`; `cube_visitedGood` is a fully discharged deep instance.

* (3) two exits that answered "by fiat" get a statement: `mpr_iteration_cap_exit` (discover branch 6: the
  portal has a repeated vertex and `mpr_intersection` answers True whatever the colliders are) and
  `libccd_origin_on_segment_near` (`_line_segment` CONTACT: a point of `A ⊖ B` within `√EPSILON/|AB|` of the
  origin, under the side condition `A·B ≤ |B|²` that the code does not test).
-/
import D3.Properties.C02
import D3.Proofs.IntersectJoltLoop
import D3.Proofs.IntersectMprCap
import D3.Proofs.IntersectLibccdSeg
import D3.Properties.C01Link

namespace D3
namespace C02
open Isect IsectJolt
open GjkJolt (A4)

/-! ## (1) the solver hypotheses of C02, proved for the real solver -/

/-- **`SolverInHull` is a theorem for the real solver.**  Let the first `n ≤ 3` rows of `Y` be points of
`A ⊖ B` (`A`, `B` convex) and `w ∈ A ⊖ B` the new support point.  If the simplex `Y[:n] ∪ {w}` is `JoltGood`
(outside the C18 degeneracy bands), whatever `get_closest_point_to_origin` returns on it satisfies the
C02 hypothesis `SolverInHull`: the returned point is in `A ⊖ B`, `v_len_sq` is its squared norm, `0xf` is only
reported for the origin. -/
theorem jolt_solverInHull {A B : V → Prop} (hcA : ConvexSet A) (hcB : ConvexSet B) {Y : A4 V} {n : Nat}
    (hrows : ∀ y ∈ Y.pre n, mdiff A B y) {w : V} (hw : mdiff A B w)
    {Y1 : A4 V} (hY1 : Y.set n w = .ok Y1) (hgood : Gjk.JoltGood Y1 (n + 1)) (prev : ℝ) :
    ∀ r, Simplex.getClosestPointToOrigin (Y.toArray.set! n w) (n + 1) prev = .ok r →
      SolverInHull (mdiff A B) r :=
  solverInHull_real hcA hcB hrows hw hY1 hgood prev

/-- **`SolverBeatsSegment` is a theorem for the real solver.**  If the previous iterate `v_prev` lies in the
hull of the stored rows `Y[:n]` and the simplex `Y[:n] ∪ {w}` is `JoltGood`, the result of
`get_closest_point_to_origin(Y, n+1, |v_prev|²)` is at least as close to the origin as every point of the
segment `[v_prev, w]`, and its success flag is `v_len_sq < |v_prev|²`. -/
theorem jolt_solverBeatsSegment {Y : A4 V} {n : Nat} {w vprev : V} (hv : Gjk.InHull (Y.pre n) vprev)
    {Y1 : A4 V} (hY1 : Y.set n w = .ok Y1) (hgood : Gjk.JoltGood Y1 (n + 1)) :
    ∀ r, Simplex.getClosestPointToOrigin (Y.toArray.set! n w) (n + 1) (V3.normSq vprev) = .ok r →
      SolverBeatsSegment vprev w r :=
  solverBeatsSegment_real hv hY1 hgood

/-- non-vacuity of (1): one stored point `(2,0,0)`, new support point `(-2,0,0)` (the second iteration for two
unit cubes about the origin): the simplex is `JoltGood` and the stored point is in its own hull -/
example : Gjk.JoltGood (⟨⟨2, 0, 0⟩, ⟨-2, 0, 0⟩, ⟨0, 0, 0⟩, ⟨0, 0, 0⟩⟩ : A4 V) 2 ∧
    Gjk.InHull ((⟨⟨2, 0, 0⟩, ⟨0, 0, 0⟩, ⟨0, 0, 0⟩, ⟨0, 0, 0⟩⟩ : A4 V).pre 1) ⟨2, 0, 0⟩ := by
  refine ⟨Gjk.joltGood_2 (Or.inl ?_), ⟨[1], rfl, by simp, by simp, ?_⟩⟩
  · norm_num [V3.dot_def, Simplex.EPS2, D3.Gen.gjk__gjk_jolt__EPSILON_SQR]
  · apply V3.ext' <;> simp [A4.pre, A4.toList, Gjk.lincomb]

/-- **C02 (1b) `true_sound`, real solver, one call.**  Every `Intersection` answer of `_intersection_loop` on
a `JoltGood` simplex of points of `A ⊖ B` exhibits `a ∈ A`, `b ∈ B` with
`|a - b|² ≤ max(tolerance², EPSILON·max|Y|²)` — a common point in the `0xf` case.  No solver hypothesis. -/
theorem jolt_true_sound_real {A B : V → Prop} (hcA : ConvexSet A) (hcB : ConvexSet B) {p q : V} {Y : A4 V}
    {n : Nat} {tolSq prev : ℝ} {dir : V} {s : Step ℝ} (hp : A p) (hq : B q)
    (hrows : ∀ y ∈ Y.pre n, mdiff A B y)
    (hgood : ∀ Y1, Y.set n (p - q) = .ok Y1 → Gjk.JoltGood Y1 (n + 1))
    (h : intersectionLoop p q Y.toArray n tolSq prev dir = .ok s) (hs : s.state = .intersection) :
    ∃ a b, A a ∧ B b ∧
      ((s.br = 2 ∧ a = b) ∨ (s.br = 3 ∧ V3.normSq (a - b) ≤ tolSq) ∨
       (s.br = 4 ∧ ∃ m, maxYLengthSquared (Y.toArray.set! n (p - q)) (n + 1) = .ok m ∧
          V3.normSq (a - b) ≤ EPS * m)) := by
  have hn : n ≤ 3 := by
    rcases step_cases h with ⟨_, rfl⟩ | ⟨_, hsz, _⟩
    · cases hs
    · have : n < 4 := hsz
      omega
  obtain ⟨Y1, hY1⟩ := Gjk.set_ok Y n (p - q) hn
  exact jolt_true_sound h hs
    (jolt_solverInHull hcA hcB hrows ⟨p, q, hp, hq, rfl⟩ hY1 (hgood Y1 hY1) prev)

/-- **C02 (1b'), real solver, one call**: no True answer on a pair separated by a slab wider than
`max(tolerance, √(EPSILON·max|Y|²))`. -/
theorem jolt_true_not_on_gap_real {A B : V → Prop} (hcA : ConvexSet A) (hcB : ConvexSet B) {p q : V}
    {Y : A4 V} {n : Nat} {tolSq prev : ℝ} {dir : V} {s : Step ℝ} (hp : A p) (hq : B q)
    (hrows : ∀ y ∈ Y.pre n, mdiff A B y)
    (hgood : ∀ Y1, Y.set n (p - q) = .ok Y1 → Gjk.JoltGood Y1 (n + 1))
    (h : intersectionLoop p q Y.toArray n tolSq prev dir = .ok s) (hs : s.state = .intersection)
    {nrm : V} {δ : ℝ} (hδ : 0 < δ) (hslab : Slab A B nrm δ) (htol : tolSq < δ * δ)
    (hrel : ∀ m, maxYLengthSquared (Y.toArray.set! n (p - q)) (n + 1) = .ok m → EPS * m < δ * δ) :
    False := by
  obtain ⟨a, b, ha, hb, hc⟩ := jolt_true_sound_real hcA hcB hp hq hrows hgood h hs
  have hgap := slab_gap (le_of_lt hδ) hslab a b ha hb
  rcases hc with ⟨_, hab⟩ | ⟨_, h3⟩ | ⟨_, m, hm, h4⟩
  · exact slab_disjoint hδ hslab a ⟨ha, hab ▸ hb⟩
  · linarith
  · have := hrel m hm; linarith

/-- **C02 (1c) `false_stall_not_deep`, real solver, one call.**  From the second iteration on
(`search_direction = -v_prev`, `prev_v_len_sq = |v_prev|² > 0`, `v_prev` in the hull of the stored rows), on a
`JoltGood` simplex, for a pair sharing a point `δ`-inside both with `EPSILON·|v_prev - w|² < 4δ²`,
`_intersection_loop` can leave neither through the stall test (branch 5) nor through the solver's
"no improvement" answer (branch 1).  No solver hypothesis. -/
theorem jolt_false_stall_not_deep_real {A B : V → Prop} {p q vprev : V} {Y : A4 V} {n : Nat} {tolSq : ℝ}
    {s : Step ℝ} {δ : ℝ} (hδ : 0 < δ)
    (hA : IsSupport A (-vprev) p) (hB : IsSupport B (-(-vprev)) q)
    (hv : Gjk.InHull (Y.pre n) vprev) (hpos : 0 < V3.normSq vprev)
    (hgood : ∀ Y1, Y.set n (p - q) = .ok Y1 → Gjk.JoltGood Y1 (n + 1))
    (h : intersectionLoop p q Y.toArray n tolSq (V3.normSq vprev) (-vprev) = .ok s)
    (hbr : s.br = 1 ∨ s.br = 5) (hdeep : SharedDeep A B δ)
    (hdiam : EPS * V3.normSq (vprev - (p - q)) < 4 * δ * δ) : False := by
  have hn : n ≤ 3 := by
    rcases step_cases h with ⟨_, rfl⟩ | ⟨_, hsz, _⟩
    · simp at hbr
    · have : n < 4 := hsz
      omega
  obtain ⟨Y1, hY1⟩ := Gjk.set_ok Y n (p - q) hn
  exact jolt_false_stall_not_deep hδ hA hB h hbr hpos
    (jolt_solverBeatsSegment hv hY1 (hgood Y1 hY1)) hdeep hdiam

/-! ## (2) the loop invariant -/

/-- what the function-level theorems assume about the two colliders: convex sets with support mappings -/
structure JoltPair (A B : V → Prop) (sA sB : V → V) : Prop where
  convA : ConvexSet A
  convB : ConvexSet B
  supA : ∀ d, IsSupport A d (sA d)
  supB : ∀ d, IsSupport B d (sB d)

/-- **the loop invariant is preserved through `update_simplex_y`.**  If at the head of the loop at most three
rows are valid, all of them points of `A ⊖ B`, and either nothing has happened yet (`n = 0`,
`prev = MAX_FLOAT`, `dir = e_x`) or `dir = -v`, `prev = |v|² > 0` for a `v` in the hull of the valid rows
(`Inv`), then after a call that answers `Unknown` on a `JoltGood` simplex the same holds for the returned
variables — `update_simplex_y` keeps a subset of the stored rows, the new iterate is in their hull — and
`tolerance² < prev' < (1 - EPSILON)·prev`. -/
theorem jolt_inv_preserved {A B : V → Prop} (hcA : ConvexSet A) (hcB : ConvexSet B) {Y : A4 V} {n : Nat}
    {prev : ℝ} {dir : V} (hinv : Inv A B Y n prev dir) {p q : V} (hp : A p) (hq : B q) {tolSq : ℝ}
    (htol : 0 ≤ tolSq) (hgood : ∀ Y1, Y.set n (p - q) = .ok Y1 → Gjk.JoltGood Y1 (n + 1)) {s : Step ℝ}
    (h : intersectionLoop p q Y.toArray n tolSq prev dir = .ok s) (hs : s.state = .unknown) :
    ∃ Y' : A4 V, s.Y = Y'.toArray ∧ Inv A B Y' s.nPoints s.prev s.dir ∧
      s.prev < (1 - EPS) * prev ∧ tolSq < s.prev := by
  obtain ⟨Y', h1, h2, h3, h4, _⟩ := step_next_inv hcA hcB hinv hp hq htol hgood h hs
  exact ⟨Y', h1, h2, h3, h4⟩

/-- **the invariant holds in every reachable loop state** of `gjk_intersection_jolt` (first iteration
included), provided every simplex handed to the solver on the way is `JoltGood`. -/
theorem jolt_inv_reachable {A B : V → Prop} {sA sB : V → V} (S : JoltPair A B sA sB) {tol : ℝ}
    (hvis : VisitedGood Gjk.JoltGood sA sB (tol * tol) lstate0) :
    ∀ st, Reach sA sB (tol * tol) lstate0 st →
      ∃ Y : A4 V, st.Y = Y.toArray ∧ Inv A B Y st.n st.prev st.dir :=
  reach_inv S.convA S.convB S.supA S.supB (mul_self_nonneg tol) (linv_lstate0 A B) hvis

/-- non-vacuity of `Inv`: the initial loop variables satisfy it -/
example (A B : V → Prop) : ∃ Y : A4 V, lstate0.Y = Y.toArray ∧ Inv A B Y lstate0.n lstate0.prev lstate0.dir :=
  linv_lstate0 A B

/-- **C02 (1b) in every reachable state.**  In every loop state reachable by `gjk_intersection_jolt`, an
`Intersection` answer of the next call exhibits `a ∈ A`, `b ∈ B` that coincide (`0xf`), or have
`|a - b|² ≤ tolerance²`, or `|a - b|² ≤ EPSILON·|y|²` for a point `y` of `A ⊖ B`. -/
theorem jolt_reach_true_sound {A B : V → Prop} {sA sB : V → V} (S : JoltPair A B sA sB) {tol : ℝ}
    (hvis : VisitedGood Gjk.JoltGood sA sB (tol * tol) lstate0) {st : LState}
    (hreach : Reach sA sB (tol * tol) lstate0 st) {s : Step ℝ}
    (h : intersectionLoop (sA st.dir) (sB (-st.dir)) st.Y st.n (tol * tol) st.prev st.dir = .ok s)
    (hs : s.state = .intersection) :
    ∃ a b, A a ∧ B b ∧
      ((s.br = 2 ∧ a = b) ∨ (s.br = 3 ∧ V3.normSq (a - b) ≤ tol * tol) ∨
       (s.br = 4 ∧ ∃ y, mdiff A B y ∧ V3.normSq (a - b) ≤ EPS * V3.normSq y)) := by
  obtain ⟨Y, hY, hinv⟩ := jolt_inv_reachable S hvis st hreach
  rw [hY] at h
  have hnot : ¬ V3.dot st.dir (st.w sA sB) < -EPS := by
    rcases step_cases h with ⟨_, rfl⟩ | ⟨h0, _⟩
    · cases hs
    · exact h0
  exact step_true_inv S.convA S.convB hinv (S.supA _).1 (S.supB _).1
    (fun Y1 hY1 => hvis st hreach hnot Y Y1 hY hY1) h hs

/-- **C02 (1c) in every reachable state, all three False exits, first iteration included.**  If the pair
shares a point `δ`-inside both, `EPSILON·|y - y'|² < 4δ²` on `A ⊖ B` and the first support point is finite,
then in no reachable loop state does the next call answer `NoIntersection`. -/
theorem jolt_reach_false_not_deep {A B : V → Prop} {sA sB : V → V} (S : JoltPair A B sA sB) {tol : ℝ}
    (hvis : VisitedGood Gjk.JoltGood sA sB (tol * tol) lstate0) {δ : ℝ} (hδ : 0 < δ)
    (hdeep : SharedDeep A B δ)
    (hdiam : ∀ y y', mdiff A B y → mdiff A B y' → EPS * V3.normSq (y - y') < 4 * δ * δ)
    (hfin : V3.normSq (sA e1 - sB (-e1)) < (1 - EPS) * MAXF) {st : LState}
    (hreach : Reach sA sB (tol * tol) lstate0 st) {s : Step ℝ}
    (h : intersectionLoop (sA st.dir) (sB (-st.dir)) st.Y st.n (tol * tol) st.prev st.dir = .ok s) :
    s.state ≠ .noIntersection := by
  intro hs
  obtain ⟨Y, hY, hinv⟩ := jolt_inv_reachable S hvis st hreach
  rw [hY] at h
  exact step_false_not_deep_inv S.convA S.convB hinv (S.supA _) (S.supB _)
    (fun hnot Y1 hY1 => hvis st hreach hnot Y Y1 hY hY1) h hs hδ hdeep hdiam
    (fun hd => by rw [hd]; exact hfin)

/-! ## (2) function level -/

theorem fn_last {A B : V → Prop} {sA sB : V → V} (S : JoltPair A B sA sB) {tol : ℝ}
    (hvis : VisitedGood Gjk.JoltGood sA sB (tol * tol) lstate0) {fuel its br : Nat} {b : Bool}
    (h : gjkIntersectionJolt sA sB tol fuel = .ok (b, its, br)) :
    ∃ (st : LState) (s : Step ℝ), Reach sA sB (tol * tol) lstate0 st ∧
      intersectionLoop (sA st.dir) (sB (-st.dir)) st.Y st.n (tol * tol) st.prev st.dir = .ok s ∧
      s.br = br ∧ (b = true → s.state = .intersection) ∧ (b = false → s.state = .noIntersection) := by
  obtain ⟨st, s, hreach, _, _, hs, hbr, h1, h2⟩ :=
    gjkLoop_last_inv S.convA S.convB S.supA S.supB (mul_self_nonneg tol) fuel 0 lstate0 b its br
      (linv_lstate0 A B) hvis h
  exact ⟨st, s, hreach, hs, hbr, h1, h2⟩

/-- **C02 (a), function level.**  Whenever `gjk_intersection_jolt` answers through the separating-axis test
(exit branch 0) the answer is False and the colliders are disjoint.  (No hypothesis on the solver or on the
simplices: this is `jolt_false_sep_axis`, restated next to (b) and (c).) -/
theorem jolt_fn_false_sep_axis {A B : V → Prop} {sA sB : V → V} (S : JoltPair A B sA sB) {tol : ℝ}
    {fuel its : Nat} {b : Bool} (h : gjkIntersectionJolt sA sB tol fuel = .ok (b, its, 0)) :
    b = false ∧ Disjoint' A B :=
  jolt_false_sep_axis S.supA S.supB h

/-- **C02 (b), function level: `true_sound`.**  If `gjk_intersection_jolt` (model, any fuel, any tolerance)
answers True and every simplex handed to the solver is `JoltGood`, there are `a ∈ A`, `b ∈ B` with `a = b`
(exit `0xf`), or `|a - b|² ≤ tolerance²`, or `|a - b|² ≤ EPSILON·|y|²` for some `y ∈ A ⊖ B`. -/
theorem jolt_fn_true_sound {A B : V → Prop} {sA sB : V → V} (S : JoltPair A B sA sB) {tol : ℝ}
    (hvis : VisitedGood Gjk.JoltGood sA sB (tol * tol) lstate0) {fuel its br : Nat}
    (h : gjkIntersectionJolt sA sB tol fuel = .ok (true, its, br)) :
    ∃ a b, A a ∧ B b ∧
      ((br = 2 ∧ a = b) ∨ (br = 3 ∧ V3.normSq (a - b) ≤ tol * tol) ∨
       (br = 4 ∧ ∃ y, mdiff A B y ∧ V3.normSq (a - b) ≤ EPS * V3.normSq y)) := by
  obtain ⟨st, s, hreach, hs, hbr, h1, _⟩ := fn_last S hvis h
  rw [← hbr]
  exact jolt_reach_true_sound S hvis hreach hs (h1 rfl)

/-- **C02 (b), function level, as a distance bound.**  If `|y| ≤ R` on `A ⊖ B` and `tolerance ≥ 0`, a True
answer implies `dist(A, B) ≤ max(tolerance, √EPSILON · R)`: there are `a ∈ A`, `b ∈ B` that close. -/
theorem jolt_fn_true_dist {A B : V → Prop} {sA sB : V → V} (S : JoltPair A B sA sB) {tol R : ℝ}
    (htol : 0 ≤ tol) (hR : ∀ y, mdiff A B y → V3.norm y ≤ R)
    (hvis : VisitedGood Gjk.JoltGood sA sB (tol * tol) lstate0) {fuel its br : Nat}
    (h : gjkIntersectionJolt sA sB tol fuel = .ok (true, its, br)) :
    ∃ a b, A a ∧ B b ∧ V3.norm (a - b) ≤ max tol (Real.sqrt EPS * R) := by
  obtain ⟨a, b, ha, hb, hc⟩ := jolt_fn_true_sound S hvis h
  refine ⟨a, b, ha, hb, ?_⟩
  rcases hc with ⟨_, hab⟩ | ⟨_, h3⟩ | ⟨_, y, hy, h4⟩
  · have : V3.norm (a - b) = 0 := by
      rw [hab, Gjk.sub_self_vec, V3.norm_def]
      simp [V3.normSq_def]
    rw [this]
    exact le_trans htol (le_max_left _ _)
  · exact le_trans (Gjk.norm_le_of_normSq_le htol h3) (le_max_left _ _)
  · have hyR := hR y hy
    have hR0 : 0 ≤ R := le_trans (V3.norm_nonneg y) hyR
    have hs0 : 0 ≤ Real.sqrt EPS * R := mul_nonneg (Real.sqrt_nonneg _) hR0
    have hy2 : V3.normSq y ≤ R * R := Gjk.normSq_le_of_norm_le hyR
    have hsq : Real.sqrt EPS * Real.sqrt EPS = EPS := Real.mul_self_sqrt EPS_pos.le
    refine le_trans (Gjk.norm_le_of_normSq_le hs0 ?_) (le_max_right _ _)
    calc V3.normSq (a - b) ≤ EPS * V3.normSq y := h4
      _ ≤ EPS * (R * R) := mul_le_mul_of_nonneg_left hy2 EPS_pos.le
      _ = Real.sqrt EPS * R * (Real.sqrt EPS * R) := by linear_combination (-(R * R)) * hsq

/-- **C02 (b), function level, ground-truth form.**  On a pair separated by a slab of width `δ` with
`tolerance² < δ²` and `EPSILON·|y|² < δ²` on `A ⊖ B`, every answer of `gjk_intersection_jolt` is False. -/
theorem jolt_fn_gap_false {A B : V → Prop} {sA sB : V → V} (S : JoltPair A B sA sB) {tol : ℝ}
    (hvis : VisitedGood Gjk.JoltGood sA sB (tol * tol) lstate0) {nrm : V} {δ : ℝ} (hδ : 0 < δ)
    (hslab : Slab A B nrm δ) (htol : tol * tol < δ * δ)
    (hrel : ∀ y, mdiff A B y → EPS * V3.normSq y < δ * δ) {fuel its br : Nat} {b : Bool}
    (h : gjkIntersectionJolt sA sB tol fuel = .ok (b, its, br)) : b = false := by
  cases b
  · rfl
  exfalso
  obtain ⟨a, c, ha, hc, hcase⟩ := jolt_fn_true_sound S hvis h
  have hgap := slab_gap hδ.le hslab a c ha hc
  rcases hcase with ⟨_, hab⟩ | ⟨_, h3⟩ | ⟨_, y, hy, h4⟩
  · exact slab_disjoint hδ hslab a ⟨ha, hab ▸ hc⟩
  · linarith
  · have := hrel y hy; linarith

/-- **C02 (c), function level: a `δ`-deep pair is answered True.**  If the colliders share a point `δ`-inside
both, `EPSILON·|y - y'|² < 4δ²` on `A ⊖ B` (`diam(A ⊖ B) < 2δ/√EPSILON ≈ 1.3e8·δ`), the first support point is
finite (`|w₀|² < (1-EPSILON)·MAX_FLOAT`) and every simplex handed to the solver is `JoltGood`, then none of
the three False exits of `_intersection_loop` (separating axis, solver reports no improvement, stall) can be
taken in any iteration — the first included — so every answer of `gjk_intersection_jolt` is True, through one
of the exits 2, 3, 4. -/
theorem jolt_fn_deep_true {A B : V → Prop} {sA sB : V → V} (S : JoltPair A B sA sB) {tol : ℝ}
    (hvis : VisitedGood Gjk.JoltGood sA sB (tol * tol) lstate0) {δ : ℝ} (hδ : 0 < δ)
    (hdeep : SharedDeep A B δ)
    (hdiam : ∀ y y', mdiff A B y → mdiff A B y' → EPS * V3.normSq (y - y') < 4 * δ * δ)
    (hfin : V3.normSq (sA e1 - sB (-e1)) < (1 - EPS) * MAXF) {fuel its br : Nat} {b : Bool}
    (h : gjkIntersectionJolt sA sB tol fuel = .ok (b, its, br)) :
    b = true ∧ (br = 2 ∨ br = 3 ∨ br = 4) := by
  obtain ⟨st, s, hreach, hs, hbr, h1, h2⟩ := fn_last S hvis h
  have hne := jolt_reach_false_not_deep S hvis hδ hdeep hdiam hfin hreach hs
  have hb : b = true := by
    cases b
    · exact absurd (h2 rfl) hne
    · rfl
  refine ⟨hb, ?_⟩
  obtain ⟨_, r, _, hcase⟩ := step_intersection hs (h1 hb)
  rw [← hbr]
  rcases hcase with ⟨h2', _⟩ | ⟨h3, _⟩ | ⟨h4, _⟩
  · exact Or.inl h2'
  · exact Or.inr (Or.inl h3)
  · exact Or.inr (Or.inr h4)

/-- **no failure in reachable states**: in every reachable loop state, on a `JoltGood` simplex, the next call
of `_intersection_loop` returns normally — no `IndexError` (`n ≤ 3`), no `ZeroDivisionError` /
`assert False` in the solver, and `assert prev_v_len_sq >= v_len_sq` cannot fire. -/
theorem jolt_fn_step_no_failure {A B : V → Prop} {sA sB : V → V} (S : JoltPair A B sA sB) {tol : ℝ}
    (hvis : VisitedGood Gjk.JoltGood sA sB (tol * tol) lstate0) {st : LState}
    (hreach : Reach sA sB (tol * tol) lstate0 st) :
    ∃ s, intersectionLoop (sA st.dir) (sB (-st.dir)) st.Y st.n (tol * tol) st.prev st.dir = .ok s := by
  obtain ⟨Y, hY, hinv⟩ := jolt_inv_reachable S hvis st hreach
  rw [hY]
  exact step_ok S.convA S.convB hinv (S.supA _).1 (S.supB _).1 _
    (fun hnot Y1 hY1 => hvis st hreach hnot Y Y1 hY hY1)

/-- **termination**: for `tolerance ≠ 0` there is an `N` such that `gjk_intersection_jolt` returns a boolean
(neither an exception nor fuel exhaustion) for every fuel `≥ N`, when every visited simplex is `JoltGood`. -/
theorem jolt_fn_terminates {A B : V → Prop} {sA sB : V → V} (S : JoltPair A B sA sB) {tol : ℝ}
    (htol : tol ≠ 0) (hvis : VisitedGood Gjk.JoltGood sA sB (tol * tol) lstate0) :
    ∃ N, ∀ fuel, N ≤ fuel → ∃ res, gjkIntersectionJolt sA sB tol fuel = .ok res := by
  obtain ⟨N, hN⟩ := loop_terminates S.convA S.convB S.supA S.supB
    (mul_self_pos.mpr htol) (linv_lstate0 A B) hvis
  exact ⟨N, fun fuel hf => hN fuel 0 hf⟩

/-- **total form of (c)**: under the hypotheses of `jolt_fn_deep_true` and `tolerance ≠ 0`,
`gjk_intersection_jolt` returns True for every sufficiently large fuel. -/
theorem jolt_fn_deep_answers_true {A B : V → Prop} {sA sB : V → V} (S : JoltPair A B sA sB) {tol : ℝ}
    (htol : tol ≠ 0) (hvis : VisitedGood Gjk.JoltGood sA sB (tol * tol) lstate0) {δ : ℝ} (hδ : 0 < δ)
    (hdeep : SharedDeep A B δ)
    (hdiam : ∀ y y', mdiff A B y → mdiff A B y' → EPS * V3.normSq (y - y') < 4 * δ * δ)
    (hfin : V3.normSq (sA e1 - sB (-e1)) < (1 - EPS) * MAXF) :
    ∃ N, ∀ fuel, N ≤ fuel → ∃ its br, gjkIntersectionJolt sA sB tol fuel = .ok (true, its, br) := by
  obtain ⟨N, hN⟩ := jolt_fn_terminates S htol hvis
  refine ⟨N, fun fuel hf => ?_⟩
  obtain ⟨⟨b, its, br⟩, hres⟩ := hN fuel hf
  obtain ⟨hb, _⟩ := jolt_fn_deep_true S hvis hδ hdeep hdiam hfin hres
  subst hb
  exact ⟨its, br, hres⟩

/-- **total form of (a)/(b)**: on a pair separated by a slab of width `δ > max(|tolerance|, √EPSILON·|y|)`,
`tolerance ≠ 0`, `gjk_intersection_jolt` returns False for every sufficiently large fuel. -/
theorem jolt_fn_gap_answers_false {A B : V → Prop} {sA sB : V → V} (S : JoltPair A B sA sB) {tol : ℝ}
    (htol0 : tol ≠ 0) (hvis : VisitedGood Gjk.JoltGood sA sB (tol * tol) lstate0) {nrm : V} {δ : ℝ}
    (hδ : 0 < δ) (hslab : Slab A B nrm δ) (htol : tol * tol < δ * δ)
    (hrel : ∀ y, mdiff A B y → EPS * V3.normSq y < δ * δ) :
    ∃ N, ∀ fuel, N ≤ fuel → ∃ its br, gjkIntersectionJolt sA sB tol fuel = .ok (false, its, br) := by
  obtain ⟨N, hN⟩ := jolt_fn_terminates S htol0 hvis
  refine ⟨N, fun fuel hf => ?_⟩
  obtain ⟨⟨b, its, br⟩, hres⟩ := hN fuel hf
  have hb := jolt_fn_gap_false S hvis hδ hslab htol hrel hres
  subst hb
  exact ⟨its, br, hres⟩

/-! ## discharging `VisitedGood` -/

/-- **discharging `VisitedGood JoltGood`** from a property of the two sets: if every simplex of at most four
points of `A ⊖ B` is outside the C18 bands, so is every simplex a run of `gjk_intersection_jolt` hands to the
solver. -/
theorem jolt_visitedGood_of_mdiff {A B : V → Prop} {sA sB : V → V} (S : JoltPair A B sA sB) {tol : ℝ}
    (hall : ∀ (Y : A4 V) (n : Nat), n ≤ 4 → (∀ y ∈ Y.pre n, mdiff A B y) → Gjk.JoltGood Y n) :
    VisitedGood Gjk.JoltGood sA sB (tol * tol) lstate0 :=
  visitedGood_of_mdiff S.convA S.convB S.supA S.supB (mul_self_nonneg tol) hall (linv_lstate0 A B)

/-! ## fully discharged instances (non-vacuity of the function-level theorems) -/

/-- two one-point sets `{pA}`, `{pB}` with their (constant) support mappings -/
theorem two_points_pair (pA pB : V) :
    JoltPair (fun x : V => x = pA) (fun x : V => x = pB) (fun _ => pA) (fun _ => pB) where
  convA := by
    intro x y hx hy t _ _; rw [hx, hy]; apply V3.ext' <;> simp <;> ring
  convB := by
    intro x y hx hy t _ _; rw [hx, hy]; apply V3.ext' <;> simp <;> ring
  supA := fun d => ⟨rfl, fun x hx => by rw [hx]⟩
  supB := fun d => ⟨rfl, fun x hx => by rw [hx]⟩

/-- for two points every simplex a run visits consists of copies of `pA - pB`, which is `JoltGood` -/
theorem two_points_visitedGood (pA pB : V) (hfin : V3.dot (pA - pB) (pA - pB) < Simplex.MAXF) (tol : ℝ) :
    VisitedGood Gjk.JoltGood (fun _ => pA) (fun _ => pB) (tol * tol) lstate0 := by
  refine jolt_visitedGood_of_mdiff (two_points_pair pA pB) ?_
  intro Y n hn hY
  refine C01.joltGood_const (pA - pB) hfin Y n hn ?_
  intro y hy
  obtain ⟨a, b, ha, hb, he⟩ := hY y hy
  rw [he, ha, hb]

/-- non-vacuity of (b): for `A = B = {(1,2,3)}` every hypothesis of `jolt_fn_true_sound` /
`jolt_fn_terminates` holds, so the function returns for every large enough fuel, and a True answer yields
the common point -/
example : ∃ N, ∀ fuel, N ≤ fuel → ∃ res, gjkIntersectionJolt (fun _ => (⟨1, 2, 3⟩ : V))
    (fun _ => (⟨1, 2, 3⟩ : V)) (1e-10 : ℝ) fuel = .ok res := by
  refine jolt_fn_terminates (two_points_pair _ _) (by norm_num) (two_points_visitedGood _ _ ?_ _)
  norm_num [V3.dot_def, Simplex.MAXF, D3.Gen.utils__MAX_FLOAT]

/-- non-vacuity of the gap form: `A = {0}`, `B = {(-5,0,0)}` (`A ⊖ B = {(5,0,0)}`, slab normal `-e_x`, width
`5`): all hypotheses of `jolt_fn_gap_answers_false` hold — the run stores `w = (5,0,0)`, meets the exact
duplicate `[w, w]` in the second iteration and answers False -/
example : ∃ N, ∀ fuel, N ≤ fuel → ∃ its br, gjkIntersectionJolt (fun _ => (⟨0, 0, 0⟩ : V))
    (fun _ => (⟨-5, 0, 0⟩ : V)) (1e-10 : ℝ) fuel = .ok (false, its, br) := by
  refine jolt_fn_gap_answers_false (two_points_pair _ _) (by norm_num) (two_points_visitedGood _ _ ?_ _)
    (nrm := ⟨-1, 0, 0⟩) (δ := 5) (by norm_num) ⟨by simp [V3.normSq_def], ?_⟩ (by norm_num) ?_
  · norm_num [V3.dot_def, Simplex.MAXF, D3.Gen.utils__MAX_FLOAT]
  · rintro y ⟨a, b, rfl, rfl, rfl⟩
    simp [V3.dot_def]
  · rintro y ⟨a, b, rfl, rfl, rfl⟩
    simp only [V3.normSq_def, V3.sub_x, V3.sub_y, V3.sub_z, EPS, D3.Gen.utils__EPSILON]
    norm_num

/-- the cube `[-1,1]³` -/
def cube : V → Prop := fun x => (-1 ≤ x.x ∧ x.x ≤ 1) ∧ (-1 ≤ x.y ∧ x.y ≤ 1) ∧ (-1 ≤ x.z ∧ x.z ≤ 1)

/-- `+1` for `t ≥ 0`, `-1` otherwise -/
noncomputable def sgn (t : ℝ) : ℝ := if 0 ≤ t then 1 else -1

/-- a support mapping of the cube: the vertex in the octant of `d` -/
noncomputable def cubeSup (d : V) : V := ⟨sgn d.x, sgn d.y, sgn d.z⟩

theorem sgn_bounds (t : ℝ) : -1 ≤ sgn t ∧ sgn t ≤ 1 := by
  unfold sgn; split <;> norm_num

theorem sgn_mul (t x : ℝ) (h1 : -1 ≤ x) (h2 : x ≤ 1) : t * x ≤ t * sgn t := by
  unfold sgn; split <;> nlinarith

theorem seg_bounds {t a b lo hi : ℝ} (ha : lo ≤ a ∧ a ≤ hi) (hb : lo ≤ b ∧ b ≤ hi) (h0 : 0 ≤ t)
    (h1 : t ≤ 1) : lo ≤ (1 - t) * a + t * b ∧ (1 - t) * a + t * b ≤ hi := by
  have h1' : 0 ≤ 1 - t := by linarith
  constructor
  · nlinarith [mul_nonneg h1' (sub_nonneg.mpr ha.1), mul_nonneg h0 (sub_nonneg.mpr hb.1)]
  · nlinarith [mul_nonneg h1' (sub_nonneg.mpr ha.2), mul_nonneg h0 (sub_nonneg.mpr hb.2)]

theorem cube_pair : JoltPair cube cube cubeSup cubeSup where
  convA := fun x y hx hy t h0 h1 =>
    ⟨seg_bounds hx.1 hy.1 h0 h1, seg_bounds hx.2.1 hy.2.1 h0 h1, seg_bounds hx.2.2 hy.2.2 h0 h1⟩
  convB := fun x y hx hy t h0 h1 =>
    ⟨seg_bounds hx.1 hy.1 h0 h1, seg_bounds hx.2.1 hy.2.1 h0 h1, seg_bounds hx.2.2 hy.2.2 h0 h1⟩
  supA := fun d => ⟨⟨sgn_bounds _, sgn_bounds _, sgn_bounds _⟩, fun x hx => by
    have := sgn_mul d.x x.x hx.1.1 hx.1.2
    have := sgn_mul d.y x.y hx.2.1.1 hx.2.1.2
    have := sgn_mul d.z x.z hx.2.2.1 hx.2.2.2
    simp only [V3.dot_def, cubeSup]; linarith⟩
  supB := fun d => ⟨⟨sgn_bounds _, sgn_bounds _, sgn_bounds _⟩, fun x hx => by
    have := sgn_mul d.x x.x hx.1.1 hx.1.2
    have := sgn_mul d.y x.y hx.2.1.1 hx.2.1.2
    have := sgn_mul d.z x.z hx.2.2.1 hx.2.2.2
    simp only [V3.dot_def, cubeSup]; linarith⟩

/-- the two cubes share the origin `1`-deep -/
theorem cube_deep : SharedDeep cube cube 1 := by
  have h : DeepIn cube ⟨0, 0, 0⟩ 1 := by
    intro x hx
    simp only [V3.normSq_def, V3.sub_x, V3.sub_y, V3.sub_z] at hx
    refine ⟨⟨?_, ?_⟩, ⟨?_, ?_⟩, ⟨?_, ?_⟩⟩ <;>
      nlinarith [mul_self_nonneg x.x, mul_self_nonneg x.y, mul_self_nonneg x.z]
  exact ⟨_, h, h⟩

theorem cube_diam : ∀ y y', mdiff cube cube y → mdiff cube cube y' →
    EPS * V3.normSq (y - y') < 4 * 1 * 1 := by
  rintro y y' ⟨a, b, ha, hb, rfl⟩ ⟨a', b', ha', hb', rfl⟩
  have hsq : ∀ u : ℝ, -4 ≤ u → u ≤ 4 → u * u ≤ 16 := fun u h1 h2 => by nlinarith
  obtain ⟨⟨a1, a2⟩, ⟨a3, a4⟩, ⟨a5, a6⟩⟩ := ha
  obtain ⟨⟨b1, b2⟩, ⟨b3, b4⟩, ⟨b5, b6⟩⟩ := hb
  obtain ⟨⟨c1, c2⟩, ⟨c3, c4⟩, ⟨c5, c6⟩⟩ := ha'
  obtain ⟨⟨d1, d2⟩, ⟨d3, d4⟩, ⟨d5, d6⟩⟩ := hb'
  have h48 : V3.normSq (a - b - (a' - b')) ≤ 48 := by
    simp only [V3.normSq_def, V3.sub_x, V3.sub_y, V3.sub_z]
    have := hsq (a.x - b.x - (a'.x - b'.x)) (by linarith) (by linarith)
    have := hsq (a.y - b.y - (a'.y - b'.y)) (by linarith) (by linarith)
    have := hsq (a.z - b.z - (a'.z - b'.z)) (by linarith) (by linarith)
    linarith
  have hE : (EPS : ℝ) * 48 < 4 * 1 * 1 := by
    unfold EPS D3.Gen.utils__EPSILON; norm_num
  exact lt_of_le_of_lt (mul_le_mul_of_nonneg_left h48 EPS_pos.le) hE

/-- first support point of the pair of cubes: `(1,1,1) - (-1,1,1)` -/
theorem cube_w0 : cubeSup e1 - cubeSup (-e1) = (⟨2, 0, 0⟩ : V) := by
  apply V3.ext' <;> norm_num [cubeSup, sgn]

/-- second support point: `(-1,1,1) - (1,1,1)` -/
theorem cube_w1 : cubeSup ⟨-2, 0, 0⟩ - cubeSup (-⟨-2, 0, 0⟩) = (⟨-2, 0, 0⟩ : V) := by
  apply V3.ext' <;> norm_num [cubeSup, sgn]

theorem cube_fin : V3.normSq (cubeSup e1 - cubeSup (-e1)) < (1 - EPS) * MAXF := by
  rw [cube_w0]
  simp only [V3.normSq_def, EPS, MAXF, D3.Gen.utils__EPSILON, D3.Gen.utils__MAX_FLOAT]
  norm_num

theorem cube_good2 {Y Y1 : A4 V} (h0 : Y.r0 = ⟨2, 0, 0⟩) (h : Y.set 1 (⟨-2, 0, 0⟩ : V) = .ok Y1) :
    Gjk.JoltGood Y1 2 := by
  obtain ⟨a, b, c, d⟩ := Y
  cases h
  simp only at h0
  subst h0
  refine Gjk.joltGood_2 (Or.inl ?_)
  norm_num [V3.dot_def, Simplex.EPS2, D3.Gen.gjk__gjk_jolt__EPSILON_SQR]

/-- **a fully discharged deep instance**: for two cubes `[-1,1]³` (support mapping: the vertex in the octant of
the direction) the run of `gjk_intersection_jolt` visits exactly two simplices — `[(2,0,0)]` and
`[(2,0,0), (-2,0,0)]` — and both are `JoltGood` -/
theorem cube_visitedGood (tol : ℝ) :
    VisitedGood Gjk.JoltGood cubeSup cubeSup (tol * tol) lstate0 := by
  refine visitedGood_of_closed
    (fun st => st = lstate0 ∨ ∃ Y4 : A4 V, st.Y = Y4.toArray ∧ st.n = 1 ∧ Y4.r0 = ⟨2, 0, 0⟩ ∧
      st.dir = ⟨-2, 0, 0⟩ ∧ st.prev = 4) (Or.inl rfl) ?_ ?_
  · intro st s hP hs hunk
    rcases hP with rfl | ⟨Y4, hY, hn, hr0, hdir, hprev⟩
    · obtain ⟨Y4', h1, h2, h3, h4, h5⟩ :=
        first_step_next (Y4 := ⟨⟨0, 0, 0⟩, ⟨0, 0, 0⟩, ⟨0, 0, 0⟩, ⟨0, 0, 0⟩⟩) hs hunk
      have hw : cubeSup lstate0.dir - cubeSup (-lstate0.dir) = (⟨2, 0, 0⟩ : V) := cube_w0
      rw [hw] at h3 h4 h5
      refine Or.inr ⟨Y4', h1, h2, h3, ?_, ?_⟩
      · show s.dir = _
        rw [h4]; apply V3.ext' <;> simp
      · show s.prev = _
        rw [h5]; norm_num [V3.normSq_def]
    · exfalso
      obtain ⟨Y, n, prev, dir⟩ := st
      simp only at hY hn hdir hprev hs
      subst hY hn hdir hprev
      rcases step_cases hs with ⟨_, rfl⟩ | ⟨_, _, r, hr, hcase⟩
      · cases hunk
      rcases hcase with ⟨_, rfl⟩ | ⟨_, _, rfl⟩ | ⟨_, _, _, rfl⟩ | ⟨_, _, htl, m, _, _⟩
      · cases hunk
      · cases hunk
      · cases hunk
      obtain ⟨Y1, hY1⟩ := Gjk.set_ok Y4 1 (⟨-2, 0, 0⟩ : V) (by norm_num)
      have hv : Gjk.InHull (Y4.pre 1) (⟨2, 0, 0⟩ : V) := by
        refine ⟨[1], rfl, by simp, by simp, ?_⟩
        obtain ⟨a, b, c, d⟩ := Y4
        simp only at hr0
        subst hr0
        apply V3.ext' <;> simp [A4.pre, A4.toList, Gjk.lincomb]
      have h4 : (4 : ℝ) = V3.normSq (⟨2, 0, 0⟩ : V) := by norm_num [V3.normSq_def]
      rw [h4, cube_w1] at hr
      obtain ⟨_, hseg⟩ := jolt_solverBeatsSegment hv hY1 (cube_good2 hr0 hY1) r hr
      have := hseg (1 / 2) (by norm_num) (by norm_num)
      have h0 : V3.normSq ((1 - 1 / 2 : ℝ) * (⟨2, 0, 0⟩ : V) + (1 / 2 : ℝ) * (⟨-2, 0, 0⟩ : V)) = 0 := by
        simp only [V3.normSq_def, V3.add_x, V3.add_y, V3.add_z, V3.smul_x, V3.smul_y, V3.smul_z]
        norm_num
      rw [h0] at this
      nlinarith [mul_self_nonneg tol]
  · intro st hP Y4 Y1 hY hY1
    rcases hP with rfl | ⟨Y4', hY', hn, hr0, hdir, hprev⟩
    · exact Gjk.joltGood_1 Y1
    · have : Y4 = Y4' := toArray_inj (by rw [← hY, ← hY'])
      subst this
      obtain ⟨Y, n, prev, dir⟩ := st
      simp only at hY hn hdir hprev hY1
      subst hn hdir
      simp only [LState.w] at hY1
      rw [cube_w1] at hY1
      exact cube_good2 hr0 hY1

/-- **non-vacuity of (c) and of the invariant theorems**: for the two cubes every hypothesis of
`jolt_fn_deep_answers_true` (hence of `jolt_fn_deep_true`, `jolt_reach_false_not_deep`, `jolt_inv_reachable`,
`jolt_fn_terminates`, `jolt_fn_step_no_failure`) is discharged: `gjk_intersection_jolt` with the real solver
answers True for every fuel beyond some `N` -/
example : ∃ N, ∀ fuel, N ≤ fuel →
    ∃ its br, gjkIntersectionJolt cubeSup cubeSup (1e-10 : ℝ) fuel = .ok (true, its, br) :=
  jolt_fn_deep_answers_true cube_pair (by norm_num) (cube_visitedGood _) (by norm_num) cube_deep
    cube_diam cube_fin

/-! ## (3) exits that answer by fiat -/

/-- **C02 `mpr_iteration_cap_exit`.**  If `_discover_portal` leaves its loop through `it >= max_iterations`
with an unfinished portal (discover branch 6), the portal it declares "built" has a repeated vertex (`v2 = v3`
or `v1 = v3`: the last `_iterate_discover_portal` call copied `v3` over one of them), `_portal_direction` of
it is `norm_vector(0) = 0`, the first test of `_refine_portal` reads `v1·0 = 0 > -10·EPSILON`, and
`mpr_intersection` answers True in the first refinement pass — for every pair of colliders, every support
mapping, every tolerance.  The answer carries no geometric information (in particular nothing prevents it on a
separated pair whose discovery phase needs more than `max_iterations` passes). -/
theorem mpr_iteration_cap_exit (c1 c2 : V) (sA sB : V → V) (tol : ℝ) (maxIt fuel : Nat)
    (h : (IsectMpr.discoverPortal c1 c2 (IsectMpr.supMD sA sB) maxIt).br = 6) :
    (IsectMpr.discoverPortal c1 c2 (IsectMpr.supMD sA sB) maxIt).state = .portalWasBuilt ∧
    IsectMpr.Dup (IsectMpr.discoverPortal c1 c2 (IsectMpr.supMD sA sB) maxIt).P ∧
    IsectMpr.portalDirection (IsectMpr.discoverPortal c1 c2 (IsectMpr.supMD sA sB) maxIt).P = ⟨0, 0, 0⟩ ∧
    IsectMpr.mprIntersection c1 c2 sA sB tol maxIt (fuel + 1) = .ok (true, 6, 0) := by
  obtain ⟨hst, hdup⟩ := IsectMpr.discoverPortal_cap c1 c2 _ maxIt h
  exact ⟨hst, hdup, IsectMpr.portalDirection_dup hdup,
    IsectMpr.mprIntersection_cap c1 c2 sA sB tol maxIt fuel h⟩

/-- non-vacuity of branch 6: the last allowed pass of the discover loop (`k = 0`) on the portal
`v0 = (0,0,-1)`, `v1 = (1,0,1)`, `v2 = (0,1,1)` with direction `e_z` and support point `(0,1,1)`: the side test
`(v1 × v3)·v0 = -1 < EPSILON` replaces `v2` by `v3` and the cap declares the portal built -/
example : (IsectMpr.discoverLoop (fun _ => (⟨0, 1, 1⟩ : V)) 0 0
    ⟨⟨0, 0, -1⟩, ⟨1, 0, 1⟩, ⟨0, 1, 1⟩, ⟨0, 0, 0⟩⟩ ⟨0, 0, 1⟩).br = 6 := by
  unfold IsectMpr.discoverLoop
  simp only
  have h1 : ¬ V3.dot (⟨0, 1, 1⟩ : V) ⟨0, 0, 1⟩ < IsectMpr.EPS := by
    unfold IsectMpr.EPS D3.Gen.utils__EPSILON; norm_num [V3.dot_def]
  rw [if_neg h1]
  have h2 : V3.dot (V3.cross (⟨1, 0, 1⟩ : V) ⟨0, 1, 1⟩) ⟨0, 0, -1⟩ < IsectMpr.EPS := by
    unfold IsectMpr.EPS D3.Gen.utils__EPSILON; norm_num [V3.dot_def, V3.cross]
  simp only [IsectMpr.iterateDiscoverPortal, if_pos h2]
  norm_num

/-- a mapping `V → V` (not the support mapping of any particular set) that drives `_discover_portal` with
`max_iterations = 1` into the cap: `v0 = (0,0,-1)`, `v1 = (1,0,1)`, `v2 = (0,-1,1)`, swap, `v3 = (-1,1,1)`,
side test `(v3 × v2)·v0 = -1 < EPSILON` -/
noncomputable def capSup (d : V) : V :=
  if 0 < d.z then (if 0 ≤ d.x then ⟨1, 0, 1⟩ else ⟨-1, 1, 1⟩) else ⟨0, -1, 1⟩

open IsectMpr in
/-- branch 6 of `_discover_portal` is reachable from the top of `mpr_intersection` (`max_iterations = 1`) -/
theorem capSup_discover_br6 :
    (IsectMpr.discoverPortal ⟨0, 0, -1⟩ ⟨0, 0, 0⟩ (IsectMpr.supMD capSup (fun _ => ⟨0, 0, 0⟩)) 1).br = 6 := by
  have hs : IsectMpr.supMD capSup (fun _ => (⟨0, 0, 0⟩ : V)) = capSup := by
    funext d; apply V3.ext' <;> simp [IsectMpr.supMD]
  rw [hs]
  have e0 : (findOriginRay (⟨0, 0, -1⟩ : V) ⟨0, 0, 0⟩).1 = ⟨0, 0, -1⟩ := by
    unfold findOriginRay
    simp only
    rw [if_neg]
    · apply V3.ext' <;> simp
    · intro h
      have := h.2.2.2
      simp at this
      linarith
  have n1 : normVector (-(⟨0, 0, -1⟩ : V)) = ⟨0, 0, 1⟩ := by
    rw [normVector_of_sq _ 1 (by norm_num) (by simp [V3.normSq_def])]
    apply V3.ext' <;> simp
  have s1 : capSup ⟨0, 0, 1⟩ = ⟨1, 0, 1⟩ := by simp [capSup]
  have c1 : V3.cross (⟨0, 0, -1⟩ : V) ⟨1, 0, 1⟩ = ⟨0, -1, 0⟩ := by
    apply V3.ext' <;> simp [V3.cross]
  have n2 : normVector (⟨0, -1, 0⟩ : V) = ⟨0, -1, 0⟩ := by
    rw [normVector_of_sq _ 1 (by norm_num) (by simp [V3.normSq_def])]
    apply V3.ext' <;> simp
  have s2 : capSup ⟨0, -1, 0⟩ = ⟨0, -1, 1⟩ := by simp [capSup]
  have c2 : V3.cross ((⟨1, 0, 1⟩ : V) - ⟨0, 0, -1⟩) ((⟨0, -1, 1⟩ : V) - ⟨0, 0, -1⟩) = ⟨2, -2, -1⟩ := by
    apply V3.ext' <;> simp [V3.cross] <;> norm_num
  have n3 : normVector (⟨2, -2, -1⟩ : V) = ⟨2 / 3, -2 / 3, -1 / 3⟩ := by
    rw [normVector_of_sq _ 3 (by norm_num) (by simp [V3.normSq_def]; norm_num)]
  have s3 : capSup (-(⟨2 / 3, -2 / 3, -1 / 3⟩ : V)) = ⟨-1, 1, 1⟩ := by
    simp [capSup]; norm_num
  unfold discoverPortal
  simp only [e0, n1, s1, c1, n2, s2]
  have t1 : ¬ (¬ allZero (⟨1, 0, 1⟩ : V) ∧ V3.dot (⟨1, 0, 1⟩ : V) ⟨0, 0, 1⟩ < IsectMpr.EPS) := by
    rintro ⟨_, h⟩
    unfold IsectMpr.EPS D3.Gen.utils__EPSILON at h
    norm_num [V3.dot_def] at h
  rw [if_neg t1]
  have t2 : ¬ V3.dot (⟨0, -1, 0⟩ : V) ⟨0, -1, 0⟩ < IsectMpr.EPS := by
    unfold IsectMpr.EPS D3.Gen.utils__EPSILON; norm_num [V3.dot_def]
  rw [if_neg t2]
  have t3 : ¬ V3.dot (⟨0, -1, 1⟩ : V) ⟨0, -1, 0⟩ < IsectMpr.EPS := by
    unfold IsectMpr.EPS D3.Gen.utils__EPSILON; norm_num [V3.dot_def]
  rw [if_neg t3]
  unfold searchDirectionPerpV012
  simp only [c2, n3]
  have t4 : 0 < V3.dot (⟨2 / 3, -2 / 3, -1 / 3⟩ : V) ⟨0, 0, -1⟩ := by norm_num [V3.dot_def]
  rw [if_pos t4]
  show (discoverLoop capSup 0 0 _ _).br = 6
  unfold discoverLoop swapVerticesAsIs12
  simp only [s3]
  have t5 : ¬ V3.dot (⟨-1, 1, 1⟩ : V) (-(⟨2 / 3, -2 / 3, -1 / 3⟩ : V)) < IsectMpr.EPS := by
    unfold IsectMpr.EPS D3.Gen.utils__EPSILON; norm_num [V3.dot_def]
  rw [if_neg t5]
  unfold iterateDiscoverPortal
  simp only
  have t6 : ¬ V3.dot (V3.cross (⟨0, -1, 1⟩ : V) ⟨-1, 1, 1⟩) ⟨0, 0, -1⟩ < IsectMpr.EPS := by
    unfold IsectMpr.EPS D3.Gen.utils__EPSILON; norm_num [V3.dot_def, V3.cross]
  have t7 : V3.dot (V3.cross (⟨-1, 1, 1⟩ : V) ⟨0, -1, 1⟩) ⟨0, 0, -1⟩ < IsectMpr.EPS := by
    unfold IsectMpr.EPS D3.Gen.utils__EPSILON; norm_num [V3.dot_def, V3.cross]
  rw [if_neg t6, if_pos t7]
  norm_num

/-- non-vacuity of `mpr_iteration_cap_exit` at function level: on this input `mpr_intersection` answers
`(True, discover branch 6, refine branch 0)` for every tolerance and every positive fuel -/
example (tol : ℝ) (fuel : Nat) :
    IsectMpr.mprIntersection ⟨0, 0, -1⟩ ⟨0, 0, 0⟩ capSup (fun _ => ⟨0, 0, 0⟩) tol 1 (fuel + 1) =
      .ok (true, 6, 0) :=
  (mpr_iteration_cap_exit _ _ _ _ tol 1 fuel capSup_discover_br6).2.2.2

/-- **C02 `libccd_origin_on_segment_near`.**  If `_line_segment` answers CONTACT (`origin_on_AB_segment`:
`|AB × AO|² < EPSILON` and `AB·AO > 0`, `A = v[1]` the newest point, `B = v[0]`), both simplex points lie in
`A ⊖ B` (convex colliders) and `A·B ≤ |B|²` — the condition "the foot of the origin is not beyond `B`", which
the code does not test; in a run `A·B ≤ √EPSILON` by the preceding `support point before origin` test — then
there are `a ∈ A`, `b ∈ B` with `|a - b|²·|AB|² < EPSILON` (distance `< √EPSILON/|AB|`), and a common point when
the cross product vanishes exactly. -/
theorem libccd_origin_on_segment_near {A B : V → Prop} (hcA : ConvexSet A) (hcB : ConvexSet B)
    {S : IsectLibccd.Sx ℝ} (h0 : mdiff A B S.v0) (h1 : mdiff A B S.v1)
    (hbr : (IsectLibccd.lineSegment S).br = 0) (hside : V3.dot S.v1 S.v0 ≤ V3.dot S.v0 S.v0) :
    (IsectLibccd.lineSegment S).state = .contact ∧
      (∃ a b, A a ∧ B b ∧ V3.normSq (a - b) * V3.normSq (S.v0 - S.v1) < IsectLibccd.EPS) ∧
      (V3.cross (S.v0 - S.v1) (-S.v1) = ⟨0, 0, 0⟩ → ∃ x, A x ∧ B x) :=
  IsectLibccd.origin_on_segment_near hcA hcB h0 h1 hbr hside

/-- non-vacuity: `B = (1,0,0)`, `A = (-1,0,0)` (the second support point of two overlapping unit balls):
branch 0 is taken and the side condition holds -/
example : (IsectLibccd.lineSegment (⟨⟨1, 0, 0⟩, ⟨-1, 0, 0⟩, ⟨0, 0, 0⟩, ⟨0, 0, 0⟩⟩ : IsectLibccd.Sx ℝ)).br = 0 ∧
    V3.dot (⟨-1, 0, 0⟩ : V) ⟨1, 0, 0⟩ ≤ V3.dot (⟨1, 0, 0⟩ : V) ⟨1, 0, 0⟩ := by
  constructor
  · unfold IsectLibccd.lineSegment
    simp only
    have h : IsectLibccd.absS (V3.dot (V3.cross ((⟨1, 0, 0⟩ : V) - ⟨-1, 0, 0⟩) (-⟨-1, 0, 0⟩))
        (V3.cross ((⟨1, 0, 0⟩ : V) - ⟨-1, 0, 0⟩) (-⟨-1, 0, 0⟩))) < IsectLibccd.EPS ∧
        0 < V3.dot ((⟨1, 0, 0⟩ : V) - ⟨-1, 0, 0⟩) (-⟨-1, 0, 0⟩) := by
      unfold IsectLibccd.absS IsectLibccd.EPS D3.Gen.utils__EPSILON
      norm_num [V3.dot_def, V3.cross]
    rw [if_pos h]
  · norm_num [V3.dot_def]

end C02
end D3
