/-
C20 — compiled (numba) and interpreted execution give the same results.

numba deviates from Python in documented ways only: array indices are not checked,
compiled signatures are typed (dtype / layout), module globals are frozen at compile time.
This file collects the *obligations* under which those deviations are unobservable, for the
kernels that are modelled; they are corollaries of the theorems of the owning properties.
Everything else in C20 is the two-engine differential of harness/props/c20.py (labelled
"differential testing" in the evidence; not a proof).
-/
import D3.Properties.C05

namespace D3
namespace C20
open Aabb

/-- **index safety of `query_overlap`.** On every well-formed tree state the explicit-stack
traversal performs only in-range reads (the model's checked reads never yield `indexOOB`) and
never runs out of fuel: the compiled, unchecked loop reads exactly what the interpreted one
reads. -/
theorem query_index_safe (c : Core ℝ) (t : T ℝ) (h : wfCheck c = some (some t)) (q : Box ℝ) :
    ∃ res, queryOverlap q c.root c.nodes c.aabbs = .ok res := by
  obtain ⟨res, hres, _, _⟩ := C05.query_exact c t h q
  exact ⟨res, hres⟩

/-- **index safety of `query_overlap_of_other_tree`.** -/
theorem query_tree_index_safe (c1 c2 : Core ℝ) (t1 t2 : T ℝ)
    (h1 : wfCheck c1 = some (some t1)) (h2 : wfCheck c2 = some (some t2)) :
    ∃ res, queryTree c1 c2 = .ok res := by
  obtain ⟨res, hres, _, _⟩ := C05.query_tree_exact c1 c2 t1 t2 h1 h2
  exact ⟨res, hres⟩

/-- **empty containers.** The root index of an empty tree (`-1`) is never used as an array
index: the query returns the empty list (before the repair recorded as F-aabb-empty the
interpreted engine raised `IndexError` and the compiled one read out of bounds). -/
theorem empty_tree_no_read (q : Box ℝ) :
    queryOverlap q INDEX_NONE (#[] : Array Node) (#[] : Array (Box ℝ)) = .ok [] :=
  C05.empty_query_ok q

/-- the same for the tree-against-tree query with an empty second tree -/
theorem empty_other_tree_no_read (c1 : Core ℝ) :
    queryTree c1 { root := INDEX_NONE, nodes := #[], aabbs := #[], filledLen := 0 } = .ok [] := by
  simp [queryTree, queryTreeLoop, INDEX_NONE]

/-- the insertion loops cannot trip the cost assertion (so `assert` behaves identically in
both engines: it never fires) — tree layer, every history -/
theorem insert_assert_never_fires (ins : List (Int × Box ℝ × Int)) (t : T ℝ)
    (ht : t.Tight) (hv : t.AllValid) (hx : ∀ x ∈ ins, x.2.1.Valid) :
    (ins.foldlM (fun (t : T ℝ) x => t.insert x.1 x.2.1 x.2.2) t).isSome = true := by
  obtain ⟨t', h, _⟩ := C05.history_leaves ins t ht hv hx
  rw [h]; rfl

end C20
end D3
