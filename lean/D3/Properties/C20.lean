/-
C20 — compiled (numba) and interpreted execution give the same results.

numba deviates from Python in documented ways only: array indices are not checked,
compiled signatures are typed (dtype / layout), module globals are frozen at compile time.
This file collects the *obligations* under which those deviations are unobservable, for the
kernels that are modelled; they are corollaries of the theorems of the owning properties.
The last section states index safety of the four-row simplex arrays of the GJK (Jolt, libccd) and MPR kernels.
Everything else in C20 is the two-engine differential of harness/props/c20.py (labelled
"differential testing" in the evidence; not a proof).
-/
import D3.Properties.C05
import D3.Properties.C05Insert
import D3.Properties.C14
import D3.Properties.C15
import D3.Properties.C02Link
import D3.Model.MprPen

namespace D3
namespace C20
open Aabb

/-- **index safety of `query_overlap`.** On every well-formed tree state the explicit-stack
traversal performs only in-range reads (the model's checked reads never yield `indexOOB`) and
never runs out of fuel: the compiled, unchecked loop reads exactly what the interpreted one
reads. -/
theorem query_index_safe (c : Core ℝ) (t : T ℝ) (h : wfCheck c = some (some t)) (q : Box ℝ) :
    ∃ res, queryOverlap q c.root c.nodes c.aabbs = .ok res := by
  obtain ⟨res, hres, _, _⟩ := C05.query_exact c t h q
  exact ⟨res, hres⟩

/-- **index safety of `query_overlap_of_other_tree`.** -/
theorem query_tree_index_safe (c1 c2 : Core ℝ) (t1 t2 : T ℝ)
    (h1 : wfCheck c1 = some (some t1)) (h2 : wfCheck c2 = some (some t2)) :
    ∃ res, queryTree c1 c2 = .ok res := by
  obtain ⟨res, hres, _, _⟩ := C05.query_tree_exact c1 c2 t1 t2 h1 h2
  exact ⟨res, hres⟩

/-- **empty containers.** The root index of an empty tree (`-1`) is never used as an array
index: the query returns the empty list (before the repair recorded as F-aabb-empty the
interpreted engine raised `IndexError` and the compiled one read out of bounds). -/
theorem empty_tree_no_read (q : Box ℝ) :
    queryOverlap q INDEX_NONE (#[] : Array Node) (#[] : Array (Box ℝ)) = .ok [] :=
  C05.empty_query_ok q

/-- the same for the tree-against-tree query with an empty second tree -/
theorem empty_other_tree_no_read (c1 : Core ℝ) :
    queryTree c1 { root := INDEX_NONE, nodes := #[], aabbs := #[], filledLen := 0 } = .ok [] := by
  simp [queryTree, queryTreeLoop, INDEX_NONE]

/-- the insertion loops cannot trip the cost assertion (so `assert` behaves identically in
both engines: it never fires) — tree layer, every history -/
theorem insert_assert_never_fires (ins : List (Int × Box ℝ × Int)) (t : T ℝ)
    (ht : t.Tight) (hv : t.AllValid) (hx : ∀ x ∈ ins, x.2.1.Valid) :
    (ins.foldlM (fun (t : T ℝ) x => t.insert x.1 x.2.1 x.2.2) t).isSome = true := by
  obtain ⟨t', h, _⟩ := C05.history_leaves ins t ht hv hx
  rw [h]; rfl

/-- **typed signatures.** numba's eagerly compiled support kernels accept only C-contiguous
float64 arrays. For every collider class, every history of `update_pose` / queries whose poses
are C-contiguous 4×4 arrays (fresh, or one item of a C-contiguous stack) and whose directions
are C-contiguous, the compiled engine never raises its signature `TypeError` — so the
interpreted and the compiled engine raise the same (no) exception. (Before the repair
F-disk-ellipse-update-pose this failed for Disk and Ellipse: `C14.disk_asIs_before_fix_typeErr`.) -/
theorem typed_signatures_ok (K : CS.Kernels ℝ) (shape : CS.Shape ℝ)
    (p0 : CS.Arr (CS.M4 ℝ)) (c0 : CS.Collider ℝ)
    (ops : List (CS.Op ℝ))
    (hs : shape.contigParams = true) (hp0 : p0.layout = .c)
    (hmk : CS.atPose .jit K shape p0 = .ok c0)
    (hP : CS.PosesContig ops) (hD : CS.DirsContig ops) :
    ∀ o ∈ CS.run .jit K c0 ops, o ≠ .error .typeErr :=
  C14.no_typeErr_contiguous_pose K shape p0 c0 ops hs hp0 hmk hP hD

/-- **index safety of the insertion code, every history.** No call of `AabbTree.insert_aabbs`
in any admissible history performs an out-of-range array access, trips an assertion or runs out
of loop fuel (array-level model: every read and write is checked) — the compiled, unchecked
loops touch exactly the rows the interpreted ones touch. -/
theorem insert_index_safe (h : List Aabb.Batch) (hok : ∀ b ∈ h, b.Ok) :
    ∃ tr, Aabb.runHistory Tree.empty h = .ok tr := by
  obtain ⟨tr, _, hrun, _⟩ := C05Insert.history_wf h hok
  exact ⟨tr, hrun⟩

/-- **index safety of the half-plane buffer.** `intersect_halfplanes` stores one row per valid
pairwise intersection into a buffer of `n (n-1) // 2 + 1` rows; for every list of half-planes the
store index is in range and the final `assert` holds, so the compiled engine (unchecked store)
and the interpreted one (IndexError / AssertionError) cannot differ here.  (Before the repair
recorded as F-C15-halfplane-buffer the buffer had `3 n` rows: eight concurrent boundary lines
made the interpreted engine raise `IndexError` and the compiled one write out of bounds —
`C15.halfplane_buffer_overflow_before_fix`.) -/
theorem halfplane_buffer_index_safe (hps : List (Hydro.HP ℝ)) :
    ∃ res, Hydro.intersectHalfplanes hps = .ok res :=
  let ⟨res, h, _⟩ := C15.halfplane_buffer_never_overflows hps
  ⟨res, h⟩

end C20
end D3

/-! ## index safety of the simplex arrays of the GJK / MPR kernels

`epa.py` and `gjk/_gjk_original.py` contain no compiled code (no `numba` decorator): both engines interpret
them, so they carry no index-safety obligation for C20. -/

namespace D3
namespace C20

section JoltSimplex
open IsectJolt Isect
open GjkJolt (A4)

/-- **index safety of the simplex array of `gjk_intersection_jolt`.**  `Y` is allocated once with four
rows (`np.empty((4, 3))`) and `_intersection_loop` writes the new support point to row `n_points` without
any test of its own.  In every loop state reachable by `gjk_intersection_jolt` (every simplex handed to the
solver on the way being outside the C18 bands, `VisitedGood JoltGood`) the array still has four rows and the
write index satisfies `n < 4`: the unchecked compiled store `Y[n_points] = w` hits an existing row, exactly
the row the interpreted engine writes.  Corollary of the loop invariant `C02.jolt_inv_reachable`. -/
theorem jolt_simplex_index_safe {A B : V → Prop} {sA sB : V → V} (S : C02.JoltPair A B sA sB) {tol : ℝ}
    (hvis : VisitedGood Gjk.JoltGood sA sB (tol * tol) lstate0) {st : LState}
    (hreach : Reach sA sB (tol * tol) lstate0 st) :
    st.Y.size = 4 ∧ st.n < 4 ∧ st.n < st.Y.size := by
  obtain ⟨Y, hY, hinv⟩ := C02.jolt_inv_reachable S hvis st hreach
  have hsz : st.Y.size = 4 := by rw [hY]; rfl
  have := hinv.n3
  exact ⟨hsz, by omega, by omega⟩

/-- **… and of everything else the call touches.**  In every such state the next call of
`_intersection_loop` returns normally — in the model every read and write of `Y` (the store at row `n`,
the solver's reads of rows `0 … n`, `max_y_length_squared`, the compaction loop of `update_simplex_y`) is
checked and reports `indexOOB` — and the point count it returns is at most four (`n + 1` on the exits,
at most three when the loop continues). -/
theorem jolt_simplex_step_index_safe {A B : V → Prop} {sA sB : V → V} (S : C02.JoltPair A B sA sB)
    {tol : ℝ} (hvis : VisitedGood Gjk.JoltGood sA sB (tol * tol) lstate0) {st : LState}
    (hreach : Reach sA sB (tol * tol) lstate0 st) :
    ∃ s, intersectionLoop (sA st.dir) (sB (-st.dir)) st.Y st.n (tol * tol) st.prev st.dir = .ok s ∧
      s.nPoints ≤ 4 ∧ (s.state = .unknown → s.Y.size = 4 ∧ s.nPoints < 4) := by
  obtain ⟨s, hs⟩ := C02.jolt_fn_step_no_failure S hvis hreach
  obtain ⟨_, hn, _⟩ := jolt_simplex_index_safe S hvis hreach
  refine ⟨s, hs, ?_, ?_⟩
  · by_cases hu : s.state = .unknown
    · have := (jolt_simplex_index_safe S hvis (Reach.step hreach hs hu)).2.1
      show s.next.n ≤ 4
      omega
    · rcases step_cases hs with ⟨_, rfl⟩ | ⟨_, _, r, _, hcase⟩
      · show st.n ≤ 4; omega
      rcases hcase with ⟨_, rfl⟩ | ⟨_, _, rfl⟩ | ⟨_, _, _, rfl⟩ | ⟨_, _, _, m, _, hcase⟩
      · show st.n + 1 ≤ 4; omega
      · show st.n + 1 ≤ 4; omega
      · show st.n + 1 ≤ 4; omega
      rcases hcase with ⟨_, rfl⟩ | ⟨_, _, hcase⟩
      · show st.n + 1 ≤ 4; omega
      rcases hcase with ⟨_, rfl⟩ | ⟨_, Y2, n2, _, rfl⟩
      · show st.n + 1 ≤ 4; omega
      · exact absurd rfl hu
  · intro hu
    obtain ⟨h1, h2, _⟩ := jolt_simplex_index_safe S hvis (Reach.step hreach hs hu)
    exact ⟨h1, h2⟩

/-- the hypotheses are satisfiable, all of them discharged: two cubes `[-1,1]³` (`C02.cube_pair`,
`C02.cube_visitedGood`); the initial loop variables are a reachable state with four rows and `n = 0` -/
example (tol : ℝ) : lstate0.Y.size = 4 ∧ lstate0.n < 4 ∧ lstate0.n < lstate0.Y.size :=
  jolt_simplex_index_safe C02.cube_pair (C02.cube_visitedGood tol) Reach.init

example (tol : ℝ) : ∃ s, intersectionLoop (C02.cubeSup lstate0.dir) (C02.cubeSup (-lstate0.dir)) lstate0.Y
    lstate0.n (tol * tol) lstate0.prev lstate0.dir = .ok s ∧ s.nPoints ≤ 4 ∧
    (s.state = .unknown → s.Y.size = 4 ∧ s.nPoints < 4) :=
  jolt_simplex_step_index_safe C02.cube_pair (C02.cube_visitedGood tol) Reach.init

end JoltSimplex

section JoltDistanceSimplex
open Gjk GjkJolt

/-- the loop invariant of `gjk_distance_jolt` (`Stored … 3`: `n_points ≤ 3`, `Yᵢ = Pᵢ − Qᵢ`; `Running`) in
every reachable state under `VisitedGood` — the induction of `Gjk.reach_inv` with the hypothesis of the
function-level theorems of C01 -/
theorem jolt_distance_reach_inv {A B : V → Prop} {sA sB : V → V} (S : C01.JoltSetup A B sA sB)
    {tolerance maxD : ℝ} {y0 : A4 V}
    (hvis : VisitedGood JoltGood joltSolver sA sB (tolerance * tolerance) maxD (gjkInit y0))
    {st : State ℝ} (hreach : Reach joltSolver sA sB (tolerance * tolerance) maxD (gjkInit y0) st) :
    Stored A B st 3 ∧ Running (tolerance * tolerance) st (sA st.sd - sB (-st.sd)) ∧ st.sd ≠ zeroV := by
  induction hreach with
  | init => exact ⟨stored_init A B y0, Or.inr ⟨isInit_init y0, S.fin⟩, e1_ne_zero⟩
  | @step st out hreach hstep hunk ih =>
    obtain ⟨hst, hrun, hsd⟩ := ih
    have hnegsd : -st.sd ≠ zeroV := by
      intro h0; apply hsd
      have hx := congrArg V3.x h0; have hy := congrArg V3.y h0; have hz := congrArg V3.z h0
      simp at hx hy hz
      apply V3.ext' <;> simp <;> linarith
    obtain ⟨x, v', hinv⟩ := step_inv joltSolver_spec (mul_self_nonneg tolerance) hst hrun
      (S.supA _ hsd).1 (S.supB _ hnegsd).1 (hvis st hreach) hstep (by rw [hunk]; simp)
    rcases hinv.exits with ⟨hg, _⟩ | ⟨hg, _⟩ | ⟨_, hsto, hcur, _⟩
    · rw [hunk] at hg; exact GjkState.noConfusion hg
    · rw [hunk] at hg; exact GjkState.noConfusion hg
    · refine ⟨hsto, Or.inl ⟨x, hcur⟩, ?_⟩
      obtain ⟨hsdx, _, hv, _, htl, _⟩ := hcur
      apply ne_zero_of_normSq_pos
      rw [hsdx, normSq_neg_one_smul, ← hv]
      linarith [mul_self_nonneg tolerance]

/-- **index safety of the simplex arrays `Y`, `P`, `Q` of `gjk_distance_jolt`.**  The three arrays have four
rows (the model type `A4`: every read and write is checked and reports `indexOOB`); `_distance_loop` writes
the support points to row `n_points` of all three.  In every loop state reachable by `gjk_distance_jolt`
with the real simplex solver (every simplex handed to the solver being outside the C18 bands) the write
index satisfies `n < 4`, and the three stores succeed: the unchecked compiled stores hit existing rows. -/
theorem jolt_distance_simplex_index_safe {A B : V → Prop} {sA sB : V → V} (S : C01.JoltSetup A B sA sB)
    {tolerance maxD : ℝ} {y0 : A4 V}
    (hvis : VisitedGood JoltGood joltSolver sA sB (tolerance * tolerance) maxD (gjkInit y0))
    {st : State ℝ} (hreach : Reach joltSolver sA sB (tolerance * tolerance) maxD (gjkInit y0) st) :
    st.nPoints < 4 ∧ ∃ Y1 P1 Q1, st.Y.set st.nPoints (sA st.sd - sB (-st.sd)) = .ok Y1 ∧
      st.P.set st.nPoints (sA st.sd) = .ok P1 ∧ st.Q.set st.nPoints (sB (-st.sd)) = .ok Q1 := by
  have hn : st.nPoints ≤ 3 := (jolt_distance_reach_inv S hvis hreach).1.1
  obtain ⟨Y1, hY⟩ := set_ok st.Y st.nPoints (sA st.sd - sB (-st.sd)) hn
  obtain ⟨P1, hP⟩ := set_ok st.P st.nPoints (sA st.sd) hn
  obtain ⟨Q1, hQ⟩ := set_ok st.Q st.nPoints (sB (-st.sd)) hn
  exact ⟨by omega, Y1, P1, Q1, hY, hP, hQ⟩

/-- **… and of everything else the call touches.**  In every such state the next call of `_distance_loop`
returns normally (the stores, the solver's reads, `update_simplex_ypq`, `max_y_length_squared` are all
checked in the model), and the point count it returns — the `n_points` that `calculate_closest_points`
then uses to read rows `0 … n_points - 1` of `Y`, `P`, `Q` — is at most four. -/
theorem jolt_distance_step_index_safe {A B : V → Prop} {sA sB : V → V} (S : C01.JoltSetup A B sA sB)
    {tolerance maxD : ℝ} {y0 : A4 V}
    (hvis : VisitedGood JoltGood joltSolver sA sB (tolerance * tolerance) maxD (gjkInit y0))
    {st : State ℝ} (hreach : Reach joltSolver sA sB (tolerance * tolerance) maxD (gjkInit y0) st) :
    ∃ out, distanceLoopStep joltSolver (sA st.sd) (sB (-st.sd)) st (tolerance * tolerance) maxD = .ok out ∧
      out.st.nPoints ≤ 4 ∧ (out.gs = .unknown → out.st.nPoints < 4) := by
  obtain ⟨hst, hrun, hsd⟩ := jolt_distance_reach_inv S hvis hreach
  obtain ⟨out, hout⟩ := C01.jolt_step_no_failure (maxD := maxD) hst hrun (hvis st hreach)
  refine ⟨out, hout, ?_, ?_⟩
  · by_cases hc : out.gs = .clipped
    · have := hst.1
      rcases Gjk.step_cases hout with ⟨_, rfl⟩ | ⟨_, _, _, _, _, _, _, _, _, hcase⟩
      · show st.nPoints ≤ 4; omega
      · rcases hcase with ⟨_, ht⟩ | ⟨_, ht⟩ <;> exact absurd hc (stepTail_ne_clipped ht)
    · have hnegsd : -st.sd ≠ zeroV := by
        intro h0; apply hsd
        have hx := congrArg V3.x h0; have hy := congrArg V3.y h0; have hz := congrArg V3.z h0
        simp at hx hy hz
        apply V3.ext' <;> simp <;> linarith
      obtain ⟨x, v', hinv⟩ := step_inv joltSolver_spec (mul_self_nonneg tolerance) hst hrun
        (S.supA _ hsd).1 (S.supB _ hnegsd).1 (hvis st hreach) hout hc
      exact hinv.stored.1
  · intro hu
    have := (jolt_distance_reach_inv S hvis (Reach.step hreach hout hu)).1.1
    omega

/-- the hypotheses are satisfiable, all of them discharged: the one-point sets `{(2,0,0)}`, `{0}`
(`C01.two_points_setup`, `C01.two_points_visitedGood`), initial state -/
example (y0 : A4 V) (maxD : ℝ) : (gjkInit (α := ℝ) y0).nPoints < 4 := by
  have hfin : V3.normSq ((⟨2, 0, 0⟩ : V) - ⟨0, 0, 0⟩) < (1 - EPS) * MAXF := by
    simp only [V3.normSq_def, V3.sub_x, V3.sub_y, V3.sub_z, EPS, MAXF, D3.Gen.utils__EPSILON,
      D3.Gen.utils__MAX_FLOAT]
    norm_num
  exact (jolt_distance_simplex_index_safe (tolerance := 1e-10) (maxD := maxD)
    (C01.two_points_setup _ _ hfin)
    (C01.two_points_visitedGood _ _ hfin (mul_self_nonneg _) y0) Reach.init).1

end JoltDistanceSimplex

section JoltBits
open Simplex

/-- set bits of the Voronoi cascade of `closest_point_triangle`: between 1 and 7 whenever it returns -/
theorem jolt_regions_set {a b c n : V3 ℝ} {r : CP ℝ}
    (h : closestPointTriangleRegions a b c n = .ok r) : 1 ≤ r.set ∧ r.set ≤ 7 := by
  unfold closestPointTriangleRegions at h
  simp only [bind, Except.bind] at h
  repeat' split at h
  all_goals (try cases h)
  all_goals (constructor <;> norm_num)

/-- set bits of the collinear fallback of `closest_point_triangle`: between 1 and 7 whenever it returns -/
theorem jolt_degenerate_set {a b c : V3 ℝ} {r : CP ℝ}
    (h : closestPointTriangleDegenerate a b c = .ok r) : 1 ≤ r.set ∧ r.set ≤ 7 := by
  unfold closestPointTriangleDegenerate at h
  simp only [bind, Except.bind] at h
  split at h
  · cases h
  rename_i r1 h1
  split at h
  · cases h
  rename_i r2 h2
  split at h
  · cases h
  rename_i r3 h3
  have s1 := closestPointLine_set _ _ h1
  have s2 := closestPointLine_set _ _ h2
  have s3 := closestPointLine_set _ _ h3
  repeat' split at h
  all_goals (try cases h)
  all_goals (simp only []; rcases s1 with s1 | s1 | s1 <;> rcases s2 with s2 | s2 | s2 <;>
    rcases s3 with s3 | s3 | s3 <;> simp [s1, s2, s3])


/-- set bits of `closest_point_triangle`: between 1 and 7 whenever it returns (no band hypothesis) -/
theorem jolt_triangle_set {a b c : V3 ℝ} {r : CP ℝ}
    (h : closestPointTriangle a b c = .ok r) : 1 ≤ r.set ∧ r.set ≤ 7 := by
  unfold closestPointTriangle at h
  simp only at h
  split at h
  · exact jolt_degenerate_set h
  · exact jolt_regions_set h

/-- the three feature-set remappings of `closest_point_tetrahedron` map `1 … 7` into `1 … 15` -/
theorem jolt_remap_bounds (s : Nat) (h1 : 1 ≤ s) (h7 : s ≤ 7) :
    (1 ≤ remapACD s ∧ remapACD s < 16) ∧ (1 ≤ remapADB s ∧ remapADB s < 16) ∧
    (1 ≤ remapBDC s ∧ remapBDC s < 16) := by
  interval_cases s <;> decide

/-- one face block of `closest_point_tetrahedron` keeps the set bits in `1 … 15` -/
theorem jolt_tetStep_set {o : Bool} {p q r : V3 ℝ} {remap : Nat → Nat} {win : Nat} {ub : Bool}
    {st st' : TetState ℝ} (hremap : ∀ s, 1 ≤ s → s ≤ 7 → 1 ≤ remap s ∧ remap s < 16)
    (hst : 1 ≤ st.set ∧ st.set < 16) (h : tetStep o p q r remap win ub st = .ok st') :
    1 ≤ st'.set ∧ st'.set < 16 := by
  unfold tetStep at h
  simp only [bind, Except.bind, pure, Except.pure] at h
  repeat' split at h
  all_goals (try cases h)
  all_goals first
    | exact hst
    | (have := jolt_triangle_set ‹closestPointTriangle (α := ℝ) _ _ _ = Except.ok _›
       exact hremap _ this.1 this.2)

/-- set bits of `closest_point_tetrahedron`: between 1 and 15 whenever it returns (no band hypothesis) -/
theorem jolt_tetrahedron_set {a b c d : V3 ℝ} {r : CP ℝ}
    (h : closestPointTetrahedron a b c d = .ok r) : 1 ≤ r.set ∧ r.set < 16 := by
  unfold closestPointTetrahedron at h
  simp only [bind, Except.bind] at h
  split at h
  · cases h
  rename_i st1 h1
  split at h
  · cases h
  rename_i st2 h2
  split at h
  · cases h
  rename_i st3 h3
  split at h
  · cases h
  rename_i st4 h4
  cases h
  have b1 : 1 ≤ st1.set ∧ st1.set < 16 := by
    unfold tetFirst at h1
    simp only [bind, Except.bind, pure, Except.pure] at h1
    repeat' split at h1
    all_goals (try cases h1)
    · have := jolt_triangle_set ‹closestPointTriangle (α := ℝ) _ _ _ = Except.ok _›
      exact ⟨this.1, lt_of_le_of_lt this.2 (by norm_num)⟩
    · decide
  have b2 := jolt_tetStep_set (fun s a b => (jolt_remap_bounds s a b).1) b1 h2
  have b3 := jolt_tetStep_set (fun s a b => (jolt_remap_bounds s a b).2.1) b2 h3
  exact jolt_tetStep_set (fun s a b => (jolt_remap_bounds s a b).2.2) b3 h4

/-- **the set bits of `get_closest_point_to_origin` are `< 2ⁿ`, for every input on which it returns** (inside
the C18 bands too) -/
theorem jolt_gcp_set_lt (Y : GjkJolt.A4 (V3 ℝ)) (n : Nat) (h1 : 1 ≤ n) (h4 : n ≤ 4) (prev : ℝ) {g : Gcp ℝ}
    (h : getClosestPointToOrigin Y.toArray n prev = .ok g) : g.set < 2 ^ n := by
  obtain ⟨y0, y1, y2, y3⟩ := Y
  unfold getClosestPointToOrigin at h
  cases hs : solveSimplex (GjkJolt.A4.toArray ⟨y0, y1, y2, y3⟩) n with
  | error e => rw [hs] at h; cases h
  | ok r =>
    rw [hs] at h
    simp only [Except.bind] at h
    cases h
    show r.set < 2 ^ n
    unfold solveSimplex at hs
    interval_cases n
    · simp [rdY, GjkJolt.A4.toArray, bind, Except.bind, pure, Except.pure] at hs
      cases hs; norm_num
    · simp [rdY, GjkJolt.A4.toArray, bind, Except.bind] at hs
      rcases closestPointLine_set _ _ hs with h | h | h <;> omega
    · simp [rdY, GjkJolt.A4.toArray, bind, Except.bind] at hs
      have := (jolt_triangle_set hs).2; omega
    · simp [rdY, GjkJolt.A4.toArray, bind, Except.bind] at hs
      have := (jolt_tetrahedron_set hs).2; omega

end JoltBits

section JoltUncond
open IsectJolt Isect
open GjkJolt (A4)

/-- **index safety of the simplex array of `gjk_intersection_jolt`, every input.**  No hypothesis on the
colliders, the support mappings or the tolerance, and no `VisitedGood`: in every loop state reachable from the
initial one, `Y` still has four rows and the write index satisfies `n < 4`.  (`update_simplex_y` keeps at most
three rows unless the solver reports `0xf`, and then the loop has already answered; the solver's set bits are
`< 2ⁿ` on every input, `jolt_gcp_set_lt`.)  What the hypothesis-free statement does not give is that the call
*returns* — inside the C18 bands the solver may raise `ZeroDivisionError`; that is `jolt_simplex_step_index_safe`. -/
theorem jolt_simplex_index_safe_every_input (sA sB : V → V) (tolSq : ℝ) {st : LState}
    (hreach : Reach sA sB tolSq lstate0 st) :
    (∃ Y4 : A4 V, st.Y = Y4.toArray) ∧ st.Y.size = 4 ∧ st.n < 4 := by
  suffices hkey : (∃ Y4 : A4 V, st.Y = Y4.toArray) ∧ st.n ≤ 3 by
    obtain ⟨⟨Y4, hY⟩, hn⟩ := hkey
    exact ⟨⟨Y4, hY⟩, by rw [hY]; rfl, by omega⟩
  induction hreach with
  | init => exact ⟨⟨⟨⟨0, 0, 0⟩, ⟨0, 0, 0⟩, ⟨0, 0, 0⟩, ⟨0, 0, 0⟩⟩, rfl⟩, by decide⟩
  | @step st s hreach hstep hunk ih =>
    obtain ⟨⟨Y4, hY⟩, hn⟩ := ih
    rw [hY] at hstep
    rcases step_cases hstep with ⟨_, rfl⟩ | ⟨_, _, r, hr, hcase⟩
    · cases hunk
    rcases hcase with ⟨_, rfl⟩ | ⟨_, _, rfl⟩ | ⟨_, _, _, rfl⟩ | ⟨_, hset, _, m, _, hcase⟩
    · cases hunk
    · cases hunk
    · cases hunk
    rcases hcase with ⟨_, rfl⟩ | ⟨_, _, hcase⟩
    · cases hunk
    rcases hcase with ⟨_, rfl⟩ | ⟨_, Y2, n2, hupd, rfl⟩
    · cases hunk
    obtain ⟨Y1, hY1⟩ := Gjk.set_ok Y4 st.n (sA st.dir - sB (-st.dir)) hn
    rw [toArray_set hY1] at hr hupd
    have hlt := jolt_gcp_set_lt Y1 (st.n + 1) (by omega) (by omega) st.prev hr
    obtain ⟨Y2', k, hupd', _, _, hk3⟩ := updateY_spec Y1 (st.n + 1) (by omega) (by omega) r.set hlt
    rw [hupd'] at hupd
    cases hupd
    exact ⟨⟨Y2', rfl⟩, hk3 hset⟩

/-- every hypothesis is an input: the initial state of any run is reachable -/
example (sA sB : V → V) (tolSq : ℝ) : lstate0.Y.size = 4 ∧ lstate0.n < 4 :=
  (jolt_simplex_index_safe_every_input sA sB tolSq Reach.init).2

end JoltUncond

section JoltDistUncond
open Gjk GjkJolt

/-- the second half of `_distance_loop` returns at most four points, at most three when the loop continues -/
theorem jolt_stepTail_n {Y P Q : A4 V} {m : Nat} (hm : m ≤ 4) {s : Nat} (hs : s < 16) {prev tolSq : ℝ}
    {ok : Bool} {sd : V} {vl : ℝ} {out : StepOut ℝ}
    (h : stepTail Y P Q m prev tolSq ok sd vl s = .ok out) :
    out.st.nPoints ≤ 4 ∧ (out.gs = .unknown → out.st.nPoints ≤ 3) := by
  unfold stepTail at h
  split at h
  · cases h; exact ⟨hm, fun hu => by cases hu⟩
  rename_i hne
  obtain ⟨Y', P', Q', k, hupd, hk, hk3, _⟩ := updateSimplex_spec Y P Q m s hm hs
  rw [hupd] at h
  simp only at h
  have h3 := hk3 hne
  repeat' split at h
  all_goals (try cases h)
  all_goals exact ⟨by show k ≤ 4; omega, fun _ => h3⟩

/-- **index safety of `Y`, `P`, `Q` of `gjk_distance_jolt`, every input.**  No hypothesis on the colliders, the
support mappings, the tolerance, `max_distance_squared` or the initial array contents: in every reachable loop
state `n_points < 4` and the three stores at row `n_points` are in range. -/
theorem jolt_distance_simplex_index_safe_every_input (sA sB : V → V) (tolSq maxD : ℝ) (y0 : A4 V)
    {st : State ℝ} (hreach : Reach joltSolver sA sB tolSq maxD (gjkInit y0) st) :
    st.nPoints < 4 ∧ ∃ Y1 P1 Q1, st.Y.set st.nPoints (sA st.sd - sB (-st.sd)) = .ok Y1 ∧
      st.P.set st.nPoints (sA st.sd) = .ok P1 ∧ st.Q.set st.nPoints (sB (-st.sd)) = .ok Q1 := by
  suffices hn : st.nPoints ≤ 3 by
    obtain ⟨Y1, hY⟩ := set_ok st.Y st.nPoints (sA st.sd - sB (-st.sd)) hn
    obtain ⟨P1, hP⟩ := set_ok st.P st.nPoints (sA st.sd) hn
    obtain ⟨Q1, hQ⟩ := set_ok st.Q st.nPoints (sB (-st.sd)) hn
    exact ⟨by omega, Y1, P1, Q1, hY, hP, hQ⟩
  induction hreach with
  | init => show 0 ≤ 3; omega
  | @step st out hreach hstep hunk ih =>
    rcases Gjk.step_cases hstep with ⟨_, rfl⟩ | ⟨_, Y, P, Q, r, hY, hP, hQ, hr, hcase⟩
    · cases hunk
    rcases hcase with ⟨_, ht⟩ | ⟨_, ht⟩
    · obtain ⟨g, hg, rfl⟩ := IsectJolt.gcp_of_joltSolver hr
      have hlt := jolt_gcp_set_lt Y (st.nPoints + 1) (by omega) (by omega) st.prevVLenSq hg
      have h16 : g.set < 16 := lt_of_lt_of_le hlt (two_pow_le_16 (by omega))
      exact (jolt_stepTail_n (by omega) h16 ht).2 hunk
    · have h15 := allBits_lt st.nPoints ih
      exact (jolt_stepTail_n (by omega) (by omega) ht).2 hunk

/-- every hypothesis is an input: the initial state of any run is reachable -/
example (sA sB : V → V) (tolSq maxD : ℝ) (y0 : A4 V) : (gjkInit (α := ℝ) y0).nPoints < 4 :=
  (jolt_distance_simplex_index_safe_every_input sA sB tolSq maxD y0 Reach.init).1

end JoltDistUncond

section Libccd
open IsectLibccd

/-- the checked division of the libccd model fails with `divZero` only -/
theorem libccd_cdiv_err {x y : ℝ} {e : Err} (h : cdiv x y = .error e) : e = .divZero := by
  unfold cdiv at h
  split at h
  · cases h
  · cases h; rfl

/-- `point_to_triangle` (libccd copy) fails with `divZero` only -/
theorem libccd_ptTriDist_err {p a b c : V3 ℝ} {e : Err} (h : ptTriDist p a b c = .error e) :
    e = .divZero := by
  unfold ptTriDist at h
  simp only at h
  repeat' split at h
  all_goals (try cases h)
  all_goals (exact libccd_cdiv_err (by assumption))

/-- `_triangle`: fails with `divZero` only; on `CONTINUE` it returns `n_points ∈ {1, 2, 3}` -/
theorem libccd_triangle_n {S : Sx ℝ} :
    (∀ e, triangle S = .error e → e = .divZero) ∧
    (∀ r, triangle S = .ok r → r.state = .continue_ → 1 ≤ r.n ∧ r.n ≤ 3) := by
  refine ⟨?_, ?_⟩
  · intro e h
    unfold triangle at h
    simp only at h
    repeat' split at h
    all_goals (try cases h)
    all_goals (exact libccd_ptTriDist_err (by assumption))
  · intro r h hs
    unfold triangle triangleAB at h
    simp only at h
    repeat' split at h
    all_goals (try cases h)
    all_goals (first | (cases hs; done) | simp)


/-- `_tetrahedron`: fails with `divZero` only; on `CONTINUE` it returns `n_points ∈ {1, 2, 3}` (it always hands
over to `_triangle`) -/
theorem libccd_tetrahedron_n {S : Sx ℝ} :
    (∀ e, tetrahedron S = .error e → e = .divZero) ∧
    (∀ r, tetrahedron S = .ok r → r.state = .continue_ → 1 ≤ r.n ∧ r.n ≤ 3) := by
  refine ⟨?_, ?_⟩
  · intro e h
    unfold tetrahedron at h
    simp only at h
    repeat' split at h
    all_goals (try cases h)
    all_goals first
      | exact libccd_ptTriDist_err ‹ptTriDist (α := ℝ) _ _ _ _ = Except.error _›
      | exact libccd_triangle_n.1 _ ‹triangle (α := ℝ) _ = Except.error _›
      | (rename_i heq
         repeat' split at heq
         all_goals (try cases heq)
         all_goals first
           | exact libccd_ptTriDist_err ‹ptTriDist (α := ℝ) _ _ _ _ = Except.error _›
           | (rename_i h2
              split at h2
              all_goals (try cases h2)
              all_goals exact libccd_ptTriDist_err ‹ptTriDist (α := ℝ) _ _ _ _ = Except.error _›))
  · intro r h hs
    unfold tetrahedron at h
    simp only at h
    repeat' split at h
    all_goals (try cases h)
    all_goals first
      | cases hs
      | (have ht := ‹triangle (α := ℝ) _ = Except.ok _›
         have hn := libccd_triangle_n.2 _ ht hs
         exact hn)


/-- `_refine_simplex`, whatever `n_points` it is called with -/
theorem libccd_refine_n {S : Sx ℝ} {m : Nat} :
    (∀ e, refineSimplex S m = .error e → e = .divZero) ∧
    (∀ r, refineSimplex S m = .ok r → r.state = .continue_ → 1 ≤ r.n ∧ r.n ≤ 3) := by
  unfold refineSimplex
  split
  · refine ⟨fun e h => (by cases h), ?_⟩
    intro r h hs
    cases h
    unfold lineSegment at hs ⊢
    simp only at hs ⊢
    repeat' split
    all_goals first
      | (rw [if_pos ‹_›] at hs; cases hs)
      | simp
  · split
    · exact libccd_triangle_n
    · exact libccd_tetrahedron_n

/-- one pass of the `for` body of `_gjk` (libccd) from a state with `n_points ≤ 3`: the store of
`simplex.add_point` (`v[n_points] = …`, the only variable index into the four-row arrays) is in range, the
only exception the pass can raise is the `ZeroDivisionError` of `point_to_triangle`, and if the loop
continues the new count is again between 1 and 3 -/
theorem libccd_step_index_safe (sup : V3 ℝ → V3 ℝ) (S : Sx ℝ) {n : Nat} (dir : V3 ℝ) (hn : n ≤ 3) :
    (∃ S1, addPoint S n (sup dir) = .ok S1) ∧
    (∀ e, gjkStep sup S n dir = .error e → e = .divZero) ∧
    (∀ S' n' dir' br, gjkStep sup S n dir = .ok (none, S', n', dir', br) → 1 ≤ n' ∧ n' ≤ 3) := by
  have hadd : ∃ S1, addPoint S n (sup dir) = .ok S1 := by
    interval_cases n <;> exact ⟨_, rfl⟩
  refine ⟨hadd, ?_, ?_⟩
  · intro e h
    unfold gjkStep at h
    simp only at h
    obtain ⟨S1, hS1⟩ := hadd
    rw [hS1] at h
    simp only at h
    repeat' split at h
    all_goals (try cases h)
    exact libccd_refine_n.1 _ ‹refineSimplex (α := ℝ) _ _ = Except.error _›
  · intro S' n' dir' br h
    unfold gjkStep at h
    simp only at h
    repeat' split at h
    all_goals (try cases h)
    exact libccd_refine_n.2 _ ‹refineSimplex (α := ℝ) _ _ = Except.ok _› ‹_›

/-- **index safety of the simplex arrays of `gjk_intersection_libccd`.**  The compiled kernels
(`_refine_simplex`, `_line_segment`, `_triangle`, `_tetrahedron`, `_set_point`) address `v`, `v1`, `v2` with
literal row numbers `0 … 3` only; the one variable index is the store `v[n_points]` of `add_point`.  From
every state with `n_points ≤ 3` — in particular from the initial one, `n_points = 1` — the loop never runs
into the model's `indexOOB`: whatever the support mapping, the only exception is `divZero`
(`point_to_triangle`).  No hypothesis on the colliders. -/
theorem libccd_loop_index_safe (sup : V3 ℝ → V3 ℝ) :
    ∀ (k it : Nat) (S : Sx ℝ) (n : Nat) (dir : V3 ℝ), n ≤ 3 →
      ∀ e, gjkLoop sup k it S n dir = .error e → e = .divZero
  | 0, _, _, _, _, _, e, h => by simp [gjkLoop] at h
  | k + 1, it, S, n, dir, hn, e, h => by
    obtain ⟨_, herr, hnext⟩ := libccd_step_index_safe sup S dir hn
    unfold gjkLoop at h
    split at h
    · cases h; exact herr _ ‹_›
    · cases h
    · rename_i S' n' dir' br hstep
      exact libccd_loop_index_safe sup k (it + 1) S' n' dir' (hnext _ _ _ _ hstep).2 e h

/-- **function level**: `gjk_intersection_libccd` never raises `IndexError`, for all first vertices, support
mappings and iteration caps -/
theorem libccd_simplex_index_safe (f1 f2 : V3 ℝ) (sA sB : V3 ℝ → V3 ℝ) (maxIterations : Nat) :
    gjkIntersectionLibccd f1 f2 sA sB maxIterations ≠ .error .indexOOB := by
  intro h
  have := libccd_loop_index_safe _ _ _ _ _ _ (by decide) _ h
  cases this

/-- the hypothesis `n ≤ 3` holds in the initial state (`n_points = 1` after the first `add_point`); the store
of the first pass goes to row 1 -/
example (sup : V3 ℝ → V3 ℝ) (S : Sx ℝ) (dir : V3 ℝ) :
    ∃ S1, addPoint S 1 (sup dir) = .ok S1 :=
  (libccd_step_index_safe sup S dir (by decide)).1

end Libccd

section Mpr
open MprPen

/-- **index safety of the only variable row index of the MPR kernels.**  `mpr.py` addresses the portal arrays
`v`, `v1`, `v2` (four rows) with literal row numbers, except in the scan of `_contact_position` for the portal
vertex closest to the origin (`closest = 1; for i in range(2, 4): … closest = i`): the index it ends with is
1, 2 or 3 and the row returned is that row. -/
theorem mpr_closest_row_index_safe (p1 p2 p3 : SP ℝ) :
    ((closestRow p1 p2 p3).2 = 1 ∧ (closestRow p1 p2 p3).1 = p1) ∨
    ((closestRow p1 p2 p3).2 = 2 ∧ (closestRow p1 p2 p3).1 = p2) ∨
    ((closestRow p1 p2 p3).2 = 3 ∧ (closestRow p1 p2 p3).1 = p3) := by
  unfold closestRow
  simp only
  split_ifs <;> simp

/-- a concrete portal: rows at squared distances 4, 1, 9 from the origin — the scan ends at row 2 -/
example : (closestRow (α := ℝ) ⟨⟨2, 0, 0⟩, ⟨0, 0, 0⟩, ⟨0, 0, 0⟩⟩ ⟨⟨0, 1, 0⟩, ⟨0, 0, 0⟩, ⟨0, 0, 0⟩⟩
    ⟨⟨0, 0, 3⟩, ⟨0, 0, 0⟩, ⟨0, 0, 0⟩⟩).2 = 2 := by
  unfold closestRow
  norm_num [V3.dot_def]

end Mpr

end C20
end D3
