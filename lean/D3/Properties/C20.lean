/-
C20 — compiled (numba) and interpreted execution give the same results.

numba deviates from Python in documented ways only: array indices are not checked,
compiled signatures are typed (dtype / layout), module globals are frozen at compile time.
This file collects the *obligations* under which those deviations are unobservable, for the
kernels that are modelled; they are corollaries of the theorems of the owning properties.
Everything else in C20 is the two-engine differential of harness/props/c20.py (labelled
"differential testing" in the evidence; not a proof).
-/
import D3.Properties.C05
import D3.Properties.C05Insert
import D3.Properties.C14
import D3.Properties.C15

namespace D3
namespace C20
open Aabb

/-- **index safety of `query_overlap`.** On every well-formed tree state the explicit-stack
traversal performs only in-range reads (the model's checked reads never yield `indexOOB`) and
never runs out of fuel: the compiled, unchecked loop reads exactly what the interpreted one
reads. -/
theorem query_index_safe (c : Core ℝ) (t : T ℝ) (h : wfCheck c = some (some t)) (q : Box ℝ) :
    ∃ res, queryOverlap q c.root c.nodes c.aabbs = .ok res := by
  obtain ⟨res, hres, _, _⟩ := C05.query_exact c t h q
  exact ⟨res, hres⟩

/-- **index safety of `query_overlap_of_other_tree`.** -/
theorem query_tree_index_safe (c1 c2 : Core ℝ) (t1 t2 : T ℝ)
    (h1 : wfCheck c1 = some (some t1)) (h2 : wfCheck c2 = some (some t2)) :
    ∃ res, queryTree c1 c2 = .ok res := by
  obtain ⟨res, hres, _, _⟩ := C05.query_tree_exact c1 c2 t1 t2 h1 h2
  exact ⟨res, hres⟩

/-- **empty containers.** The root index of an empty tree (`-1`) is never used as an array
index: the query returns the empty list (before the repair recorded as F-aabb-empty the
interpreted engine raised `IndexError` and the compiled one read out of bounds). -/
theorem empty_tree_no_read (q : Box ℝ) :
    queryOverlap q INDEX_NONE (#[] : Array Node) (#[] : Array (Box ℝ)) = .ok [] :=
  C05.empty_query_ok q

/-- the same for the tree-against-tree query with an empty second tree -/
theorem empty_other_tree_no_read (c1 : Core ℝ) :
    queryTree c1 { root := INDEX_NONE, nodes := #[], aabbs := #[], filledLen := 0 } = .ok [] := by
  simp [queryTree, queryTreeLoop, INDEX_NONE]

/-- the insertion loops cannot trip the cost assertion (so `assert` behaves identically in
both engines: it never fires) — tree layer, every history -/
theorem insert_assert_never_fires (ins : List (Int × Box ℝ × Int)) (t : T ℝ)
    (ht : t.Tight) (hv : t.AllValid) (hx : ∀ x ∈ ins, x.2.1.Valid) :
    (ins.foldlM (fun (t : T ℝ) x => t.insert x.1 x.2.1 x.2.2) t).isSome = true := by
  obtain ⟨t', h, _⟩ := C05.history_leaves ins t ht hv hx
  rw [h]; rfl

/-- **typed signatures.** numba's eagerly compiled support kernels accept only C-contiguous
float64 arrays. For every collider class, every history of `update_pose` / queries whose poses
are C-contiguous 4×4 arrays (fresh, or one item of a C-contiguous stack) and whose directions
are C-contiguous, the compiled engine never raises its signature `TypeError` — so the
interpreted and the compiled engine raise the same (no) exception. (Before the repair
F-disk-ellipse-update-pose this failed for Disk and Ellipse: `C14.disk_asIs_before_fix_typeErr`.) -/
theorem typed_signatures_ok (K : CS.Kernels ℝ) (shape : CS.Shape ℝ)
    (p0 : CS.Arr (CS.M4 ℝ)) (c0 : CS.Collider ℝ)
    (ops : List (CS.Op ℝ))
    (hs : shape.contigParams = true) (hp0 : p0.layout = .c)
    (hmk : CS.atPose .jit K shape p0 = .ok c0)
    (hP : CS.PosesContig ops) (hD : CS.DirsContig ops) :
    ∀ o ∈ CS.run .jit K c0 ops, o ≠ .error .typeErr :=
  C14.no_typeErr_contiguous_pose K shape p0 c0 ops hs hp0 hmk hP hD

/-- **index safety of the insertion code, every history.** No call of `AabbTree.insert_aabbs`
in any admissible history performs an out-of-range array access, trips an assertion or runs out
of loop fuel (array-level model: every read and write is checked) — the compiled, unchecked
loops touch exactly the rows the interpreted ones touch. -/
theorem insert_index_safe (h : List Aabb.Batch) (hok : ∀ b ∈ h, b.Ok) :
    ∃ tr, Aabb.runHistory Tree.empty h = .ok tr := by
  obtain ⟨tr, _, hrun, _⟩ := C05Insert.history_wf h hok
  exact ⟨tr, hrun⟩

/-- **index safety of the half-plane buffer.** `intersect_halfplanes` stores one row per valid
pairwise intersection into a buffer of `n (n-1) // 2 + 1` rows; for every list of half-planes the
store index is in range and the final `assert` holds, so the compiled engine (unchecked store)
and the interpreted one (IndexError / AssertionError) cannot differ here.  (Before the repair
recorded as F-C15-halfplane-buffer the buffer had `3 n` rows: eight concurrent boundary lines
made the interpreted engine raise `IndexError` and the compiled one write out of bounds —
`C15.halfplane_buffer_overflow_before_fix`.) -/
theorem halfplane_buffer_index_safe (hps : List (Hydro.HP ℝ)) :
    ∃ res, Hydro.intersectHalfplanes hps = .ok res :=
  let ⟨res, h, _⟩ := C15.halfplane_buffer_never_overflows hps
  ⟨res, h⟩

end C20
end D3
