/-
C08 — MPR penetration: depth, direction and contact position of `mpr.mpr_penetration`.

Property theorems only (helper lemmas: `D3/Proofs/MprPen*.lean`; model: `D3/Model/MprPen.lean`).
Strength S2: the two colliders are arbitrary sets `A`, `B` that enter through a support oracle
`sup` assumed only to satisfy the C03 contract `SupOK A B sup` (first component a support point of
`A` along `d`, second a support point of `B` along `-d`) and through their centres `c1`, `c2`.
`A ⊖ B = Mink A B = {a − b}` as `minkowski.make_support_point` defines it; the reported direction
points from collider 1 to collider 2, "translating collider 2 by `depth · direction`" is
`translate B (i.depth * i.dir)`.

The penetration depth is never taken as an infimum: `DepthAtLeast M r` says the ball of radius
`r` around the origin is inside `M` (no translation shorter than `r` separates the pair), and
"the true depth is at most `d`" is `∀ r, DepthAtLeast M r → r ≤ d`.

`i : PenInfo ℝ` is what `mpr_penetration` returns (`depth`, `dir`, `pos`) plus ghost data the
model records: `exit` (0 tolerance exit of `_find_penetration_info`, 1 its iteration-cap exit,
2 `ORIGIN_ON_V1`, 3 `ORIGIN_ON_V0V1_SEGMENT`), the final `portal`, the last portal direction `n`,
the last support point `w`, the `point_to_triangle` region `tri`, the `_contact_position`
branch `cpos` (0 main, 1 fallback, 2 degenerate portal), `touch` (`abs(depth) < EPSILON` fired).

Proved in full: `depth_nonneg`, `direction_unit_or_zero`, `depth_ge_true_minus_tol`,
`residual_le_tol` (in **every** Voronoi region of the closest point — `depth · direction` is
the closest point of the portal triangle itself, which lies in the portal plane),
`face_region_direction`, `touch_and_segment_cases`, `contact_bary`,
`contact_exact_of_nonneg_weights`, `contact_degenerate_portal`, `contact_position_total`,
`degenerate_portal_before_after` (repair 045c18e of F-mpr-degenerate-portal-nan),
`find_penetration_info_terminates`,
`segment_contact_asIs_counterexample` (the unchanged code violates the contact-position clause).
Not proved (see PARTIAL in harness/props/c08.py): anything about the iteration-cap exit and about
a degenerate final portal, that the barycentric weights are non-negative (the origin stays in
the portal tetrahedron — false when `_expand_portal` decides on an exactly-zero dot product, e.g. exactly touching polytopes: finding F-mpr-expand-tie),
termination of the uncapped `_refine_portal`, floating-point effects.
-/
import D3.Proofs.MprPenTop
import D3.Proofs.MprPenCex
import D3.Proofs.MprPenExample

namespace D3
namespace C08
open MprPen

/-- the final portal triangle `v1 v2 v3` is a genuine triangle (non-zero area) -/
def Nondegenerate (P : Portal ℝ) : Prop :=
  V3.cross (P.p2.v - P.p1.v) (P.p3.v - P.p1.v) ≠ V3.zero

variable {A B : V → Prop} {sup : Sup ℝ} {c1 c2 : V} {tol : ℝ} {maxIter fuel : ℕ}
  {res : PenRes ℝ} {i : PenInfo ℝ}

/-- in the `PORTAL_WAS_BUILT` case the result satisfies the exit facts of `_find_penetration_info` -/
theorem built_exit_facts (hs : SupOK A B sup)
    (h : mprPenetration sup c1 c2 tol maxIter fuel = .ok res) (hi : res.info = some i)
    (he : i.exit = 0 ∨ i.exit = 1) : ExitFacts A B sup tol (findOriginRay c1 c2).1 i := by
  rcases mprPenetration_cases h hi with ⟨_, hi'⟩ | ⟨_, hi'⟩ | ⟨hb, P', k, e, hr, hf⟩
  · rw [hi'] at he; simp [specialInfo] at he
  · rw [hi'] at he; simp [specialInfo] at he
  · obtain ⟨hp0, _, _, _, hrows⟩ := discoverPortal_spec hs c1 c2 maxIter
    obtain ⟨r1, r2, r3⟩ := hrows hb
    obtain ⟨q0, q1, q2, q3⟩ := refinePortal_spec hs tol _ fuel 0 _ _ _ _ r1 r2 r3 hr
    have := findPenInfoLoop_exit hs tol maxIter P'.p0 (maxIter + 2) 0 P'.p1 P'.p2 P'.p3 i q1 q2 q3 hf
    simp only at q0
    rw [q0, hp0] at this
    exact this

/-- the same facts for a call of `_find_penetration_info` on any portal whose rows 1..3 are
support rows (this is the level at which the concrete run `MprPen.Ex` instantiates them) -/
theorem find_info_exit_facts (hs : SupOK A B sup) {P : Portal ℝ}
    (hr : SPIn A B P.p1 ∧ SPIn A B P.p2 ∧ SPIn A B P.p3)
    (h : findPenetrationInfo sup P tol maxIter = .ok i) : ExitFacts A B sup tol P.p0 i :=
  findPenInfoLoop_exit hs tol maxIter P.p0 (maxIter + 2) 0 P.p1 P.p2 P.p3 i hr.1 hr.2.1 hr.2.2 h

/-- non-vacuity of the hypotheses used below (`SupOK`, a run that returns through the tolerance
exit, a non-degenerate final portal, face region, main contact branch): the nested balls
`Cex.A` (radius 4 at the origin) and `Cex.B` (radius 1/4 at (1,0,0)) with their exact support
oracle, a portal in the plane `x = 3`, `mpr_tolerance = 1` -/
example : SupOK Cex.A Cex.B Cex.sup ∧ ∃ i : PenInfo ℝ,
    findPenetrationInfo Cex.sup Ex.P 1 100 = .ok i ∧ i.exit = 0 ∧ Nondegenerate i.portal ∧
    i.tri = 6 ∧ i.touch = false ∧ i.depth = 3 := by
  obtain ⟨i, hrun, he, htri, _, htouch, hdep, _, hP⟩ := Ex.run 100
  exact ⟨Cex.supOK, i, hrun, he, by rw [Nondegenerate, hP]; exact Ex.nondegenerate, htri, htouch, hdep⟩

/-- non-vacuity of `mprPenetration … = .ok res ∧ res.info = some i`: the same two balls, whole
`mpr_penetration` (exit `ORIGIN_ON_V0V1_SEGMENT`) -/
example : ∃ (res : PenRes ℝ) (i : PenInfo ℝ),
    mprPenetration Cex.sup Cex.c1 Cex.c2 1e-4 100 1000 = .ok res ∧ res.info = some i ∧ i.exit = 3 := by
  obtain ⟨res, i, h, _, hi, he, _⟩ := Cex.run 1e-4 100 1000
  exact ⟨res, i, h, hi, he⟩

/-- **C08, depth ≥ 0.** Whatever exit `mpr_penetration` takes, the reported depth is
non-negative (no hypothesis on the colliders). -/
theorem depth_nonneg (h : mprPenetration sup c1 c2 tol maxIter fuel = .ok res)
    (hi : res.info = some i) : 0 ≤ i.depth := by
  rcases mprPenetration_cases h hi with ⟨_, hi'⟩ | ⟨_, hi'⟩ | ⟨_, P', k, e, _, hf⟩
  · rw [hi']; simp [specialInfo, findPenetrationTouch]
  · rw [hi']; simp only [specialInfo, findPenetrationSegment]; exact V3.norm_nonneg _
  · obtain ⟨P, e, n, w, k, hfin⟩ := findPenInfoLoop_finish sup tol maxIter P'.p0 _ _ _ _ _ i hf
    exact exit_depth_nonneg hfin

/-- **C08, direction.** The reported direction has unit length, or it is the zero vector and
then `|depth| < EPSILON` (touching contact; the code zeroes the direction when
`abs(depth) < EPSILON`, and `ORIGIN_ON_V1` reports depth 0). -/
theorem direction_unit_or_zero (hs : SupOK A B sup)
    (h : mprPenetration sup c1 c2 tol maxIter fuel = .ok res) (hi : res.info = some i) :
    V3.normSq i.dir = 1 ∨ (i.dir = V3.zero ∧ |i.depth| < EPS) := by
  rcases mprPenetration_cases h hi with ⟨_, hi'⟩ | ⟨hst, hi'⟩ | ⟨_, P', k, e, _, hf⟩
  · right; rw [hi']
    refine ⟨rfl, ?_⟩
    show |(0 : ℝ)| < EPS
    rw [abs_zero]; exact EPS_pos
  · left; rw [hi']
    simp only [specialInfo, findPenetrationSegment]
    obtain ⟨_, _, _, hne, _⟩ := discoverPortal_spec hs c1 c2 maxIter
    exact normVector_unit (hne hst)
  · obtain ⟨P, e, n, w, k, hfin⟩ := findPenInfoLoop_finish sup tol maxIter P'.p0 _ _ _ _ _ i hf
    exact exit_direction hfin

/-- **C08, depth never too small.** Tolerance exit, non-degenerate final portal: every ball
around the origin that fits into `A ⊖ B` has radius below `depth + mpr_tolerance + EPSILON`,
i.e. `depth ≥ true penetration depth − (mpr_tolerance + EPSILON)`.
Chain: true depth ≤ support value `h = ⟨w, n⟩` of `A ⊖ B` along the unit portal normal
(`depth_le_support`); `_portal_reach_tolerance` gives `h − δp < tol + ε` with `δp = ⟨v1, n⟩` the
distance of the portal plane; `depth = |closest point|`, the closest point lies in the portal
plane, so `depth ≥ δp`. -/
theorem depth_ge_true_minus_tol (hs : SupOK A B sup)
    (h : mprPenetration sup c1 c2 tol maxIter fuel = .ok res) (hi : res.info = some i)
    (he : i.exit = 0) (hnd : Nondegenerate i.portal) :
    ∀ r, DepthAtLeast (Mink A B) r → r < i.depth + (tol + EPS) :=
  fun r hr => exit_depth_bound hs (built_exit_facts hs h hi (Or.inl he)) he hnd r hr

/-- with the default `mpr_tolerance` of the source (regenerated constant) the slack is below the
property's `2e-3 · L` for every scene (`L ≥ 1`) -/
theorem depth_ge_true_minus_tol_default (hs : SupOK A B sup)
    (h : mprPenetrationDefault sup c1 c2 fuel = .ok res) (hi : res.info = some i)
    (he : i.exit = 0) (hnd : Nondegenerate i.portal) (L : ℝ) (hL : 1 ≤ L) :
    ∀ r, DepthAtLeast (Mink A B) r → r < i.depth + 2e-3 * L := by
  intro r hr
  have := depth_ge_true_minus_tol hs h hi he hnd r hr
  have htol : (D3.Gen.mpr__mpr_penetration__mpr_tolerance : ℝ) + EPS ≤ 2e-3 := by
    unfold D3.Gen.mpr__mpr_penetration__mpr_tolerance EPS D3.Gen.utils__EPSILON
    norm_num
  have h2 : (2e-3 : ℝ) ≤ 2e-3 * L := by
    have : (0 : ℝ) < 2e-3 := by norm_num
    nlinarith
  linarith

/-- the chain on the concrete run `MprPen.Ex` (reported depth 3, true depth 13/4, tolerance 1):
every ball inside `A ⊖ B` has radius below `3 + 1 + ε` -/
example : ∃ i : PenInfo ℝ, findPenetrationInfo Cex.sup Ex.P 1 100 = .ok i ∧ i.depth = 3 ∧
    ∀ r, DepthAtLeast (Mink Cex.A Cex.B) r → r < 3 + (1 + EPS) := by
  obtain ⟨i, hrun, he, _, _, _, hdep, _, hP⟩ := Ex.run 100
  refine ⟨i, hrun, hdep, fun r hr => ?_⟩
  have := exit_depth_bound Cex.supOK (find_info_exit_facts Cex.supOK Ex.rows hrun) he
    (by rw [hP]; exact Ex.nondegenerate) r hr
  rw [hdep] at this; exact this

/-- **C08, residual overlap.** Tolerance exit, non-degenerate final portal: after translating
collider 2 by `depth · direction` every ball around the origin that still fits into the
Minkowski difference has radius below `mpr_tolerance + 2·EPSILON` — in every region (face, edge,
vertex) of the closest point. -/
theorem residual_le_tol (hs : SupOK A B sup)
    (h : mprPenetration sup c1 c2 tol maxIter fuel = .ok res) (hi : res.info = some i)
    (he : i.exit = 0) (hnd : Nondegenerate i.portal) :
    ∀ r, DepthAtLeast (Mink A (translate B (i.depth * i.dir))) r → r < tol + EPS + EPS :=
  fun r hr => exit_residual_bound hs (built_exit_facts hs h hi (Or.inl he)) he hnd r hr

/-- with the default `mpr_tolerance` of the source the residual overlap is below the property's
`2e-3 · L` for every scene (`L ≥ 1`) -/
theorem residual_le_tol_default (hs : SupOK A B sup)
    (h : mprPenetrationDefault sup c1 c2 fuel = .ok res) (hi : res.info = some i)
    (he : i.exit = 0) (hnd : Nondegenerate i.portal) (L : ℝ) (hL : 1 ≤ L) :
    ∀ r, DepthAtLeast (Mink A (translate B (i.depth * i.dir))) r → r < 2e-3 * L := by
  intro r hr
  have := residual_le_tol hs h hi he hnd r hr
  have htol : (D3.Gen.mpr__mpr_penetration__mpr_tolerance : ℝ) + EPS + EPS ≤ 2e-3 := by
    unfold D3.Gen.mpr__mpr_penetration__mpr_tolerance EPS D3.Gen.utils__EPSILON
    norm_num
  have h2 : (2e-3 : ℝ) ≤ 2e-3 * L := by
    have : (0 : ℝ) < 2e-3 := by norm_num
    nlinarith
  linarith

/-- on the concrete run: after moving collider 2 by `3 · (1,0,0)` less than `1 + 2ε` overlap is left
(in fact 1/4) -/
example : ∃ i : PenInfo ℝ, findPenetrationInfo Cex.sup Ex.P 1 100 = .ok i ∧
    ∀ r, DepthAtLeast (Mink Cex.A (translate Cex.B (i.depth * i.dir))) r → r < 1 + EPS + EPS := by
  obtain ⟨i, hrun, he, _, _, _, _, _, hP⟩ := Ex.run 100
  exact ⟨i, hrun, fun r hr => exit_residual_bound Cex.supOK
    (find_info_exit_facts Cex.supOK Ex.rows hrun) he (by rw [hP]; exact Ex.nondegenerate) r hr⟩

/-- **C08, face region.** If the closest point of the portal triangle is in its interior
(`point_to_triangle` region 6) and the touching branch did not fire, the reported direction is
the portal normal up to sign. -/
theorem face_region_direction (hs : SupOK A B sup)
    (h : mprPenetration sup c1 c2 tol maxIter fuel = .ok res) (hi : res.info = some i)
    (he : i.exit = 0 ∨ i.exit = 1) (hnd : Nondegenerate i.portal) (htri : i.tri = 6)
    (htouch : i.touch = false) : i.dir = i.n ∨ i.dir = -i.n := by
  have hf := built_exit_facts hs h hi he
  obtain ⟨t, c, ht, _, hdep, hdir, _, htch, htr, _, _, _⟩ := exit_unpack hf.fin
  have hlt : ¬ absS t.2.1 < EPS := by
    intro hlt; rw [htch] at htouch; simp [hlt] at htouch
  rw [hdir, if_neg hlt, hf.n]
  have horth := face_region_orthogonal _ _ _ t ht (by rw [← htr]; exact htri)
  have hpar := parallel_of_orthogonal hnd horth.1 horth.2
  obtain ⟨hn1, _, _⟩ := portalDirection_spec _ _ _ hnd
  unfold portalDirection at hn1 ⊢
  exact normVector_of_parallel hn1 hpar (by
    intro hz
    apply hlt
    obtain ⟨_, _, _, _, _, hd⟩ := pointToTriangle_affine _ _ _ _ _ ht
    rw [hd, hz, absS_real]
    have : V3.norm (V3.zero - (V3.zero : V)) = 0 := by
      rw [norm_neg]; exact (norm_eq_zero_iff _).mpr rfl
    rw [this, abs_zero]; exact EPS_pos)

/-- on the concrete run the reported direction is the portal normal (1,0,0) -/
example : ∃ i : PenInfo ℝ, findPenetrationInfo Cex.sup Ex.P 1 100 = .ok i ∧ i.tri = 6 ∧
    i.touch = false ∧ i.dir = ⟨1, 0, 0⟩ := by
  obtain ⟨i, hrun, _, htri, _, htouch, _, hdir, _⟩ := Ex.run 100
  exact ⟨i, hrun, htri, htouch, hdir⟩

/-- **C08, the two special exits.**
`ORIGIN_ON_V1` (exit 2): depth 0 and zero direction are reported, 0 *is* the true depth, and the
contact position is the common support point — exactly in both colliders.
`ORIGIN_ON_V0V1_SEGMENT` (exit 3): the direction is a unit vector, the reported depth `|v1|` is
at least the true depth, translating collider 2 by `depth · direction = v1` (a boundary point of
`A ⊖ B`) leaves no overlap at all, and the contact position is the midpoint of a point `a ∈ A`
and a point `b ∈ B` that are `depth` apart — so it is within `depth / 2` of both colliders
(it need not be *in* them: `segment_contact_asIs_counterexample`). -/
theorem touch_and_segment_cases (hs : SupOK A B sup)
    (h : mprPenetration sup c1 c2 tol maxIter fuel = .ok res) (hi : res.info = some i) :
    (i.exit = 2 → i.depth = 0 ∧ i.dir = V3.zero ∧ A i.pos ∧ B i.pos ∧
        ∀ r, DepthAtLeast (Mink A B) r → r ≤ 0) ∧
    (i.exit = 3 → V3.normSq i.dir = 1 ∧
        (∀ r, DepthAtLeast (Mink A B) r → r ≤ i.depth) ∧
        (∀ r, DepthAtLeast (Mink A (translate B (i.depth * i.dir))) r → r ≤ 0) ∧
        ∃ a b, A a ∧ B b ∧ i.pos = V3.smul 0.5 (a + b) ∧ V3.norm (a - b) = i.depth ∧
          V3.norm (i.pos - a) = i.depth / 2 ∧ V3.norm (i.pos - b) = i.depth / 2) := by
  obtain ⟨hp0, hp1, hv0, hne, _⟩ := discoverPortal_spec hs c1 c2 maxIter
  have hunit := originRay_dir_unit c1 c2
  rcases mprPenetration_cases h hi with ⟨hst, hi'⟩ | ⟨hst, hi'⟩ | ⟨hb, P', k, e, hr, hf⟩
  · constructor
    · intro _
      have hp1' := hp1 (Or.inl hst)
      have hz := hv0 hst
      have hin : SPIn A B (discoverPortal sup c1 c2 maxIter).2.1.p1 := by
        rw [hp1']; exact supportFn_in hs _
      obtain ⟨hA, hB⟩ := touch_contact_exact hin hz
      rw [hi']
      refine ⟨rfl, rfl, hA, hB, ?_⟩
      intro r hr
      rw [hp1'] at hz
      exact touch_depth_zero hs hunit hz r hr
    · intro he; rw [hi'] at he; simp [specialInfo] at he
  · constructor
    · intro he; rw [hi'] at he; simp [specialInfo] at he
    · intro _
      have hp1' := hp1 (Or.inr hst)
      rw [hi']
      simp only [specialInfo]
      rw [hp1']
      refine ⟨?_, ?_, ?_, ?_⟩
      · simp only [findPenetrationSegment]
        rw [← hp1']; exact normVector_unit (hne hst)
      · intro r hr; exact segment_depth_bound hs hunit r hr
      · intro r hr; exact segment_residual hs hunit r hr
      · have hin := supportFn_in hs (normVector (-(findOriginRay c1 c2).1.v))
        refine ⟨_, _, hin.1, hin.2.1, rfl, ?_, ?_, ?_⟩
        · simp only [findPenetrationSegment]; rw [hin.2.2]
        · have := (midpoint_dist (supportFn sup (normVector (-(findOriginRay c1 c2).1.v))).a
            (supportFn sup (normVector (-(findOriginRay c1 c2).1.v))).b).1
          simp only [findPenetrationSegment]
          rw [this, hin.2.2]
        · have := (midpoint_dist (supportFn sup (normVector (-(findOriginRay c1 c2).1.v))).a
            (supportFn sup (normVector (-(findOriginRay c1 c2).1.v))).b).2
          simp only [findPenetrationSegment]
          rw [this, hin.2.2]
  · have hfacts := findPenInfoLoop_exit hs tol maxIter P'.p0 (maxIter + 2) 0 P'.p1 P'.p2 P'.p3 i
    obtain ⟨hp0', _, _, _, hrows⟩ := discoverPortal_spec hs c1 c2 maxIter
    obtain ⟨r1, r2, r3⟩ := hrows hb
    obtain ⟨q0, q1, q2, q3⟩ := refinePortal_spec hs tol _ fuel 0 _ _ _ _ r1 r2 r3 hr
    have he01 := (hfacts q1 q2 q3 hf).exit01
    constructor <;> intro he <;> omega

/-- **C08, contact position from barycentric weights** (`PORTAL_WAS_BUILT` exits).
The weights `_contact_position` uses (main branch, the `coords_sum < EPSILON` fallback, or — in
the degenerate-portal branch of the repair 045c18e — the unit weight on the portal row closest to
the origin) sum to 1; the contact position is the midpoint of the two pre-images `x = Σ wᵢ aᵢ`, `y = Σ wᵢ bᵢ`
(rows `aᵢ ∈ A`, `bᵢ ∈ B`), hence half of `|x − y|` away from each; where the weights are
non-negative the pre-images lie in `A` and `B` (convex combinations of the centre and support
points). -/
theorem contact_bary (hs : SupOK A B sup) (hA : ConvexSet A) (hB : ConvexSet B)
    (hc1 : A c1) (hc2 : B c2)
    (h : mprPenetration sup c1 c2 tol maxIter fuel = .ok res) (hi : res.info = some i)
    (he : i.exit = 0 ∨ i.exit = 1) :
    ∃ (w : ℝ × ℝ × ℝ × ℝ) (x y : V), sum4 w = 1 ∧
      x = comb4 w i.portal.p0.a i.portal.p1.a i.portal.p2.a i.portal.p3.a ∧
      y = comb4 w i.portal.p0.b i.portal.p1.b i.portal.p2.b i.portal.p3.b ∧
      i.pos = V3.smul 0.5 (x + y) ∧
      V3.norm (i.pos - x) = V3.norm (x - y) / 2 ∧ V3.norm (i.pos - y) = V3.norm (x - y) / 2 ∧
      ((0 ≤ w.1 ∧ 0 ≤ w.2.1 ∧ 0 ≤ w.2.2.1 ∧ 0 ≤ w.2.2.2) → A x ∧ B y) := by
  have hf := built_exit_facts hs h hi he
  obtain ⟨t, c, _, hc, _, _, hpos, _, _, _, _, _⟩ := exit_unpack hf.fin
  obtain ⟨ha0, hb0⟩ := findOriginRay_ab c1 c2
  obtain ⟨r1, r2, r3⟩ := hf.rows
  -- in every branch the position is the midpoint of two pre-images with weights summing to 1
  have key : ∃ w : ℝ × ℝ × ℝ × ℝ, sum4 w = 1 ∧
      i.pos = V3.smul 0.5 (comb4 w i.portal.p0.a i.portal.p1.a i.portal.p2.a i.portal.p3.a +
        comb4 w i.portal.p0.b i.portal.p1.b i.portal.p2.b i.portal.p3.b) := by
    rcases contactPosition_ok hc with ⟨_, hcd⟩ | ⟨_, w, hw, hcw⟩
    · obtain ⟨w, hsum, _, _, _, _, hd⟩ := degeneratePos_as_comb i.portal
      exact ⟨w, hsum, by rw [hpos, hcd]; exact hd⟩
    · exact ⟨w.1, contactWeights_sum hw, by rw [hpos, hcw]⟩
  obtain ⟨w, hsum, hp⟩ := key
  refine ⟨w, _, _, hsum, rfl, rfl, hp, ?_, ?_, ?_⟩
  · rw [hp]; exact (midpoint_dist _ _).1
  · rw [hp]; exact (midpoint_dist _ _).2
  · rintro ⟨w0, w1, w2, w3⟩
    constructor
    · apply comb4_mem hA _ r1.1 r2.1 r3.1 w0 w1 w2 w3 hsum
      rw [hf.p0, ha0]; exact hc1
    · apply comb4_mem hB _ r1.2.1 r2.2.1 r3.2.1 w0 w1 w2 w3 hsum
      rw [hf.p0, hb0]; exact hc2

/-- non-vacuity: convex colliders containing their centres, and a portal (the one of `MprPen.Ex`)
on which `_contact_position` takes the main branch with the non-negative weights
(3/4, 1/8, 1/16, 1/16) -/
example : ConvexSet Cex.A ∧ ConvexSet Cex.B ∧ Cex.A Cex.c1 ∧ Cex.B Cex.c2 ∧
    contactWeights Ex.P.p0.v Ex.P.p1.v Ex.P.p2.v Ex.P.p3.v ⟨1, 0, 0⟩ =
      .ok ((3 / 4, 1 / 8, 1 / 16, 1 / 16), 0) :=
  ⟨Cex.convexA, Cex.convexB, Cex.c1_mem, Cex.c2_mem, Ex.weights⟩

/-- **C08, contact position exactly in both colliders** — under the condition the code does not
establish: main branch of `_contact_position`, distinct centres (no `portals_center_is_origin`
nudge, so row 0 is `c1 − c2`), and all four barycentric weights non-negative (the origin is in
the portal tetrahedron).  Then the two pre-images coincide (Cramer: `Σ bᵢ vᵢ = 0`) and the
contact position is that common point of `A` and `B`. -/
theorem contact_exact_of_nonneg_weights (hs : SupOK A B sup) (hA : ConvexSet A) (hB : ConvexSet B)
    (hc1 : A c1) (hc2 : B c2) (hne : c1 ≠ c2)
    (h : mprPenetration sup c1 c2 tol maxIter fuel = .ok res) (hi : res.info = some i)
    (he : i.exit = 0 ∨ i.exit = 1) (hmain : i.cpos = 0)
    (hw : ∀ w, contactWeights i.portal.p0.v i.portal.p1.v i.portal.p2.v i.portal.p3.v i.n = .ok w →
      0 ≤ w.1.1 ∧ 0 ≤ w.1.2.1 ∧ 0 ≤ w.1.2.2.1 ∧ 0 ≤ w.1.2.2.2) :
    A i.pos ∧ B i.pos := by
  have hf := built_exit_facts hs h hi he
  obtain ⟨t, c, _, hc, _, _, hpos, _, _, hcp, _, _⟩ := exit_unpack hf.fin
  rw [← hf.n] at hc
  rcases contactPosition_ok hc with ⟨_, hcd⟩ | ⟨_, w, hwok, hcw⟩
  · rw [hcd] at hcp; simp only at hcp; omega
  have hsum := contactWeights_sum hwok
  obtain ⟨w0, w1, w2, w3⟩ := hw w hwok
  obtain ⟨ha0, hb0⟩ := findOriginRay_ab c1 c2
  obtain ⟨r1, r2, r3⟩ := hf.rows
  have hbr : w.2 = 0 := by rw [hcw] at hcp; simp only at hcp; rw [← hcp]; exact hmain
  have h0 : i.portal.p0.v = i.portal.p0.a - i.portal.p0.b := by
    rw [hf.p0, ha0, hb0]; exact findOriginRay_v c1 c2 hne
  have hxy := main_branch_preimages_coincide hwok hbr h0 r1.2.2 r2.2.2 r3.2.2
  have hx : A (comb4 w.1 i.portal.p0.a i.portal.p1.a i.portal.p2.a i.portal.p3.a) := by
    apply comb4_mem hA _ r1.1 r2.1 r3.1 w0 w1 w2 w3 hsum
    rw [hf.p0, ha0]; exact hc1
  have hy : B (comb4 w.1 i.portal.p0.b i.portal.p1.b i.portal.p2.b i.portal.p3.b) := by
    apply comb4_mem hB _ r1.2.1 r2.2.1 r3.2.1 w0 w1 w2 w3 hsum
    rw [hf.p0, hb0]; exact hc2
  have hposx : i.pos = comb4 w.1 i.portal.p0.a i.portal.p1.a i.portal.p2.a i.portal.p3.a := by
    rw [hpos, hcw]
    simp only
    rw [← hxy]
    apply V3.ext' <;> simp only [smul_def, add_def, half_real] <;> ring
  constructor
  · rw [hposx]; exact hx
  · rw [hposx, hxy]; exact hy

/-- **C08, degenerate portal (repair 045c18e).**  When `_contact_position` takes its
degenerate-portal branch (`cpos = 2`: both barycentric weight sums are below `EPSILON`, e.g. a
portal with a repeated vertex left by the iteration cap of `_discover_portal` on an exactly
touching pair) the reported contact position is the midpoint of the two pre-images `a ∈ A`,
`b ∈ B` of **one portal row** `p = a − b` — a row of smallest `|v|` among rows 1..3 (row
invariant: `discoverPortal_spec`, `refinePortal_spec`, `findPenInfoLoop_exit`) — hence within
`|p.v| / 2` of both colliders; and if that row is the origin (the touching point) the contact
position lies in `A ∩ B`. -/
theorem contact_degenerate_portal (hs : SupOK A B sup)
    (h : mprPenetration sup c1 c2 tol maxIter fuel = .ok res) (hi : res.info = some i)
    (he : i.exit = 0 ∨ i.exit = 1) (hdeg : i.cpos = 2) :
    ∃ p : SP ℝ, (p = i.portal.p1 ∨ p = i.portal.p2 ∨ p = i.portal.p3) ∧
      A p.a ∧ B p.b ∧ p.v = p.a - p.b ∧
      V3.normSq p.v ≤ V3.normSq i.portal.p1.v ∧ V3.normSq p.v ≤ V3.normSq i.portal.p2.v ∧
      V3.normSq p.v ≤ V3.normSq i.portal.p3.v ∧
      i.pos = V3.smul 0.5 (p.a + p.b) ∧
      V3.norm (i.pos - p.a) = V3.norm p.v / 2 ∧ V3.norm (i.pos - p.b) = V3.norm p.v / 2 ∧
      (p.v = V3.zero → A i.pos ∧ B i.pos) := by
  have hf := built_exit_facts hs h hi he
  obtain ⟨t, c, _, hc, _, _, hpos, _, _, hcp, _, _⟩ := exit_unpack hf.fin
  obtain ⟨r1, r2, r3⟩ := hf.rows
  have hposd : i.pos = degeneratePos i.portal := by
    rcases contactPosition_ok hc with ⟨_, hcd⟩ | ⟨_, w, hwok, hcw⟩
    · rw [hpos, hcd]
    · exfalso
      obtain ⟨u, s, _, _, _, hcase⟩ := contactWeights_ok hwok
      rw [hcw] at hcp; simp only at hcp
      rcases hcase with ⟨h0, _⟩ | ⟨h1, _⟩ <;> omega
  obtain ⟨p, _, hmem, hA, hB, hv, hmid, hda, hdb, m1, m2, m3, hz⟩ := degeneratePos_spec r1 r2 r3
  rw [← hposd] at hmid hda hdb hz
  exact ⟨p, hmem, hA, hB, hv, m1, m2, m3, hmid, hda, hdb, hz⟩

/-- non-vacuity of the degenerate branch: on the exact portal `Ex.Deg.P` the scan selects row 2,
which is the origin with coinciding pre-images (see `degenerate_portal_before_after`) -/
example : closestRow Ex.Deg.P.p1 Ex.Deg.P.p2 Ex.Deg.P.p3 = (Ex.Deg.r2, 2) ∧
    Ex.Deg.r2.v = V3.zero ∧ Ex.Deg.r2.a = Ex.Deg.r2.b :=
  ⟨Ex.Deg.closest, rfl, rfl⟩

/-- **C08, `_contact_position` cannot divide by zero any more** (after 045c18e): for every portal
and direction the model returns a position.  Before the repair a portal whose main weights sum
below `EPSILON` and whose fallback weights sum to exactly 0 gave `0 / 0`
(`contactPosition_before_fix_divZero`; NaN in the implementation, finding
F-mpr-degenerate-portal-nan). -/
theorem contact_position_total (P : Portal ℝ) (dir : V) : ∃ c, contactPosition P dir = .ok c :=
  contactPosition_total P dir

/-- **C08, before / after on an exact degenerate portal** (the shape of the witness of
F-mpr-degenerate-portal-nan: rows 1 and 3 coincide, row 2 is the origin with both pre-images at
(1,1,0); the portal direction is the zero vector): before the repair `_contact_position` divides
by zero, after it returns the touching point (1,1,0) through branch 2. -/
theorem degenerate_portal_before_after :
    contactPosition_asIs_before_fix Ex.Deg.P (portalDirection Ex.Deg.P.p1 Ex.Deg.P.p2 Ex.Deg.P.p3)
      = .error .divZero ∧
    contactPosition Ex.Deg.P (portalDirection Ex.Deg.P.p1 Ex.Deg.P.p2 Ex.Deg.P.p3)
      = .ok (⟨1, 1, 0⟩, 2) ∧
    Ex.Deg.P.p1 = Ex.Deg.P.p3 ∧ Ex.Deg.P.p2.v = V3.zero :=
  ⟨Ex.Deg.before, Ex.Deg.after, rfl, rfl⟩

/-- the repair changes nothing outside the degenerate condition -/
theorem contact_position_unchanged_off_degenerate (P : Portal ℝ) (dir : V)
    (h : ¬ ContactDegenerate P dir) :
    contactPosition P dir = contactPosition_asIs_before_fix P dir := by
  rw [contactPosition_split, if_neg h]

/-- distinct centres in the example scene (no `portals_center_is_origin` nudge) -/
example : Cex.c1 ≠ Cex.c2 := by
  intro h; have := congrArg V3.x h; simp [Cex.c1, Cex.c2] at this

/-- **C08, termination of `_find_penetration_info`.** The loop is capped by
`iterations > max_iterations`: the model's fuel `max_iterations + 2` is never exhausted, for
every support oracle and every portal. -/
theorem find_penetration_info_terminates (sup : Sup ℝ) (P : Portal ℝ) (tol : ℝ) (maxIter : ℕ) :
    findPenetrationInfo sup P tol maxIter ≠ .error .fuel :=
  findPenInfoLoop_fuel sup tol maxIter P.p0 (maxIter + 2) 0 P.p1 P.p2 P.p3 (by omega) (by omega)

/-- **C08, the unchanged code violates the contact-position clause** (finding
F-mpr-segment-contact).  Collider 1 = ball of radius 4 around the origin, collider 2 = ball of
radius 1/4 around (1,0,0) (nested; both convex, the oracle is the exact sphere support mapping,
`L = 8`, `2e-3·L = 0.016`): for every tolerance, iteration cap and fuel the model of
`mpr_penetration` — like the implementation — reports intersection with depth 13/4 (the true
depth) and the contact position (19/8, 0, 0), which is at distance ≥ 9/8 from every point of
collider 2. -/
theorem segment_contact_asIs_counterexample :
    ∃ (A B : V → Prop) (sup : Sup ℝ) (c1 c2 : V),
      ConvexSet A ∧ ConvexSet B ∧ SupOK A B sup ∧ A c1 ∧ B c2 ∧
      ∀ (tol : ℝ) (maxIter fuel : ℕ), ∃ (res : PenRes ℝ) (i : PenInfo ℝ),
        mprPenetration sup c1 c2 tol maxIter fuel = .ok res ∧ res.inter = true ∧
        res.info = some i ∧ i.exit = 3 ∧ i.depth = 13 / 4 ∧ i.dir = ⟨1, 0, 0⟩ ∧
        i.pos = ⟨19 / 8, 0, 0⟩ ∧ ∀ b, B b → 9 / 8 ≤ V3.norm (i.pos - b) :=
  ⟨Cex.A, Cex.B, Cex.sup, Cex.c1, Cex.c2, Cex.convexA, Cex.convexB, Cex.supOK, Cex.c1_mem,
    Cex.c2_mem, Cex.run⟩

end C08
end D3
