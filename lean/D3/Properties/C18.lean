/-
C18 — Simplex solvers return the minimum-norm point of the convex hull of 1–4 points.

Property theorems only (helper lemmas live in D3/Proofs/Simplex*.lean).  All statements are
about the executable, scalar-polymorphic models `D3.Simplex` (Jolt-style GJK,
`_gjk_jolt.py`) and `D3.SimplexOrig` (backup procedure of the original GJK,
`_gjk_original.py`) instantiated at `α := ℝ`.  Thresholds are the regenerated constants
`D3.Gen.gjk__gjk_jolt__EPSILON_SQR` (`EPS2`), `D3.Gen.utils__EPSILON` (`EPS`),
`D3.Gen.utils__MAX_FLOAT` (`MAXF`), `D3.Gen.gjk__gjk_original__EPSILON`.

Vocabulary (`D3/Proofs/SimplexSpec.lean`): `hullSet pts` = all convex combinations of the
list `pts`; `IsMinNorm K v` = `v ∈ K` and no point of `K` has smaller norm;
`selectBits s pts` = the sub-list of `pts` named by the bit set `s` (bit i ↔ i-th point).

Bands the code treats by thresholds are excluded by explicit, named hypotheses
(`hband`, `hfaces`, `hbound`); what the as-is code does inside such a band is shown by the
`…_asIs_counterexample` theorems (known findings F-C18-jolt-abs-eps, F-C18-orig-abs-eps).
The triangle routine is modelled as repaired in /repo commit ea3a5ff (relative degeneracy test
`|n|² ≤ EPSILON·L⁴`); `closestPointTriangle_asIs_before_fix` keeps the old absolute test.
Inside the new degenerate band `triangle_sliver_bound` bounds the error by `sqrt(EPSILON)·L`.

Not proved (see PARTIAL in harness/props/c18.py): `backup_optimal` (Johnson's theorem: the
best candidate with positive cofactors is the minimiser of the hull) — replaced by
`backup_feasible_*` + "never worse than any vertex"; the triangle-band and original-solver
as-is counterexamples are evaluated at `Rat` (the same polymorphic term; `decide +kernel`), only
the tetrahedron band is also proved at `ℝ` (`tetra_band_asIs`, `…_counterexample_real`).
-/
import D3.Proofs.SimplexTetraFlat
import D3.Proofs.SimplexOrig

namespace D3
namespace C18
open Simplex

/-- `TriRegular` for a concrete triangle: all squared edges `≤ L`, `ε·L² < |n|²` (by `norm_num`) -/
macro "tri_regular " L:term : term =>
  `(triRegular_of_bound _ _ _ $L (by norm_num [V3.dot_def]) (by norm_num [V3.dot_def])
      (by norm_num [V3.dot_def])
      (by norm_num [V3.dot_def, cross_x, cross_y, cross_z, EPS, D3.Gen.utils__EPSILON]))

/-! ## the convexity / variational lemma -/

/-- **Variational characterisation.** For a convex set `K`, `v` is a minimum-norm point of `K`
iff `v ∈ K` and `⟨v, x − v⟩ ≥ 0` for every `x ∈ K`. -/
theorem minNorm_iff_var {K : V → Prop} (hK : ConvexSet K) (v : V) :
    IsMinNorm K v ↔ K v ∧ ∀ x, K x → V3.dot v v ≤ V3.dot v x :=
  ⟨fun h => ⟨h.1, var_of_isMinNorm hK h⟩, fun h => isMinNorm_of_var h.1 h.2⟩

/-- hulls are convex, so the characterisation applies to them -/
theorem hull_isConvex (pts : List V) : ConvexSet (hullSet pts) := hull_convex pts

/-- for a hull it is enough to test the inequality at the vertices -/
theorem minNorm_hull_of_vertices {pts : List V} {v : V} (hv : hullSet pts v)
    (h : ∀ p ∈ pts, V3.dot v v ≤ V3.dot v p) : IsMinNorm (hullSet pts) v :=
  isMinNorm_hull_of_vertices hv h

example : IsMinNorm (hullSet [(⟨1, 0, 0⟩ : V), ⟨0, 1, 0⟩]) ((0.5 : ℝ) * (⟨1, 0, 0⟩ : V) + (0.5 : ℝ) * (⟨0, 1, 0⟩ : V)) := by
  refine minNorm_hull_of_vertices (hull2_intro _ _ (by norm_num) (by norm_num) (by norm_num)) ?_
  intro p hp
  simp only [List.mem_cons, List.not_mem_nil, or_false] at hp
  rcases hp with rfl | rfl <;> norm_num [V3.dot_def]

/-! ## Jolt solver: line segment -/

/-- **line_spec.** If the code's test `|b − a|² < EPSILON_SQR` fails, `closest_point_line`
returns (without dividing by zero) the minimum-norm point of the segment; its set bits are
`1`, `2` or `3` and name a sub-simplex whose hull contains the point. -/
theorem line_spec (a b : V) (h : ¬ V3.dot (b - a) (b - a) < EPS2) :
    ∃ r, closestPointLine a b = .ok r ∧ IsMinNorm (segmentSet a b) r.pt ∧
      hullSet (selectBits r.set [a, b]) r.pt ∧ (r.set = 1 ∨ r.set = 2 ∨ r.set = 3) := by
  obtain ⟨r, h1, h2, h3, h4, _⟩ := closestPointLine_spec a b h
  exact ⟨r, h1, h2, h3, h4⟩

example : ¬ V3.dot ((⟨-1, 1, 0⟩ : V) - ⟨1, 1, 0⟩) ((⟨-1, 1, 0⟩ : V) - ⟨1, 1, 0⟩) < EPS2 := by
  norm_num [V3.dot_def, EPS2, D3.Gen.gjk__gjk_jolt__EPSILON_SQR]

/-- **line_spec, degenerate branch.** If `|b − a|² < EPSILON_SQR` the nearer endpoint is
returned (`a` iff `|a|² < |b|²`), with set bit `1` resp. `2`. -/
theorem line_degenerate (a b : V) (h : V3.dot (b - a) (b - a) < EPS2) :
    closestPointLine a b = if V3.dot a a < V3.dot b b then .ok ⟨a, 1, 0⟩ else .ok ⟨b, 2, 1⟩ :=
  closestPointLine_degenerate a b h

/-- … which is exact when the endpoints coincide -/
theorem line_same (a : V) :
    ∃ r, closestPointLine a a = .ok r ∧ IsMinNorm (segmentSet a a) r.pt ∧
      hullSet (selectBits r.set [a, a]) r.pt :=
  closestPointLine_same a

/-! ## Jolt solver: triangle -/

/-- **triangle_spec** (code after repair ea3a5ff).  `TriRegular a b c` is the negation of the
code's degeneracy test `|n|² ≤ EPSILON · L⁴` (`n` = the normal the code computes from the two
shorter edges, `L²` = the longest squared edge; i.e. altitude over the longest edge above
`sqrt(EPSILON)·L`).  For a regular triangle the seven Voronoi regions of
`closest_point_triangle` are exhaustive, no division is by zero, the returned point is the
minimum-norm point of the triangle, and the set bits (1…7) name a sub-simplex whose hull
contains it.  (Per-region theorems: `Simplex.tri_regionA/B/C/AB/AC/BC/Face`, exhaustiveness:
`Simplex.tri_exhaustive_scalar`.) -/
theorem triangle_spec (a b c : V) (h : TriRegular a b c) :
    ∃ r, closestPointTriangle a b c = .ok r ∧ IsMinNorm (hullSet [a, b, c]) r.pt ∧
      hullSet (selectBits r.set [a, b, c]) r.pt ∧ 1 ≤ r.set ∧ r.set ≤ 7 := by
  obtain ⟨r, h1, h2, h3, h4, h5, _⟩ := closestPointTriangle_spec a b c h
  exact ⟨r, h1, h2, h3, h4, h5⟩

/-- the hypothesis spelled out -/
theorem triRegular_iff (a b c : V) : TriRegular a b c ↔
    EPS * maxEdgeLenSq a b c * maxEdgeLenSq a b c <
      V3.dot (triNormal a b c) (triNormal a b c) := by
  unfold TriRegular; exact not_le

example : TriRegular (⟨1, 0, 1⟩ : V) ⟨-1, 1, 1⟩ ⟨-1, -1, 1⟩ := tri_regular 5

/-- the same theorem for the routine as it was before the repair (absolute test
`|n|² ≥ EPSILON_SQR`): the region cascade itself was and is correct in exact arithmetic -/
theorem triangle_spec_before_fix (a b c : V)
    (h : ¬ V3.dot (triNormal a b c) (triNormal a b c) < EPS2) :
    ∃ r, closestPointTriangle_asIs_before_fix a b c = .ok r ∧ IsMinNorm (hullSet [a, b, c]) r.pt ∧
      hullSet (selectBits r.set [a, b, c]) r.pt ∧ 1 ≤ r.set ∧ r.set ≤ 7 := by
  obtain ⟨r, h1, h2, h3, h4, h5, _⟩ := closestPointTriangle_before_fix_spec a b c h
  exact ⟨r, h1, h2, h3, h4, h5⟩

/-- in exact arithmetic the two normals the code chooses between coincide -/
theorem triangle_normal (a b c : V) : triNormal a b c = V3.cross (b - a) (c - a) :=
  triNormal_eq a b c

/-- **triangle, degenerate branch (what is computed).** If `|n|² ≤ EPSILON·L⁴` the result is
that of the fallback "best of the three edges". -/
theorem triangle_degenerate_unfold (a b c : V)
    (h : V3.dot (triNormal a b c) (triNormal a b c) ≤
      EPS * maxEdgeLenSq a b c * maxEdgeLenSq a b c) :
    closestPointTriangle a b c = closestPointTriangleDegenerate a b c := by
  simp only [closestPointTriangle, h, if_true]

/-- **triangle, degenerate band** (`|n|² ≤ EPSILON·L⁴`: slivers, near-duplicate points, exactly
collinear points; edges exact (`EdgeOK`)).  The fallback returns a point of an edge, with
correct set bits, that minimises the norm over the three edges, and its norm exceeds the norm
of no point of the triangle — in particular not the minimum norm — by more than
`sqrt(EPSILON · L²)` (`sqrt(EPSILON)` times the longest edge: the bound on the altitude).
This replaces the former "band excluded" gap for slivers. -/
theorem triangle_sliver_bound (a b c : V)
    (hdeg : V3.dot (triNormal a b c) (triNormal a b c) ≤
      EPS * maxEdgeLenSq a b c * maxEdgeLenSq a b c)
    (hab : EdgeOK a b) (hac : EdgeOK a c) (hbc : EdgeOK b c) :
    ∃ r, closestPointTriangle a b c = .ok r ∧
      hullSet (selectBits r.set [a, b, c]) r.pt ∧ 1 ≤ r.set ∧ r.set ≤ 7 ∧
      (∀ y, (hullSet [a, b] y ∨ hullSet [a, c] y ∨ hullSet [b, c] y) →
        V3.normSq r.pt ≤ V3.normSq y) ∧
      ∀ x, hullSet [a, b, c] x →
        V3.norm r.pt ≤ V3.norm x + Real.sqrt (EPS * maxEdgeLenSq a b c) := by
  obtain ⟨r, h1, h2, h3, h4, _, h5, h6⟩ := closestPointTriangle_sliver_bound a b c hdeg hab hac hbc
  exact ⟨r, h1, h2, h3, h4, h5, h6⟩

/-- every point of a triangle is within the altitude over the longest edge of one of the edges -/
theorem sliver_near_edges (a b c x : V) (hx : hullSet [a, b, c] x) :
    ∃ y, (hullSet [a, b] y ∨ hullSet [a, c] y ∨ hullSet [b, c] y) ∧
      V3.normSq (x - y) * maxEdgeLenSq a b c ≤
        V3.dot (V3.cross (b - a) (c - a)) (V3.cross (b - a) (c - a)) :=
  sliver_near_boundary a b c x hx

/-- non-vacuity of `triangle_sliver_bound`: the sliver `(−½,−3e-9,0), (½,−3e-9,0), (0,7e-9,0)`
(altitude 1e-8) is in the degenerate band and has regular edges -/
example : V3.dot (triNormal (⟨-0.5, -3e-9, 0⟩ : V) ⟨0.5, -3e-9, 0⟩ ⟨0, 7e-9, 0⟩)
      (triNormal (⟨-0.5, -3e-9, 0⟩ : V) ⟨0.5, -3e-9, 0⟩ ⟨0, 7e-9, 0⟩) ≤
      EPS * maxEdgeLenSq (⟨-0.5, -3e-9, 0⟩ : V) ⟨0.5, -3e-9, 0⟩ ⟨0, 7e-9, 0⟩ *
        maxEdgeLenSq (⟨-0.5, -3e-9, 0⟩ : V) ⟨0.5, -3e-9, 0⟩ ⟨0, 7e-9, 0⟩ ∧
    EdgeOK (⟨-0.5, -3e-9, 0⟩ : V) ⟨0.5, -3e-9, 0⟩ ∧ EdgeOK (⟨-0.5, -3e-9, 0⟩ : V) ⟨0, 7e-9, 0⟩ ∧
    EdgeOK (⟨0.5, -3e-9, 0⟩ : V) ⟨0, 7e-9, 0⟩ := by
  refine ⟨?_, Or.inl ?_, Or.inl ?_, Or.inl ?_⟩
  · have h1 : (1 : ℝ) ≤ maxEdgeLenSq (⟨-0.5, -3e-9, 0⟩ : V) ⟨0.5, -3e-9, 0⟩ ⟨0, 7e-9, 0⟩ := by
      refine le_trans ?_ (le_maxEdgeLenSq _ _ _).1
      norm_num [V3.dot_def]
    rw [triNormal_eq]
    have hn : V3.dot (V3.cross ((⟨0.5, -3e-9, 0⟩ : V) - ⟨-0.5, -3e-9, 0⟩) ((⟨0, 7e-9, 0⟩ : V) - ⟨-0.5, -3e-9, 0⟩))
        (V3.cross ((⟨0.5, -3e-9, 0⟩ : V) - ⟨-0.5, -3e-9, 0⟩) ((⟨0, 7e-9, 0⟩ : V) - ⟨-0.5, -3e-9, 0⟩)) = 1e-16 := by
      norm_num [V3.dot_def, cross_x, cross_y, cross_z]
    rw [hn]
    have hE : (2e-16 : ℝ) ≤ EPS := by norm_num [EPS, D3.Gen.utils__EPSILON]
    generalize maxEdgeLenSq (⟨-0.5, -3e-9, 0⟩ : V) ⟨0.5, -3e-9, 0⟩ ⟨0, 7e-9, 0⟩ = m at h1 ⊢
    have hm2 : 1 ≤ m * m := by nlinarith
    have h3 : (2e-16 : ℝ) * 1 ≤ EPS * (m * m) := mul_le_mul hE hm2 (by norm_num) (by linarith)
    have h4 : EPS * m * m = EPS * (m * m) := by ring
    rw [h4]
    norm_num at h3 ⊢
    linarith
  all_goals norm_num [V3.dot_def, EPS2, D3.Gen.gjk__gjk_jolt__EPSILON_SQR]

/-- **triangle_spec, collinear fallback.** For three exactly collinear points (`ab × ac = 0`)
whose edges are each either of zero length or not below the length threshold (`EdgeOK`), the
"best of the three edges" fallback returns the minimum-norm point of their hull, with correct
set bits.  (The band `0 < |n|² < EPSILON_SQR` and edges with `0 < |e|² < EPSILON_SQR` are
excluded by these hypotheses.) -/
theorem triangle_collinear_spec (a b c : V)
    (hcol : V3.cross (b - a) (c - a) = ⟨0, 0, 0⟩)
    (hab : EdgeOK a b) (hac : EdgeOK a c) (hbc : EdgeOK b c) :
    ∃ r, closestPointTriangle a b c = .ok r ∧ IsMinNorm (hullSet [a, b, c]) r.pt ∧
      hullSet (selectBits r.set [a, b, c]) r.pt ∧ 1 ≤ r.set ∧ r.set ≤ 7 :=
  closestPointTriangle_faceOK a b c (Or.inr ⟨hcol, hab, hac, hbc⟩)

/-- non-vacuity: `(1,1,0), (2,2,0), (3,3,0)` are collinear with regular edges -/
example : V3.cross ((⟨2, 2, 0⟩ : V) - ⟨1, 1, 0⟩) ((⟨3, 3, 0⟩ : V) - ⟨1, 1, 0⟩) = ⟨0, 0, 0⟩ ∧
    EdgeOK (⟨1, 1, 0⟩ : V) ⟨2, 2, 0⟩ ∧ EdgeOK (⟨1, 1, 0⟩ : V) ⟨3, 3, 0⟩ ∧
    EdgeOK (⟨2, 2, 0⟩ : V) ⟨3, 3, 0⟩ := by
  refine ⟨?_, Or.inl ?_, Or.inl ?_, Or.inl ?_⟩
  · apply V3.ext' <;> norm_num [cross_x, cross_y, cross_z]
  all_goals norm_num [V3.dot_def, EPS2, D3.Gen.gjk__gjk_jolt__EPSILON_SQR]

/-- the hull of three collinear points is the union of the three segments -/
theorem collinear_cover (a b c : V) (hcol : V3.cross (b - a) (c - a) = ⟨0, 0, 0⟩) (x : V)
    (hx : hullSet [a, b, c] x) : hullSet [a, b] x ∨ hullSet [a, c] x ∨ hullSet [b, c] x :=
  collinear_hull_cover a b c hcol x hx

/-! ## Jolt solver: tetrahedron -/

/-- **tetra_spec, positive orientation** (`D = det[b−a, c−a, d−a] > 0`, in exact arithmetic all
four `signd` values equal `D`).  Excluded by name: `hband` — no plane value `signp` in the band
`[−EPSILON, 0)`; `hfaces` — no face passes the code's (repaired) degeneracy test `|n|² ≤ EPSILON·L⁴`;
`hbound` — `|a|², |b|² < MAX_FLOAT` (the initial `best_dist_sq`).  Then the result is `.ok`,
it is the minimum-norm point of the tetrahedron (the origin itself, with set `0b1111`, when no
face is flagged; otherwise the best of the flagged faces), and the remapped set bits name a
sub-simplex of `(a, b, c, d)` whose hull contains it. -/
theorem tetra_spec_pos (a b c d : V)
    (hD : 0 < V3.dot (d - a) (V3.cross (b - a) (c - a)))
    (hband : (-EPS ≤ V3.dot a (V3.cross (b - a) (c - a)) → 0 ≤ V3.dot a (V3.cross (b - a) (c - a))) ∧
      (-EPS ≤ V3.dot a (V3.cross (c - a) (d - a)) → 0 ≤ V3.dot a (V3.cross (c - a) (d - a))) ∧
      (-EPS ≤ V3.dot a (V3.cross (d - a) (b - a)) → 0 ≤ V3.dot a (V3.cross (d - a) (b - a))) ∧
      (-EPS ≤ V3.dot b (V3.cross (d - b) (c - b)) → 0 ≤ V3.dot b (V3.cross (d - b) (c - b))))
    (hfaces : TriRegular a b c ∧
      TriRegular a c d ∧
      TriRegular a d b ∧
      TriRegular b d c)
    (hbound : V3.dot a a < MAXF ∧ V3.dot b b < MAXF) :
    ∃ r, closestPointTetrahedron a b c d = .ok r ∧ IsMinNorm (hullSet [a, b, c, d]) r.pt ∧
      hullSet (selectBits r.set [a, b, c, d]) r.pt :=
  closestPointTetrahedron_spec_pos a b c d hD hband hfaces hbound

/-- **tetra_spec, negative orientation** (`D < 0`; excluded band `(0, EPSILON]`). -/
theorem tetra_spec_neg (a b c d : V)
    (hD : V3.dot (d - a) (V3.cross (b - a) (c - a)) < 0)
    (hband : (V3.dot a (V3.cross (b - a) (c - a)) ≤ EPS → V3.dot a (V3.cross (b - a) (c - a)) ≤ 0) ∧
      (V3.dot a (V3.cross (c - a) (d - a)) ≤ EPS → V3.dot a (V3.cross (c - a) (d - a)) ≤ 0) ∧
      (V3.dot a (V3.cross (d - a) (b - a)) ≤ EPS → V3.dot a (V3.cross (d - a) (b - a)) ≤ 0) ∧
      (V3.dot b (V3.cross (d - b) (c - b)) ≤ EPS → V3.dot b (V3.cross (d - b) (c - b)) ≤ 0))
    (hfaces : TriRegular a b c ∧
      TriRegular a c d ∧
      TriRegular a d b ∧
      TriRegular b d c)
    (hbound : V3.dot a a < MAXF ∧ V3.dot b b < MAXF) :
    ∃ r, closestPointTetrahedron a b c d = .ok r ∧ IsMinNorm (hullSet [a, b, c, d]) r.pt ∧
      hullSet (selectBits r.set [a, b, c, d]) r.pt :=
  closestPointTetrahedron_spec_neg a b c d hD hband hfaces hbound

/-- non-vacuity of `tetra_spec_pos`: the tetrahedron `(0,0,1), (1,0,1), (0,1,1), (0,0,2)`
satisfies every hypothesis (origin below face ABC) -/
example : ∃ r, closestPointTetrahedron (⟨0, 0, 1⟩ : V) ⟨1, 0, 1⟩ ⟨0, 1, 1⟩ ⟨0, 0, 2⟩ = .ok r ∧
    IsMinNorm (hullSet [(⟨0, 0, 1⟩ : V), ⟨1, 0, 1⟩, ⟨0, 1, 1⟩, ⟨0, 0, 2⟩]) r.pt := by
  obtain ⟨r, h1, h2, _⟩ := tetra_spec_pos (⟨0, 0, 1⟩ : V) ⟨1, 0, 1⟩ ⟨0, 1, 1⟩ ⟨0, 0, 2⟩
    (by norm_num [V3.dot_def, cross_x, cross_y, cross_z])
    (by norm_num [V3.dot_def, cross_x, cross_y, cross_z, EPS, D3.Gen.utils__EPSILON])
    ⟨tri_regular 3, tri_regular 3, tri_regular 3, tri_regular 3⟩
    (by norm_num [V3.dot_def, MAXF, D3.Gen.utils__MAX_FLOAT])
  exact ⟨r, h1, h2⟩

/-- **orientation test in exact arithmetic.** The four `signd` values of
`origin_outside_of_tetrahedron_planes` are all equal to `D = det[b−a, c−a, d−a]`, so the
"mixed signs" branch is taken exactly for flat tetrahedra (`D = 0`), where all four faces are
tested (no minimality theorem for that branch: partial). -/
theorem tetra_flat_flags (a b c d : V) (hD : V3.dot (d - a) (V3.cross (b - a) (c - a)) = 0) :
    originOutsideOfTetrahedronPlanes a b c d = ((true, true, true, true), 2) :=
  planes_flat a b c d hD

/-- **tetra_spec, flat case** (`D = 0`: "mixed signs", all four faces are tested).  If every face
is treated exactly by the triangle routine (`FaceOK`: passes the non-degeneracy test, or is
exactly collinear with `EdgeOK` edges) and `|a|², |b|² < MAX_FLOAT`, the minimum over all four
faces is the minimum-norm point of the flat hull, with correctly remapped set bits. -/
theorem tetra_spec_flat (a b c d : V)
    (hD : V3.dot (d - a) (V3.cross (b - a) (c - a)) = 0)
    (hf0 : FaceOK a b c) (hf1 : FaceOK a c d) (hf2 : FaceOK a d b) (hf3 : FaceOK b d c)
    (hbound : V3.dot a a < MAXF ∧ V3.dot b b < MAXF) :
    ∃ r, closestPointTetrahedron a b c d = .ok r ∧ IsMinNorm (hullSet [a, b, c, d]) r.pt ∧
      hullSet (selectBits r.set [a, b, c, d]) r.pt :=
  closestPointTetrahedron_spec_flat a b c d hD hf0 hf1 hf2 hf3 hbound.1 hbound.2

/-- the hull of four affinely dependent points is the union of the four faces -/
theorem flat_cover (a b c d : V) (hD : V3.dot (d - a) (V3.cross (b - a) (c - a)) = 0) (y : V)
    (hy : hullSet [a, b, c, d] y) :
    hullSet [a, b, c] y ∨ hullSet [a, c, d] y ∨ hullSet [a, d, b] y ∨ hullSet [b, d, c] y :=
  flat_hull_cover a b c d hD y hy

/-- non-vacuity of `tetra_spec_flat`: the unit square in the plane `z = 1` -/
example : ∃ r, closestPointTetrahedron (⟨0, 0, 1⟩ : V) ⟨1, 0, 1⟩ ⟨1, 1, 1⟩ ⟨0, 1, 1⟩ = .ok r ∧
    IsMinNorm (hullSet [(⟨0, 0, 1⟩ : V), ⟨1, 0, 1⟩, ⟨1, 1, 1⟩, ⟨0, 1, 1⟩]) r.pt := by
  obtain ⟨r, h1, h2, _⟩ := tetra_spec_flat (⟨0, 0, 1⟩ : V) ⟨1, 0, 1⟩ ⟨1, 1, 1⟩ ⟨0, 1, 1⟩
    (by norm_num [V3.dot_def, cross_x, cross_y, cross_z])
    (Or.inl (tri_regular 2)) (Or.inl (tri_regular 2)) (Or.inl (tri_regular 2)) (Or.inl (tri_regular 2))
    (by norm_num [V3.dot_def, MAXF, D3.Gen.utils__MAX_FLOAT])
  exact ⟨r, h1, h2⟩

/-- **bit remapping.** For every feature set `s ∈ 1…7` of a face, the remapped set selects
from `(a, b, c, d)` exactly the vertices `s` selects from the face (as a set: up to order). -/
theorem remap_correct {β : Type} (a b c d : β) (s : Nat) (h1 : 1 ≤ s) (h7 : s ≤ 7) :
    selectBits s [a, b, c, d] = selectBits s [a, b, c] ∧
    selectBits (remapACD s) [a, b, c, d] = selectBits s [a, c, d] ∧
    (selectBits (remapADB s) [a, b, c, d]).Perm (selectBits s [a, d, b]) ∧
    (selectBits (remapBDC s) [a, b, c, d]).Perm (selectBits s [b, d, c]) :=
  ⟨selectBits_abc a b c d s h7, remapACD_ok a b c d s h1 h7, remapADB_ok a b c d s h1 h7,
    remapBDC_ok a b c d s h1 h7⟩

/-! ## Jolt solver: `get_closest_point_to_origin`, `update_simplex_y` -/

/-- **closest_decreases.** Whatever the input, if `get_closest_point_to_origin` returns, its
success flag is exactly `v_len_sq < prev_v_len_sqr`, `v_len_sq = |v|²`, and the point and
set are those of the sub-solver for `n_points`. -/
theorem closest_decreases (Y : Array V) (n : Nat) (prev : ℝ) (g : Gcp ℝ)
    (h : getClosestPointToOrigin Y n prev = .ok g) :
    (g.success = true ↔ g.vLenSq < prev) ∧ g.vLenSq = V3.dot g.v g.v := by
  unfold getClosestPointToOrigin at h
  cases hx : solveSimplex Y n with
  | error e => rw [hx] at h; cases h
  | ok r =>
    rw [hx] at h
    cases h
    simp

/-- dispatch on `n_points` -/
theorem gcp_dispatch (y0 y1 y2 y3 : V) (prev : ℝ) :
    getClosestPointToOrigin #[y0, y1, y2, y3] 1 prev =
      .ok ⟨decide (V3.dot y0 y0 < prev), y0, V3.dot y0 y0, 1, 1000⟩ ∧
    getClosestPointToOrigin #[y0, y1, y2, y3] 2 prev =
      (closestPointLine y0 y1).map (fun r => ⟨decide (V3.dot r.pt r.pt < prev), r.pt,
        V3.dot r.pt r.pt, r.set, 2000 + r.br⟩) ∧
    getClosestPointToOrigin #[y0, y1, y2, y3] 3 prev =
      (closestPointTriangle y0 y1 y2).map (fun r => ⟨decide (V3.dot r.pt r.pt < prev), r.pt,
        V3.dot r.pt r.pt, r.set, 3000 + r.br⟩) ∧
    getClosestPointToOrigin #[y0, y1, y2, y3] 4 prev =
      (closestPointTetrahedron y0 y1 y2 y3).map (fun r => ⟨decide (V3.dot r.pt r.pt < prev), r.pt,
        V3.dot r.pt r.pt, r.set, 4000 + r.br⟩) := by
  refine ⟨rfl, ?_, ?_, ?_⟩
  · show (closestPointLine y0 y1).bind _ = _
    cases closestPointLine y0 y1 <;> rfl
  · show (closestPointTriangle y0 y1 y2).bind _ = _
    cases closestPointTriangle y0 y1 y2 <;> rfl
  · show (closestPointTetrahedron y0 y1 y2 y3).bind _ = _
    cases closestPointTetrahedron y0 y1 y2 y3 <;> rfl

/-- a single point is its own hull's minimiser -/
theorem point_spec (a : V) : IsMinNorm (hullSet [a]) a ∧ hullSet (selectBits 1 [a]) a := by
  refine ⟨isMinNorm_hull_of_vertices (hull1_intro a) ?_, hull1_intro a⟩
  intro p hp
  simp only [List.mem_cons, List.not_mem_nil, or_false] at hp
  rw [hp]

/-- **update_simplex_y keeps exactly the points named by the set bits**, in order
(`n_points = 4`; the same holds for 1, 2, 3 points). -/
theorem update_simplex_selects {β : Type} (y0 y1 y2 y3 : β) (s : Nat) (hs : s < 16) :
    ∃ Y' k, updateSimplexY #[y0, y1, y2, y3] 4 s = .ok (Y', k) ∧
      Y'.toList.take k = selectBits s [y0, y1, y2, y3] := by
  interval_cases s <;> exact ⟨_, _, rfl, rfl⟩

theorem update_simplex_selects3 {β : Type} (y0 y1 y2 y3 : β) (s : Nat) (hs : s < 8) :
    ∃ Y' k, updateSimplexY #[y0, y1, y2, y3] 3 s = .ok (Y', k) ∧
      Y'.toList.take k = selectBits s [y0, y1, y2] := by
  interval_cases s <;> exact ⟨_, _, rfl, rfl⟩

theorem update_simplex_selects2 {β : Type} (y0 y1 y2 y3 : β) (s : Nat) (hs : s < 4) :
    ∃ Y' k, updateSimplexY #[y0, y1, y2, y3] 2 s = .ok (Y', k) ∧
      Y'.toList.take k = selectBits s [y0, y1] := by
  interval_cases s <;> exact ⟨_, _, rfl, rfl⟩

/-! ## original GJK: backup procedure -/

open SimplexOrig in
/-- **backup_feasible (4 points).** For every dot-product table whose diagonal holds the squared
norms, `backup_procedure` on a tetrahedron never divides by zero and returns weights that are
non-negative, sum to 1 and reproduce `search_direction` from the reordered subset
(`ps = points[ordered_indices]`) in order; `distance_squared = |search_direction|²`, and it is
not larger than the squared norm of any vertex. (Same for 3 and 2 points below.) -/
theorem backup_feasible_4 (p0 p1 p2 p3 : V) (t00 t10 t11 t20 t21 t22 t30 t31 t32 t33 : ℝ)
    (h0 : t00 = V3.dot p0 p0) (h1 : t11 = V3.dot p1 p1) (h2 : t22 = V3.dot p2 p2)
    (h3 : t33 = V3.dot p3 p3) :
    ∃ r, backupProcedure #[p0, p1, p2, p3] #[t00, t10, t11, t20, t21, t22, t30, t31, t32, t33]
        = .ok r ∧
      r.w.length = r.ps.length ∧ (∀ x ∈ r.w, 0 ≤ x) ∧ r.w.sum = 1 ∧ lincomb r.w r.ps = r.pt ∧
      r.ps.map some = r.idx.map (fun i => [p0, p1, p2, p3][i]?) ∧
      r.distSq = V3.dot r.pt r.pt ∧
      r.distSq ≤ t00 ∧ r.distSq ≤ t11 ∧ r.distSq ≤ t22 ∧ r.distSq ≤ t33 := by
  obtain ⟨s, hs, hf, a0, a1, a2, a3⟩ :=
    backupTetra_feasible p0 p1 p2 p3 t00 t10 t11 t20 t21 t22 t30 t31 t32 t33 h0 h1 h2 h3
  refine ⟨⟨s.idx, s.ps, s.w, s.pt, s.distSq, 16384 * 4 + s.mask⟩, ?_, hf.len, hf.nonneg, hf.sum,
    hf.comb, hf.coh, hf.dist, a0, a1, a2, a3⟩
  rw [backupProcedure_eq4, hs]; rfl

open SimplexOrig in
theorem backup_feasible_3 (p0 p1 p2 : V) (t00 t10 t11 t20 t21 t22 : ℝ)
    (h0 : t00 = V3.dot p0 p0) (h1 : t11 = V3.dot p1 p1) (h2 : t22 = V3.dot p2 p2) :
    ∃ r, backupProcedure #[p0, p1, p2] #[t00, t10, t11, t20, t21, t22] = .ok r ∧
      r.w.length = r.ps.length ∧ (∀ x ∈ r.w, 0 ≤ x) ∧ r.w.sum = 1 ∧ lincomb r.w r.ps = r.pt ∧
      r.ps.map some = r.idx.map (fun i => [p0, p1, p2][i]?) ∧
      r.distSq = V3.dot r.pt r.pt ∧ r.distSq ≤ t00 ∧ r.distSq ≤ t11 ∧ r.distSq ≤ t22 := by
  obtain ⟨s, hs, hf, a0, a1, a2⟩ := backupFace_feasible p0 p1 p2 t00 t10 t11 t20 t21 t22 h0 h1 h2
  refine ⟨⟨s.idx, s.ps, s.w, s.pt, s.distSq, 16384 * 3 + s.mask⟩, ?_, hf.len, hf.nonneg, hf.sum,
    hf.comb, hf.coh, hf.dist, a0, a1, a2⟩
  rw [backupProcedure_eq3, hs]; rfl

open SimplexOrig in
theorem backup_feasible_2 (p0 p1 : V) (t00 t10 t11 : ℝ)
    (h0 : t00 = V3.dot p0 p0) (h1 : t11 = V3.dot p1 p1) :
    ∃ r, backupProcedure #[p0, p1] #[t00, t10, t11] = .ok r ∧
      r.w.length = r.ps.length ∧ (∀ x ∈ r.w, 0 ≤ x) ∧ r.w.sum = 1 ∧ lincomb r.w r.ps = r.pt ∧
      r.ps.map some = r.idx.map (fun i => [p0, p1][i]?) ∧
      r.distSq = V3.dot r.pt r.pt ∧ r.distSq ≤ t00 ∧ r.distSq ≤ t11 := by
  obtain ⟨s, hs, hf, a0, a1⟩ := backupLine_feasible p0 p1 t00 t10 t11 h0 h1
  refine ⟨⟨s.idx, s.ps, s.w, s.pt, s.distSq, 16384 * 2 + s.mask⟩, ?_, hf.len, hf.nonneg, hf.sum,
    hf.comb, hf.coh, hf.dist, a0, a1⟩
  rw [backupProcedure_eq2, hs]; rfl

open SimplexOrig in
theorem backup_feasible_1 (p0 : V) (t00 : ℝ) :
    backupProcedure #[p0] #[t00] = .ok ⟨[0], [p0], [1], p0, t00, 16384⟩ := rfl

/-- the feasible result is a point of the hull of the returned subset, hence of the input -/
theorem backup_in_hull (ps : List V) (w : List ℝ) (pt : V) (hl : w.length = ps.length)
    (hn : ∀ x ∈ w, 0 ≤ x) (hs : w.sum = 1) (hc : lincomb w ps = pt) : hullSet ps pt :=
  ⟨w, hl, hn, hs, hc⟩

/-! ## as-is counterexamples (absolute thresholds; known findings) -/

/-- `ok`, the given set, and a point different from the origin -/
def nonzeroWithSet (r : Except Err (CP Rat)) (s : Nat) : Bool :=
  match r with
  | .ok c => c.set == s && decide (c.pt ≠ ⟨0, 0, 0⟩)
  | .error _ => false

/-- **F-C18-jolt-abs-eps (tetrahedron).** The regular tetrahedron
`1e-6·[(1,1,1),(1,−1,−1),(−1,1,−1),(−1,−1,1)]` has the origin as its centroid, yet the
faithful model (evaluated in exact rational arithmetic) returns a non-zero point with feature
set `0b0111` (face ABC): every plane value lies in the band `[−EPSILON, 0)`. -/
theorem jolt_tetra_band_asIs_counterexample :
    nonzeroWithSet (closestPointTetrahedron (α := Rat) ⟨1e-6, 1e-6, 1e-6⟩ ⟨1e-6, -1e-6, -1e-6⟩
      ⟨-1e-6, 1e-6, -1e-6⟩ ⟨-1e-6, -1e-6, 1e-6⟩) 7 = true ∧
    (0.25 : Rat) * 1e-6 + 0.25 * 1e-6 + 0.25 * (-1e-6) + 0.25 * (-1e-6) = 0 := by
  constructor <;> decide +kernel

/-- **as-is behaviour in the plane-sign band, at `ℝ`.** If at least one face is flagged and the
origin lies on no face plane, the returned point is not the origin — so whenever the origin is
strictly inside the tetrahedron but a plane value falls into the band `[−EPSILON, 0)`
(resp. `(0, EPSILON]`), the result is not the minimum-norm point. -/
theorem tetra_band_asIs (a b c d : V) (o0 o1 o2 o3 : Bool) (orient : Nat)
    (hpl : originOutsideOfTetrahedronPlanes a b c d = ((o0, o1, o2, o3), orient))
    (hflag : o0 = true ∨ o1 = true ∨ o2 = true ∨ o3 = true)
    (hnz : V3.dot a (V3.cross (b - a) (c - a)) ≠ 0 ∧ V3.dot a (V3.cross (c - a) (d - a)) ≠ 0 ∧
      V3.dot a (V3.cross (d - a) (b - a)) ≠ 0 ∧ V3.dot b (V3.cross (d - b) (c - b)) ≠ 0)
    (hf0 : FaceOK a b c) (hf1 : FaceOK a c d) (hf2 : FaceOK a d b) (hf3 : FaceOK b d c)
    (hbound : V3.dot a a < MAXF ∧ V3.dot b b < MAXF)
    (hin : hullSet [a, b, c, d] (⟨0, 0, 0⟩ : V)) :
    ∃ r, closestPointTetrahedron a b c d = .ok r ∧ ¬ IsMinNorm (hullSet [a, b, c, d]) r.pt := by
  obtain ⟨r, h1, h2⟩ := tetra_flagged_nonzero a b c d o0 o1 o2 o3 orient hpl hflag hnz hf0 hf1 hf2 hf3
    hbound.1 hbound.2
  refine ⟨r, h1, fun hmin => h2 ?_⟩
  have := hmin.2 _ hin
  have h0 : V3.normSq (⟨0, 0, 0⟩ : V) = 0 := by simp [V3.normSq_def]
  rw [h0] at this
  exact V3.normSq_eq_zero (le_antisymm this (V3.normSq_nonneg _))

/-- **F-C18-jolt-abs-eps at `ℝ`.** The regular tetrahedron of half-width `1e-6` contains the
origin (its centroid), yet the model at exact reals returns a point that is not the
minimum-norm point of the tetrahedron. -/
theorem jolt_tetra_band_asIs_counterexample_real :
    hullSet [(⟨1e-6, 1e-6, 1e-6⟩ : V), ⟨1e-6, -1e-6, -1e-6⟩, ⟨-1e-6, 1e-6, -1e-6⟩, ⟨-1e-6, -1e-6, 1e-6⟩]
      (⟨0, 0, 0⟩ : V) ∧
    ∃ r, closestPointTetrahedron (⟨1e-6, 1e-6, 1e-6⟩ : V) ⟨1e-6, -1e-6, -1e-6⟩ ⟨-1e-6, 1e-6, -1e-6⟩
        ⟨-1e-6, -1e-6, 1e-6⟩ = .ok r ∧
      ¬ IsMinNorm (hullSet [(⟨1e-6, 1e-6, 1e-6⟩ : V), ⟨1e-6, -1e-6, -1e-6⟩, ⟨-1e-6, 1e-6, -1e-6⟩,
        ⟨-1e-6, -1e-6, 1e-6⟩]) r.pt := by
  have hin : hullSet [(⟨1e-6, 1e-6, 1e-6⟩ : V), ⟨1e-6, -1e-6, -1e-6⟩, ⟨-1e-6, 1e-6, -1e-6⟩,
      ⟨-1e-6, -1e-6, 1e-6⟩] (⟨0, 0, 0⟩ : V) := by
    have h := hull4_intro (⟨1e-6, 1e-6, 1e-6⟩ : V) ⟨1e-6, -1e-6, -1e-6⟩ ⟨-1e-6, 1e-6, -1e-6⟩
      ⟨-1e-6, -1e-6, 1e-6⟩ (u := 1 / 4) (v := 1 / 4) (w := 1 / 4) (x := 1 / 4)
      (by norm_num) (by norm_num) (by norm_num) (by norm_num) (by norm_num)
    have e : (1 / 4 : ℝ) * (⟨1e-6, 1e-6, 1e-6⟩ : V) + (1 / 4 : ℝ) * (⟨1e-6, -1e-6, -1e-6⟩ : V) +
        (1 / 4 : ℝ) * (⟨-1e-6, 1e-6, -1e-6⟩ : V) + (1 / 4 : ℝ) * (⟨-1e-6, -1e-6, 1e-6⟩ : V) =
        (⟨0, 0, 0⟩ : V) := by
      apply V3.ext' <;> norm_num
    rw [e] at h; exact h
  refine ⟨hin, ?_⟩
  refine tetra_band_asIs _ _ _ _ _ _ _ _ 1
    (planes_neg _ _ _ _ (by norm_num [V3.dot_def, cross_x, cross_y, cross_z]))
    (Or.inl (decide_eq_true (by
      norm_num [V3.dot_def, cross_x, cross_y, cross_z, EPS, D3.Gen.utils__EPSILON])))
    (by norm_num [V3.dot_def, cross_x, cross_y, cross_z])
    (Or.inl (tri_regular 1e-11)) (Or.inl (tri_regular 1e-11)) (Or.inl (tri_regular 1e-11))
    (Or.inl (tri_regular 1e-11))
    (by norm_num [V3.dot_def, MAXF, D3.Gen.utils__MAX_FLOAT]) hin

/-- the point returned for a triangle, as an option -/
def triPoint (r : Except Err (CP Rat)) : Option (V3 Rat × Nat) :=
  match r with
  | .ok c => some (c.pt, c.set)
  | .error _ => none

/-- **former F-C18-jolt-abs-eps (triangle), before repair ea3a5ff.** For
`1e-9·[(1,0,1),(−1,1,1),(−1,−1,1)]` the projection of the origin, `(0,0,1e-9)`, lies inside the
triangle (squared distance `1e-18`), but the OLD absolute test `0 < |n|² < EPSILON_SQR` sent the
code to the edge fallback, which returned `(2e-10, 4e-10, 1e-9)` on edge AB (squared distance
`1.2e-18`). -/
theorem jolt_triangle_band_asIs_counterexample :
    triPoint (closestPointTriangle_asIs_before_fix (α := Rat) ⟨1e-9, 0, 1e-9⟩ ⟨-1e-9, 1e-9, 1e-9⟩
      ⟨-1e-9, -1e-9, 1e-9⟩) = some (⟨2e-10, 4e-10, 1e-9⟩, 3) ∧
    (0.5 : Rat) * 1e-9 + 0.25 * (-1e-9) + 0.25 * (-1e-9) = 0 ∧
    (0.5 : Rat) * 0 + 0.25 * 1e-9 + 0.25 * (-1e-9) = 0 ∧
    (1e-9 : Rat) * 1e-9 < 2e-10 * 2e-10 + 4e-10 * 4e-10 + 1e-9 * 1e-9 := by
  refine ⟨?_, ?_, ?_, ?_⟩ <;> decide +kernel

/-- **… and after the repair** the relative test is scale free: the same tiny triangle is
regular and the interior point `(0,0,1e-9)` with set `0b0111` is returned. -/
theorem jolt_triangle_band_fixed :
    triPoint (closestPointTriangle (α := Rat) ⟨1e-9, 0, 1e-9⟩ ⟨-1e-9, 1e-9, 1e-9⟩
      ⟨-1e-9, -1e-9, 1e-9⟩) = some (⟨0, 0, 1e-9⟩, 7) := by
  decide +kernel

/-- branch id of a result (`7, 8, 9` = degenerate fallback, `0…6` = region cascade) -/
def triBranch (r : Except Err (CP Rat)) : Option Nat :=
  match r with
  | .ok c => some c.br
  | .error _ => none

/-- **rounding duplicate.** `a = (−4.4,0,−5.8)`, `b = (2,0,−1)`, `c = b + (2⁻⁵¹,0,0)` (third point
= second point up to one ulp): `|n|² ≈ 4.5e-30` is above the old absolute threshold
`EPSILON_SQR = 4.9e-32`, so the routine before the repair ran the region cascade (branch 2)
on rounding noise, while the repaired test (`|n|² ≤ EPSILON·L⁴ ≈ 9e-13`) classifies the
triangle as degenerate (fallback, branch 7). -/
theorem rounding_duplicate_classification :
    triBranch (closestPointTriangle_asIs_before_fix (α := Rat) ⟨-4.4, 0, -5.8⟩ ⟨2, 0, -1⟩
      ⟨2 + 4.440892098500626e-16, 0, -1⟩) = some 2 ∧
    triBranch (closestPointTriangle (α := Rat) ⟨-4.4, 0, -5.8⟩ ⟨2, 0, -1⟩
      ⟨2 + 4.440892098500626e-16, 0, -1⟩) = some 7 := by
  constructor <;> decide +kernel

/-- the coordinator's witness `c = b + (4e-16, 0, 3e-16)`: the offset is exactly parallel to
`b − a = (6.4, 0, 4.8)`, so the three points are exactly collinear in exact arithmetic
(`n = 0`) and both the old and the repaired test send it to the fallback (in floats
`|n|² ≈ 1.6e-61`); the two tests differ on offsets that are not parallel, see above. -/
theorem rounding_duplicate_collinear :
    triBranch (closestPointTriangle_asIs_before_fix (α := Rat) ⟨-4.4, 0, -5.8⟩ ⟨2, 0, -1⟩
      ⟨2 + 4e-16, 0, -1 + 3e-16⟩) = some 7 ∧
    triBranch (closestPointTriangle (α := Rat) ⟨-4.4, 0, -5.8⟩ ⟨2, 0, -1⟩
      ⟨2 + 4e-16, 0, -1 + 3e-16⟩) = some 7 := by
  constructor <;> decide +kernel

/-- squared distance and number of points returned by the backup procedure -/
def origSummary (r : Except Err (SimplexOrig.Result Rat)) : Option (Rat × Nat) :=
  match r with
  | .ok c => some (c.distSq, c.idx.length)
  | .error _ => none

/-- **F-C18-orig-abs-eps.** The regular tetrahedron
`1e-3·[(1,1,1),(1,−1,−1),(−1,1,−1),(−1,−1,1)]` contains the origin, but the backup procedure
returns a face (3 points) at squared distance `1/3·1e-6`: all four cofactors `d[i,14] = 6.4e-17`
are positive yet not `> EPSILON = 2.2e-15`. -/
theorem orig_tetra_band_asIs_counterexample :
    origSummary (SimplexOrig.backupProcedure (α := Rat)
      #[⟨1e-3, 1e-3, 1e-3⟩, ⟨1e-3, -1e-3, -1e-3⟩, ⟨-1e-3, 1e-3, -1e-3⟩, ⟨-1e-3, -1e-3, 1e-3⟩]
      #[3e-6, -1e-6, 3e-6, -1e-6, -1e-6, 3e-6, -1e-6, -1e-6, -1e-6, 3e-6])
      = some (1e-6 / 3, 3) := by
  decide +kernel

end C18
end D3
