/-
C16 ∘ C05 — `RigidBody.aabb_tree` yields a tree accepted by the C05 well-formedness check
whose leaf `k` carries `aabbs[k]`, by proof.

`C16.broad_phase_same_pairs` is stated for every pair of array states accepted by `wfCheck`
and `leavesMatch` (checks the harness runs in Lean on the arrays dumped from the
implementation).  `D3.Properties.C05Insert.history_wf` proves that every `insert_aabbs` history
ends in such a state; `RigidBody.aabb_tree` is the one-call history
`AabbTree().insert_aabbs(aabbs, pre_insertion_methode="sort")`.  This file composes the two:

* `tetAabb_valid`               — every row of `tetrahedral_mesh_aabbs` has `lo ≤ hi`;
* `buildTree_wf`                — `buildTree boxes` (non-empty, valid boxes) does not raise and
                                  its arrays pass `wfCheck` and `leavesMatch`;
* `treeOf_wf`                   — the same for the tree of a tetrahedral mesh
                                  (`Body.treePure`), no validity hypothesis left;
* `broad_phase_same_pairs_built` — for two meshes with at least one tetrahedron each, the tree
                                  broad phase on the trees `RigidBody.aabb_tree` builds returns a
                                  permutation of the brute-force pair list — no run-time check
                                  as hypothesis;
* `contacts_tree_eq_brute`      — `find_contact_surface(..., use_aabb_trees=True)` and
                                  `(..., False)` on raw mesh data (`contactsCore`): both succeed,
                                  the contact lists are permutations of each other, the
                                  intersection flags agree and the accumulated wrenches are equal.
-/
import D3.Properties.C16
import D3.Properties.C05Insert

namespace D3
namespace C16Link
open Aabb HydroForce

/-- **every tetrahedron AABB is valid** (`min` of the four coordinates ≤ `max` of them). -/
theorem tetAabb_valid (t : Tet ℝ) : (tetAabb t).Valid := by
  simp only [Box.Valid, tetAabb, min4, max4]
  refine ⟨?_, ?_, ?_⟩ <;>
    exact le_trans (min_le_left _ _) (le_trans (min_le_left _ _)
      (le_trans (min_le_left _ _) (le_trans (le_max_left _ _)
        (le_trans (le_max_left _ _) (le_max_left _ _)))))

example : (tetAabb (⟨⟨0, 0, 0⟩, ⟨2, 0, 0⟩, ⟨0, 2, 0⟩, ⟨0, 0, -2⟩⟩ : Tet ℝ)).Valid := tetAabb_valid _

theorem mem_batchLeaves (boxes : List (Box ℝ)) (i : Int) (b : Box ℝ) :
    (i, b) ∈ batchLeaves 0 boxes ↔ ∃ k : Nat, i = (k : Int) ∧ boxes[k]? = some b := by
  rw [← batchLeaves_eq]
  simp only [List.mem_map, List.mem_range, Prod.mk.injEq, Nat.zero_add]
  constructor
  · rintro ⟨k, hk, rfl, rfl⟩
    exact ⟨k, rfl, by simp [List.getD, hk]⟩
  · rintro ⟨k, rfl, hk⟩
    have hlt : k < boxes.length := (List.getElem?_eq_some_iff.mp hk).1
    exact ⟨k, hlt, rfl, by simp [List.getD, hk]⟩

/-- completeness of the leaf check: leaves that are exactly `(k, boxes[k])` pass `leavesMatch` -/
theorem leavesMatch_complete (t : T ℝ) (boxes : List (Box ℝ))
    (h : t.leaves.Perm (batchLeaves 0 boxes)) : leavesMatch t boxes = true := by
  unfold leavesMatch
  simp only [Bool.and_eq_true, List.all_eq_true, List.contains_iff_mem, decide_eq_true_eq,
    beq_iff_eq, Prod.forall, List.mem_zipIdx_iff_getElem?]
  constructor
  · intro b k hk
    exact h.symm.subset ((mem_batchLeaves boxes _ b).mpr ⟨k, rfl, hk⟩)
  · intro i b hm
    obtain ⟨k, rfl, hk⟩ := (mem_batchLeaves boxes i b).mp (h.subset hm)
    exact ⟨Int.natCast_nonneg k, by simpa using hk⟩

/-- **`RigidBody.aabb_tree`'s construction is well-formed.**  For a non-empty list of valid
boxes, `AabbTree().insert_aabbs(boxes, pre_insertion_methode="sort")` (model `buildTree`,
array-level insertion code) does not raise, and the resulting arrays pass C05's `wfCheck` with
an encoded tree whose leaf `k` carries `boxes[k]` and that has no other leaves
(`leavesMatch`) — the two hypotheses of `C16.broad_phase_same_pairs`. -/
theorem buildTree_wf (boxes : List (Box ℝ)) (hne : boxes ≠ []) (hv : ∀ b ∈ boxes, b.Valid) :
    ∃ c t, buildTree boxes = .ok c ∧ wfCheck c = some (some t) ∧ leavesMatch t boxes = true := by
  have hok : ∀ b ∈ [(⟨boxes, none, .sort, []⟩ : Batch)], b.Ok := by
    intro b hb
    simp only [List.mem_singleton] at hb
    subst hb
    refine ⟨hv, ?_, ?_⟩
    · intro l hl; cases hl
    · intro h; cases h
  obtain ⟨tr, ot, hrun, _, hwf, hleaves, _⟩ := C05Insert.history_wf _ hok
  have hrun' : Aabb.Tree.insertAabbs insertOrderFixed (Aabb.Tree.empty : Aabb.Tree ℝ) boxes none
      Mode.sort [] = .ok tr := by
    simp only [runHistory, List.foldlM_cons, List.foldlM_nil, bind, Except.bind] at hrun
    cases hh : Aabb.Tree.insertAabbs insertOrderFixed (Aabb.Tree.empty : Aabb.Tree ℝ) boxes none
        Mode.sort [] with
    | error e => rw [hh] at hrun; cases hrun
    | ok tr2 =>
      rw [hh] at hrun
      simp only [pure, Except.pure, Except.ok.injEq] at hrun
      rw [hrun]
  simp only [histLeaves, List.nil_append] at hleaves
  cases ot with
  | none =>
    exfalso
    have := hleaves.length_eq
    rw [← batchLeaves_eq] at this
    simp only [oleaves, List.length_nil, List.length_map, List.length_range] at this
    exact hne (List.length_eq_zero_iff.mp this.symm)
  | some t =>
    refine ⟨tr.core, t, ?_, hwf, leavesMatch_complete t boxes hleaves⟩
    simp only [buildTree, hrun', bind, Except.bind, pure, Except.pure]

/-- non-vacuity: two valid boxes given in descending `lo0` order (the sort really permutes) -/
example : ∃ c t, buildTree [(⟨5, 6, 0, 1, 0, 1⟩ : Box ℝ), ⟨-1, 0, 0, 1, 0, 1⟩] = .ok c ∧
    wfCheck c = some (some t) ∧
    leavesMatch t [(⟨5, 6, 0, 1, 0, 1⟩ : Box ℝ), ⟨-1, 0, 0, 1, 0, 1⟩] = true := by
  apply buildTree_wf _ (by simp)
  intro b hb
  simp only [List.mem_cons, List.not_mem_nil, or_false] at hb
  rcases hb with rfl | rfl <;> (simp only [Box.Valid]; norm_num)

/-- **the tree of a tetrahedral mesh** (`RigidBody.aabb_tree`, model `treeOf` = `Body.treePure`).
If the tetrahedra index existing vertices (`aabbsOf = ok a`) and there is at least one
tetrahedron, building the tree does not raise and yields arrays accepted by `wfCheck` and
`leavesMatch … a`. -/
theorem treeOf_wf (verts : List V) (tets : List (Nat × Nat × Nat × Nat)) (a : List (Box ℝ))
    (ha : aabbsOf verts tets = .ok a) (hne : a ≠ []) :
    ∃ c t, treeOf verts tets = .ok c ∧ wfCheck c = some (some t) ∧ leavesMatch t a = true := by
  have hv : ∀ b ∈ a, b.Valid := by
    unfold aabbsOf at ha
    cases hg : gatherTets verts tets with
    | error e => simp [hg, bind, Except.bind] at ha
    | ok tp =>
      simp only [hg, bind, Except.bind, pure, Except.pure, Except.ok.injEq] at ha
      subst ha
      intro b hb
      simp only [tetrahedralMeshAabbs, List.mem_map] at hb
      obtain ⟨t, _, rfl⟩ := hb
      exact tetAabb_valid t
  obtain ⟨c, t, h1, h2, h3⟩ := buildTree_wf a hne hv
  exact ⟨c, t, by simp only [treeOf, ha, bind, Except.bind, h1], h2, h3⟩

/-- **C16 broad phase, end to end on the constructed trees.**  For two meshes whose tetrahedra
index existing vertices, each with at least one tetrahedron: `RigidBody.aabb_tree` succeeds on
both, `overlaps_aabb_tree` on the two constructed trees cannot raise and returns a permutation
of the brute-force list `all_aabbs_overlap` — the same set of tetrahedron pairs, each once.
(With `C16.broad_phase_same_wrenches`: same contacts, same wrenches.) -/
theorem broad_phase_same_pairs_built (verts1 verts2 : List V)
    (tets1 tets2 : List (Nat × Nat × Nat × Nat)) (a1 a2 : List (Box ℝ))
    (h1 : aabbsOf verts1 tets1 = .ok a1) (h2 : aabbsOf verts2 tets2 = .ok a2)
    (hn1 : a1 ≠ []) (hn2 : a2 ≠ []) :
    ∃ c1 c2 ps, treeOf verts1 tets1 = .ok c1 ∧ treeOf verts2 tets2 = .ok c2 ∧
      broadTree c1 c2 = .ok ps ∧ ps.Nodup ∧ ps.Perm (broadBrute a1 a2) ∧
      ∀ i j, (i, j) ∈ ps ↔ (i, j) ∈ broadBrute a1 a2 := by
  obtain ⟨c1, t1, g1, w1, l1⟩ := treeOf_wf verts1 tets1 a1 h1 hn1
  obtain ⟨c2, t2, g2, w2, l2⟩ := treeOf_wf verts2 tets2 a2 h2 hn2
  obtain ⟨ps, hp, hnd, hperm, hmem⟩ := C16.broad_phase_same_pairs a1 a2 c1 c2 t1 t2 w1 w2 l1 l2
  exact ⟨c1, c2, ps, g1, g2, hp, hnd, hperm, hmem⟩

/-- non-vacuity: one tetrahedron against a translated copy -/
example : ∃ c1 c2 ps,
    treeOf [(⟨0, 0, 0⟩ : V), ⟨2, 0, 0⟩, ⟨0, 2, 0⟩, ⟨0, 0, 2⟩] [(0, 1, 2, 3)] = .ok c1 ∧
    treeOf [(⟨1, 0, 0⟩ : V), ⟨3, 0, 0⟩, ⟨1, 2, 0⟩, ⟨1, 0, 2⟩] [(0, 1, 2, 3)] = .ok c2 ∧
    broadTree c1 c2 = .ok ps ∧ ps.Nodup := by
  obtain ⟨c1, c2, ps, g1, g2, hp, hnd, _⟩ :=
    broad_phase_same_pairs_built [(⟨0, 0, 0⟩ : V), ⟨2, 0, 0⟩, ⟨0, 2, 0⟩, ⟨0, 0, 2⟩]
      [(⟨1, 0, 0⟩ : V), ⟨3, 0, 0⟩, ⟨1, 2, 0⟩, ⟨1, 0, 2⟩] [(0, 1, 2, 3)] [(0, 1, 2, 3)] _ _
      rfl rfl (by simp [tetrahedralMeshAabbs]) (by simp [tetrahedralMeshAabbs])
  exact ⟨c1, c2, ps, g1, g2, hp, hnd⟩

/-- **C16, `use_aabb_trees` is unobservable** (up to the order of the contact list).  Two meshes
whose tetrahedra index existing vertices and potentials (`gatherTets` / `gatherEps` succeed),
each with at least one tetrahedron; any narrow phase `pairFn`.  Then `find_contact_surface`
with the AABB trees (array-level trees built by `RigidBody.aabb_tree`) and with the brute-force
broad phase both return normally, their contact lists are permutations of each other, the
`intersection` flags agree, and `accumulate_wrenches` gives the same wrenches for every frame
and centres of mass — with no run-time tree check as hypothesis. -/
theorem contacts_tree_eq_brute (pairFn : PairFn ℝ)
    (v1 : List V) (t1 : List (Nat × Nat × Nat × Nat)) (p1 : List ℝ)
    (v2 : List V) (t2 : List (Nat × Nat × Nat × Nat)) (p2 : List ℝ)
    (tp1 tp2 : List (Tet ℝ)) (ep1 ep2 : List (Eps ℝ))
    (g1 : gatherTets v1 t1 = .ok tp1) (g2 : gatherTets v2 t2 = .ok tp2)
    (e1 : gatherEps p1 t1 = .ok ep1) (e2 : gatherEps p2 t2 = .ok ep2)
    (hn1 : t1 ≠ []) (hn2 : t2 ≠ []) :
    ∃ cs cs', contactsCore pairFn v1 t1 p1 v2 t2 p2 true = .ok cs ∧
      contactsCore pairFn v1 t1 p1 v2 t2 p2 false = .ok cs' ∧ cs.Perm cs' ∧
      cs.isEmpty = cs'.isEmpty ∧
      ∀ (P : Pose ℝ) (com1 com2 : V),
        accumulateWrenchesAt P cs com1 com2 = accumulateWrenchesAt P cs' com1 com2 := by
  have ha1 : aabbsOf v1 t1 = .ok (tetrahedralMeshAabbs tp1) := by
    simp only [aabbsOf, g1, bind, Except.bind, pure, Except.pure]
  have ha2 : aabbsOf v2 t2 = .ok (tetrahedralMeshAabbs tp2) := by
    simp only [aabbsOf, g2, bind, Except.bind, pure, Except.pure]
  have hl1 := gatherTets_length v1 t1 tp1 g1
  have hl2 := gatherTets_length v2 t2 tp2 g2
  have hle1 := gatherEps_length p1 t1 ep1 e1
  have hle2 := gatherEps_length p2 t2 ep2 e2
  have hne : ∀ (tp : List (Tet ℝ)) (t : List (Nat × Nat × Nat × Nat)), tp.length = t.length →
      t ≠ [] → tetrahedralMeshAabbs tp ≠ [] := by
    intro tp t hl hn h
    have h0 : tp.length = 0 := by
      have := congrArg List.length h
      simpa [tetrahedralMeshAabbs] using this
    exact hn (List.length_eq_zero_iff.mp (hl ▸ h0))
  obtain ⟨c1, c2, ps, k1, k2, hp, _, hperm, hmem⟩ :=
    broad_phase_same_pairs_built v1 v2 t1 t2 _ _ ha1 ha2 (hne tp1 t1 hl1 hn1) (hne tp2 t2 hl2 hn2)
  have hv : ∀ p ∈ broadBrute (tetrahedralMeshAabbs tp1) (tetrahedralMeshAabbs tp2),
      p.1 < tp1.length ∧ p.1 < ep1.length ∧ p.2 < tp2.length ∧ p.2 < ep2.length := by
    rintro ⟨i, j⟩ hij
    obtain ⟨b1, b2, hb1, hb2, _⟩ := (mem_allPairs _ _ i j).mp hij
    have hi : i < tp1.length := by
      have := (List.getElem?_eq_some_iff.mp hb1).1
      simpa [tetrahedralMeshAabbs] using this
    have hj : j < tp2.length := by
      have := (List.getElem?_eq_some_iff.mp hb2).1
      simpa [tetrahedralMeshAabbs] using this
    exact ⟨hi, by omega, hj, by omega⟩
  obtain ⟨cs, cs', n1, n2, hpc, hem, _⟩ :=
    C16.broad_phase_same_wrenches pairFn tp1 ep1 tp2 ep2 ps _ hperm hv Pose.id ⟨0, 0, 0⟩ ⟨0, 0, 0⟩
  refine ⟨cs, cs', ?_, ?_, hpc, hem, fun P com1 com2 => accumulateWrenchesAt_perm P hpc com1 com2⟩
  · simp only [contactsCore, broadCore, if_true, k1, k2, hp, g1, g2, e1, e2, bind, Except.bind, n1]
  · simp only [contactsCore, broadCore, Bool.false_eq_true, if_false, ha1, ha2, g1, g2, e1, e2, bind,
      Except.bind, pure, Except.pure, n2]

/-- non-vacuity: one tetrahedron against a translated copy, constant potentials, a narrow phase
that reports every pair -/
example : ∃ cs cs', contactsCore (fun _ _ _ _ => some (⟨0, 0, 0⟩, ⟨0, 0, 1⟩))
      [(⟨0, 0, 0⟩ : V), ⟨2, 0, 0⟩, ⟨0, 2, 0⟩, ⟨0, 0, 2⟩] [(0, 1, 2, 3)] [0, 0, 0, 1]
      [(⟨1, 0, 0⟩ : V), ⟨3, 0, 0⟩, ⟨1, 2, 0⟩, ⟨1, 0, 2⟩] [(0, 1, 2, 3)] [0, 0, 0, 1] true = .ok cs ∧
    contactsCore (fun _ _ _ _ => some (⟨0, 0, 0⟩, ⟨0, 0, 1⟩))
      [(⟨0, 0, 0⟩ : V), ⟨2, 0, 0⟩, ⟨0, 2, 0⟩, ⟨0, 0, 2⟩] [(0, 1, 2, 3)] [0, 0, 0, 1]
      [(⟨1, 0, 0⟩ : V), ⟨3, 0, 0⟩, ⟨1, 2, 0⟩, ⟨1, 0, 2⟩] [(0, 1, 2, 3)] [0, 0, 0, 1] false = .ok cs' ∧
    cs.Perm cs' := by
  obtain ⟨cs, cs', h1, h2, h3, _⟩ := contacts_tree_eq_brute (fun _ _ _ _ => some (⟨0, 0, 0⟩, ⟨0, 0, 1⟩))
    [(⟨0, 0, 0⟩ : V), ⟨2, 0, 0⟩, ⟨0, 2, 0⟩, ⟨0, 0, 2⟩] [(0, 1, 2, 3)] [0, 0, 0, 1]
    [(⟨1, 0, 0⟩ : V), ⟨3, 0, 0⟩, ⟨1, 2, 0⟩, ⟨1, 0, 2⟩] [(0, 1, 2, 3)] [0, 0, 0, 1] _ _ _ _
    rfl rfl rfl rfl (by simp) (by simp)
  exact ⟨cs, cs', h1, h2, h3⟩

end C16Link
end D3
