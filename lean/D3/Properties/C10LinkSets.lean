/-
C10 ↔ C03 ↔ C13 — the results of `D3/Properties/C10Link.lean` for `plane_to_ellipsoid` / `plane_to_cylinder`
restated for the sets of the containment vertical C13 (`D3.ContainTest.ellipsoidSet`, `D3.ContainTest.cylinderSet`,
`D3/Proofs/ContainTestSets.lean`), which `D3/Properties/C13Link.lean` proves equal to C03's sets
(`ellipsoid_sets_iff`, `cylinder_sets_iff`) — so "the second returned point is in the solid" is the same statement as
"`points_in_ellipsoid` / `points_in_cylinder` accept it" (C13 `ellipsoid_exact`, `cylinder_exact`).
Kept in a file of its own so that `C10Link` does not depend on the C13 vertical.
-/
import D3.Properties.C10Link
import D3.Properties.C13Link

namespace D3
namespace C10Link
open DistLine

/-- transport of the four-part statement along a pointwise equivalence of the body's set -/
theorem spec_congr {P K K' : V → Prop} (hK : ∀ p, K' p ↔ K p) {r : Res3 ℝ}
    (h : P r.p1 ∧ K r.p2 ∧ (r.d * r.d = V3.normSq (r.p1 - r.p2) ∧ 0 ≤ r.d) ∧ LowerBound P K r.d) :
    P r.p1 ∧ K' r.p2 ∧ (r.d * r.d = V3.normSq (r.p1 - r.p2) ∧ 0 ≤ r.d) ∧ LowerBound P K' r.d :=
  ⟨h.1, (hK _).mpr h.2.1, h.2.2.1, fun x hx y hy => h.2.2.2 x hx y ((hK y).mp hy)⟩

/-- **`plane_to_ellipsoid`, every placement, C13's set**: the second returned point is in C13's solid ellipsoid. -/
theorem planeToEllipsoid_feas_c13 {pp n : V} {A : Pose ℝ} {radii : V} {r : Res3 ℝ}
    (h : planeToEllipsoid pp n A radii = .ok r) (hu : UnitVec n)
    (hx : 0 < radii.x) (hy : 0 < radii.y) (hz : 0 < radii.z) :
    planeSet pp n r.p1 ∧ ContainTest.ellipsoidSet A radii r.p2 ∧
      (r.d * r.d = V3.normSq (r.p1 - r.p2) ∧ 0 ≤ r.d) := by
  obtain ⟨h1, h2, h3⟩ := planeToEllipsoid_feas h hu hx hy hz
  exact ⟨h1, (C13Link.ellipsoid_sets_iff A radii _).mpr h2, h3⟩

example : ∃ r, planeToEllipsoid (⟨1, 2, 3⟩ : V) ⟨0, 3 / 5, 4 / 5⟩ exPose ⟨1, 2, 3⟩ = .ok r ∧
    ContainTest.ellipsoidSet exPose ⟨1, 2, 3⟩ r.p2 := by
  obtain ⟨r, hr⟩ := planeToEllipsoid_ok (⟨1, 2, 3⟩ : V) ⟨0, 3 / 5, 4 / 5⟩ exPose ⟨1, 2, 3⟩
  exact ⟨r, hr, (planeToEllipsoid_feas_c13 hr exTilt_unit (by norm_num) (by norm_num) (by norm_num)).2.1⟩

/-- **`plane_to_ellipsoid`, C13's set, no band hypothesis** (orthonormal pose, radii in `[lo, hi]`, `hi ≤ 1000·lo`):
optimality against C13's solid ellipsoid. -/
theorem planeToEllipsoid_spec_orthonormal_c13 {pp n : V} {A : Pose ℝ} {radii : V} {r : Res3 ℝ}
    (h : planeToEllipsoid pp n A radii = .ok r) (hu : UnitVec n) (hA : Orthonormal A.R)
    {lo hi : ℝ} (hlo : 0 < lo) (hhi : hi ≤ 1000 * lo) (hx : lo ≤ radii.x ∧ radii.x ≤ hi)
    (hy : lo ≤ radii.y ∧ radii.y ≤ hi) (hz : lo ≤ radii.z ∧ radii.z ≤ hi) :
    planeSet pp n r.p1 ∧ ContainTest.ellipsoidSet A radii r.p2 ∧
      (r.d * r.d = V3.normSq (r.p1 - r.p2) ∧ 0 ≤ r.d) ∧
      LowerBound (planeSet pp n) (ContainTest.ellipsoidSet A radii) r.d :=
  spec_congr (C13Link.ellipsoid_sets_iff A radii) (planeToEllipsoid_spec_orthonormal h hu hA hlo hhi hx hy hz)

example : ∃ r, planeToEllipsoid (⟨1, 2, 3⟩ : V) ⟨0, 3 / 5, 4 / 5⟩ exPose ⟨1, 2, 3⟩ = .ok r ∧
    LowerBound (planeSet (⟨1, 2, 3⟩ : V) ⟨0, 3 / 5, 4 / 5⟩) (ContainTest.ellipsoidSet exPose ⟨1, 2, 3⟩) r.d := by
  obtain ⟨r, hr⟩ := planeToEllipsoid_ok (⟨1, 2, 3⟩ : V) ⟨0, 3 / 5, 4 / 5⟩ exPose ⟨1, 2, 3⟩
  exact ⟨r, hr, (planeToEllipsoid_spec_orthonormal_c13 hr exTilt_unit exPose_orth (lo := 1) (hi := 3) one_pos
    (by norm_num) (by norm_num) (by norm_num) (by norm_num)).2.2.2⟩

/-- **`plane_to_cylinder`, every placement, C13's set**. -/
theorem planeToCylinder_feas_c13 {pp n : V} {A : Pose ℝ} {r l : ℝ} {res : Res3 ℝ}
    (h : planeToCylinder pp n A r l = .ok res) (hu : UnitVec n) (hr : 0 ≤ r) (hl : 0 ≤ l) :
    planeSet pp n res.p1 ∧ ContainTest.cylinderSet A r l res.p2 ∧
      (res.d * res.d = V3.normSq (res.p1 - res.p2) ∧ 0 ≤ res.d) := by
  obtain ⟨h1, h2, h3⟩ := planeToCylinder_feas h hu hr hl
  exact ⟨h1, (C13Link.cylinder_sets_iff A hr l _).mpr h2, h3⟩

example : ∃ res, planeToCylinder (⟨1, 2, 3⟩ : V) ⟨0, 3 / 5, 4 / 5⟩ exPose 1 2 = .ok res ∧
    ContainTest.cylinderSet exPose 1 2 res.p2 := by
  obtain ⟨res, hres⟩ := planeToCylinder_ok (⟨1, 2, 3⟩ : V) ⟨0, 3 / 5, 4 / 5⟩ exPose 1 2
  exact ⟨res, hres, (planeToCylinder_feas_c13 hres exTilt_unit (by norm_num) (by norm_num)).2.1⟩

/-- **`plane_to_cylinder`, C13's set, no band hypothesis** (orthonormal pose, diameter and length within a factor
999 of each other). -/
theorem planeToCylinder_spec_orthonormal_c13 {pp n : V} {A : Pose ℝ} {r l : ℝ} {res : Res3 ℝ}
    (h : planeToCylinder pp n A r l = .ok res) (hu : UnitVec n) (hA : Orthonormal A.R)
    (hr : 0 ≤ r) (hl : 0 ≤ l) (h1 : l ≤ 999 * (2 * r)) (h2 : 2 * r ≤ 999 * l) :
    planeSet pp n res.p1 ∧ ContainTest.cylinderSet A r l res.p2 ∧
      (res.d * res.d = V3.normSq (res.p1 - res.p2) ∧ 0 ≤ res.d) ∧
      LowerBound (planeSet pp n) (ContainTest.cylinderSet A r l) res.d :=
  spec_congr (C13Link.cylinder_sets_iff A hr l) (planeToCylinder_spec_orthonormal h hu hA hr hl h1 h2)

example : ∃ res, planeToCylinder (⟨1, 2, 3⟩ : V) ⟨0, 3 / 5, 4 / 5⟩ exPose 1 2 = .ok res ∧
    LowerBound (planeSet (⟨1, 2, 3⟩ : V) ⟨0, 3 / 5, 4 / 5⟩) (ContainTest.cylinderSet exPose 1 2) res.d := by
  obtain ⟨res, hres⟩ := planeToCylinder_ok (⟨1, 2, 3⟩ : V) ⟨0, 3 / 5, 4 / 5⟩ exPose 1 2
  exact ⟨res, hres, (planeToCylinder_spec_orthonormal_c13 hres exTilt_unit exPose_orth (by norm_num) (by norm_num)
    (by norm_num) (by norm_num)).2.2.2⟩

end C10Link
end D3
