/-
C05 — AABB tree answers overlap queries exactly, for every insertion history.

Property theorems only (helper lemmas live in D3/Proofs).  Two layers:

* array layer (`D3.Model.Aabb`, faithful to aabb_tree.py): `query_exact`,
  `query_tree_exact`, `empty_query_ok`, for **every** state accepted by the decidable
  well-formedness check `wfCheck` — the check the harness runs (through the driver) on the
  arrays dumped from the implementation after every operation of every history;
* tree layer (`D3.Model.AabbTree`): `history_leaves` — for every insertion history the tree
  stays tight and its leaves are exactly the inserted boxes, and the cost assertion of
  `insert_leaf` can never fire.

Not proved (named, see DESIGN §7/C05): `insertLeaf_refines` — that the array-level
`insertLeaf` implements `T.insert`; it is *checked at run time* instead (wfCheck on the
implementation's arrays + exact state equality with the array model after every op).
-/
import D3.Proofs.AabbExact

namespace D3
namespace C05
open Aabb

/-- leaf indices are among the node indices -/
theorem leafIdx_subperm : ∀ (t : T ℝ), (t.leaves.map (·.1)).Subperm t.indices
  | .leaf i b => by simp [T.leaves, T.indices]
  | .node i b l r => by
    simp only [T.leaves, T.indices, List.map_append]
    have hl := leafIdx_subperm l
    have hr := leafIdx_subperm r
    have : (List.map (·.1) r.leaves ++ List.map (·.1) l.leaves).Subperm (l.indices ++ r.indices) :=
      (List.perm_append_comm.subperm).trans (List.Subperm.append hl hr)
    exact this.trans (List.subperm_cons_self)

theorem leafIdx_nodup (t : T ℝ) (h : t.indices.Nodup) : (t.leaves.map (·.1)).Nodup := by
  obtain ⟨l, hp, hs⟩ := leafIdx_subperm t
  exact hp.nodup (List.Nodup.sublist hs h)

/-- **C05, box query.** On every well-formed state the array-level `query_overlap`
terminates without an out-of-range access and returns each leaf whose box overlaps the
query box under the closed-interval test exactly once, and nothing else. -/
theorem query_exact (c : Core ℝ) (t : T ℝ) (h : wfCheck c = some (some t)) (q : Box ℝ) :
    ∃ res, queryOverlap q c.root c.nodes c.aabbs = .ok res ∧ res.Nodup ∧
      (∀ i, i ∈ res ↔ ∃ b, (i, b) ∈ t.leaves ∧ overlap b q = true) := by
  obtain ⟨hrep, hidx, htight, _, hnd, hsz⟩ := wfCheck_sound c t h
  have hq := queryOverlap_eq q c.nodes c.aabbs t hrep (by omega)
  rw [hidx] at hq
  refine ⟨_, hq, ?_, ?_⟩
  · rw [collect_exact q t (Tight.encl t htight)]
    have := leafIdx_nodup t hnd
    exact (List.Nodup.sublist (List.Sublist.map _ List.filter_sublist) this)
  · intro i
    rw [collect_exact q t (Tight.encl t htight)]
    simp only [List.mem_map, List.mem_filter]
    constructor
    · rintro ⟨p, ⟨hp, ho⟩, rfl⟩
      exact ⟨p.2, hp, ho⟩
    · rintro ⟨b, hp, ho⟩
      exact ⟨(i, b), ⟨hp, ho⟩, rfl⟩

/-- **C05, tree-against-tree query.** For two well-formed states the pair list is exactly
`{(i, j) | leaf i of tree 1 overlaps leaf j of tree 2}`, each pair once. -/
theorem query_tree_exact (c1 c2 : Core ℝ) (t1 t2 : T ℝ)
    (h1 : wfCheck c1 = some (some t1)) (h2 : wfCheck c2 = some (some t2)) :
    ∃ res, queryTree c1 c2 = .ok res ∧ res.Nodup ∧
      (∀ i j, (i, j) ∈ res ↔ ∃ bi bj, (i, bi) ∈ t1.leaves ∧ (j, bj) ∈ t2.leaves ∧
        overlap bi bj = true) := by
  obtain ⟨hrep1, hidx1, htight1, _, hnd1, hsz1⟩ := wfCheck_sound c1 t1 h1
  obtain ⟨hrep2, hidx2, htight2, hbr2, hnd2, hsz2⟩ := wfCheck_sound c2 t2 h2
  have hq := queryTreeLoop_eq c1.nodes c1.aabbs t1 hrep1 (by omega) c2.nodes c2.aabbs
    (2 * c2.nodes.size + 2) [t2] [] (by intro t ht; simp at ht; subst ht; exact ⟨hrep2, hbr2⟩)
    (by simp [sizeSum]; omega)
  simp only [List.map_cons, List.map_nil, List.reverse_nil, List.nil_append,
    List.flatMap_cons, List.flatMap_nil, List.append_nil] at hq
  rw [hidx1, hidx2] at hq
  refine ⟨_, hq, ?_, ?_⟩
  · rw [collectTree_exact t1 (Tight.encl t1 htight1) t2 (Tight.encl t2 htight2)]
    have n1 := leafIdx_nodup t1 hnd1
    have n2 := leafIdx_nodup t2 hnd2
    -- pairs (i,j): j ranges over distinct leaf indices of t2, i over distinct ones of t1
    have key : ∀ (L2 : List (Int × Box ℝ)), (L2.map (·.1)).Nodup →
        (L2.flatMap fun pj => ((t1.leaves.filter fun p => overlap p.2 pj.2).map
          fun p => (p.1, pj.1))).Nodup := by
      intro L2
      induction L2 with
      | nil => intro _; simp
      | cons pj L2 ih =>
        intro hn
        simp only [List.map_cons, List.nodup_cons] at hn
        simp only [List.flatMap_cons]
        rw [List.nodup_append]
        refine ⟨?_, ih hn.2, ?_⟩
        · have : ((t1.leaves.filter fun p => overlap p.2 pj.2).map (·.1)).Nodup :=
            List.Nodup.sublist (List.Sublist.map _ List.filter_sublist) n1
          have hmap : ((t1.leaves.filter fun p => overlap p.2 pj.2).map fun p => (p.1, pj.1))
              = ((t1.leaves.filter fun p => overlap p.2 pj.2).map (·.1)).map fun i => (i, pj.1) := by
            simp [List.map_map]
          rw [hmap]
          exact List.Nodup.map (fun a b hab => by simpa using hab) this
        · intro x hx y hy hxy
          subst hxy
          simp only [List.mem_map, List.mem_filter, List.mem_flatMap] at hx hy
          obtain ⟨p, _, rfl⟩ := hx
          obtain ⟨pj', hpj', p', _, hpe⟩ := hy
          have : pj'.1 = pj.1 := by
            have := congrArg Prod.snd hpe; simpa using this
          exact hn.1 (this ▸ List.mem_map_of_mem (f := (·.1)) hpj')
    exact key t2.leaves n2
  · intro i j
    rw [collectTree_exact t1 (Tight.encl t1 htight1) t2 (Tight.encl t2 htight2)]
    simp only [List.mem_flatMap, List.mem_map, List.mem_filter]
    constructor
    · rintro ⟨pj, hpj, p, ⟨hp, ho⟩, hpe⟩
      have e1 : p.1 = i := by have := congrArg Prod.fst hpe; simpa using this
      have e2 : pj.1 = j := by have := congrArg Prod.snd hpe; simpa using this
      exact ⟨p.2, pj.2, by rw [← e1]; exact hp, by rw [← e2]; exact hpj, ho⟩
    · rintro ⟨bi, bj, hi, hj, ho⟩
      exact ⟨(j, bj), hj, (i, bi), ⟨hi, ho⟩, rfl⟩

/-- **C05, empty tree.** A query on a tree with no insertion at all returns the empty list
(no out-of-range read). -/
theorem empty_query_ok (q : Box ℝ) :
    queryOverlap q INDEX_NONE (#[] : Array Node) (#[] : Array (Box ℝ)) = .ok [] := by
  simp [queryOverlap, queryLoop, INDEX_NONE]

/-- **C05, tree layer, every history.** Starting from any tight, valid tree, inserting any
list of valid boxes (fresh indices supplied by the bookkeeping) never trips the cost
assertion, keeps the tree tight, and the leaves are exactly the old leaves plus the
inserted boxes (as a multiset: none missing, none spurious, none duplicated). -/
theorem history_leaves : ∀ (ins : List (Int × Box ℝ × Int)) (t : T ℝ),
    t.Tight → t.AllValid → (∀ x ∈ ins, x.2.1.Valid) →
    ∃ t', ins.foldlM (fun t x => t.insert x.1 x.2.1 x.2.2) t = some t' ∧ t'.Tight ∧ t'.AllValid ∧
      t'.leaves.Perm ((ins.map fun x => (x.1, x.2.1)).reverse ++ t.leaves) ∧
      t'.size = t.size + 2 * ins.length
  | [], t, ht, hv, _ => ⟨t, rfl, ht, hv, by simp, by simp⟩
  | x :: ins, t, ht, hv, hx => by
    obtain ⟨t1, h1, ht1, hv1, hp1, _, _, hs1⟩ :=
      insert_spec x.1 x.2.1 (hx x (by simp)) x.2.2 t ht hv
    obtain ⟨t', h', ht', hv', hp', hs'⟩ :=
      history_leaves ins t1 ht1 hv1 (fun y hy => hx y (by simp [hy]))
    refine ⟨t', ?_, ht', hv', ?_, ?_⟩
    · simp only [List.foldlM_cons, h1]
      exact h'
    · refine hp'.trans ?_
      simp only [List.map_cons, List.reverse_cons, List.append_assoc, List.singleton_append]
      exact List.Perm.append_left _ hp1
    · simp [hs', hs1]; omega

/-- non-vacuity: a concrete three-leaf state passes `wfCheck`, so the hypotheses of
`query_exact` are satisfiable, and a concrete query returns the expected set -/
def exTree : Core Rat :=
  { root := 4, filledLen := 5,
    nodes := #[⟨3, -1, -1, 1⟩, ⟨3, -1, -1, 1⟩, ⟨4, -1, -1, 1⟩, ⟨4, 0, 1, 2⟩, ⟨-1, 3, 2, 2⟩],
    aabbs := #[⟨0, 1, 0, 1, 0, 1⟩, ⟨1, 2, 0, 1, 0, 1⟩, ⟨5, 6, 0, 1, 0, 1⟩,
               ⟨0, 2, 0, 1, 0, 1⟩, ⟨0, 6, 0, 1, 0, 1⟩] }

example : (wfCheck exTree).isSome = true := by decide +kernel
example : queryOverlap (⟨1, 1, 0, 1, 0, 1⟩ : Box Rat) exTree.root exTree.nodes exTree.aabbs
    = .ok [1, 0] := by decide +kernel

end C05
end D3
