/-
C11 — `_line_to_triangle` / `line_to_triangle` and `line_segment_to_triangle` return the global
minimum distance (the piece that `D3/Properties/C11.lean` left conditional).

Property theorems only (lemmas: `D3/Proofs/DistPolyLTGeom.lean` — barycentric exit and "a line
that misses the triangle is closest to one of its edges"; `D3/Proofs/DistPolyLTEdge.lean` —
`_line_to_line_segment` (DistPoly copy) on C10's scalar KKT lemma and the three-edge loop;
`D3/Proofs/DistPolyLineTriangle.lean` — `plane_basis_from_normal`, the plane-basis intersection
test, the whole function).  Model: the faithful `lineToTriangleFull` / `lineSegmentToTriangle` of
`D3/Model/DistPoly.lean` at `α := ℝ`, general `epsilon` / `MAX_FLOAT` parameters.

Well-formedness used everywhere (`WF`): triangle of non-zero area, unit line direction,
`0 < epsilon < 1`, every edge has `|edge|² ≥ epsilon` (otherwise `_line_to_line_segment` treats the
edge as a point; the default `epsilon = 1e-6` means edges ≥ 1e-3), `MAX_FLOAT` above some actual
distance (the edge loop compares with strict `<` against `MAX_FLOAT`).

The tolerance band.  For `|normal·ld| ≤ epsilon` the code skips its piercing test on purpose; a
line that pierces the triangle at such a flat angle is then reported with the (positive) distance
to the nearest edge.  `line_to_triangle_opt` is therefore stated for
`epsilon < |normal·ld|  ∨  the line does not meet the triangle`;
`line_to_triangle_band_asIs_counterexample` shows that the hypothesis cannot be dropped, and
`line_to_triangle_opt_within_epsilon` shows that inside the band the error is at most
`epsilon/√(1−epsilon²)` times the distance of two triangle points (≤ `1e-6·L`-order), for every input.
-/
import D3.Properties.C11
import D3.Proofs.DistPolyLineTriangle

namespace D3
namespace C11
open DistPoly

/-- the regenerated default `epsilon` of `line_to_triangle` / `line_segment_to_triangle` lies in
`(0, 1)` and the regenerated `MAX_FLOAT` is above 1 -/
theorem line_triangle_defaults :
    (0 : ℝ) < Gen.distance__triangle__line_to_triangle__epsilon ∧
    (Gen.distance__triangle__line_to_triangle__epsilon : ℝ) < 1 ∧
    (0 : ℝ) < Gen.distance__triangle__line_segment_to_triangle__epsilon ∧
    (Gen.distance__triangle__line_segment_to_triangle__epsilon : ℝ) < 1 ∧
    (1 : ℝ) < Gen.utils__MAX_FLOAT := by
  unfold Gen.distance__triangle__line_to_triangle__epsilon
    Gen.distance__triangle__line_segment_to_triangle__epsilon Gen.utils__MAX_FLOAT
  norm_num

/-! ### `_line_to_triangle` -/

/-- **C11 (and C10), `_line_to_triangle` / `line_to_triangle`.** Triangle of non-zero area, unit
direction, `0 < epsilon < 1`, every edge with `|edge|² ≥ epsilon`, some pair (point of the line,
point of the triangle) closer than `maxFloat`; outside the tolerance band, i.e. the code runs its
piercing test (`epsilon < |normal·ld|`, `normal = norm_vector((b−a)×(c−a))`) or the line does not
meet the triangle.  Then the function succeeds (no division by zero, the edge loop assigns a
result), the returned line point is `lp + t·ld` for the returned parameter, the other returned
point lies in the triangle, `d ≥ 0`, `d² = |p₁ − p₂|²`, and **no pair (point of the line, point
of the triangle) is closer than `d`**. -/
theorem line_to_triangle_opt (lp ld a b c : V) (epsilon maxFloat : ℝ)
    (hnd : 0 < V3.normSq (V3.cross (b - a) (c - a))) (hu : V3.dot ld ld = 1)
    (heps : 0 < epsilon) (heps1 : epsilon < 1)
    (hCA : epsilon ≤ V3.normSq (a - c)) (hAB : epsilon ≤ V3.normSq (b - a))
    (hBC : epsilon ≤ V3.normSq (c - b))
    (hmf : ∃ (τ : ℝ) (y : V), triangleSet a b c y ∧ V3.norm ((lp + τ * ld) - y) < maxFloat)
    (hband : epsilon < |V3.dot (normVector (V3.cross (b - a) (c - a))) ld| ∨
      ∀ (τ : ℝ) (y : V), triangleSet a b c y → lp + τ * ld ≠ y) :
    ∃ r, lineToTriangleFull lp ld a b c epsilon maxFloat = .ok r ∧
      r.cpLine = lp + r.t * ld ∧ triangleSet a b c r.cpPrim ∧ 0 ≤ r.dist ∧
      r.dist * r.dist = V3.normSq (r.cpLine - r.cpPrim) ∧
      ∀ (τ : ℝ) (y : V), triangleSet a b c y →
        r.dist * r.dist ≤ V3.normSq ((lp + τ * ld) - y) :=
  lineToTriangleFull_spec lp ld a b c epsilon maxFloat hnd hu heps heps1 hCA hAB hBC hmf hband

/-- non-vacuity: unit right triangle, the line through `(1/4, 1/4, 1)` with the unit direction
`(3/5, 0, 4/5)`, default `epsilon` and `MAX_FLOAT`: all hypotheses hold (the piercing test is run:
`|normal·ld| = 4/5`) -/
example : ∃ r, lineToTriangleFull (⟨1/4, 1/4, 1⟩ : V) ⟨3/5, 0, 4/5⟩ ⟨0, 0, 0⟩ ⟨1, 0, 0⟩ ⟨0, 1, 0⟩
    Gen.distance__triangle__line_to_triangle__epsilon Gen.utils__MAX_FLOAT = .ok r ∧
    r.cpLine = (⟨1/4, 1/4, 1⟩ : V) + r.t * (⟨3/5, 0, 4/5⟩ : V) ∧
    triangleSet ⟨0, 0, 0⟩ ⟨1, 0, 0⟩ ⟨0, 1, 0⟩ r.cpPrim ∧ 0 ≤ r.dist ∧
    r.dist * r.dist = V3.normSq (r.cpLine - r.cpPrim) ∧
    ∀ (τ : ℝ) (y : V), triangleSet ⟨0, 0, 0⟩ ⟨1, 0, 0⟩ ⟨0, 1, 0⟩ y →
      r.dist * r.dist ≤ V3.normSq (((⟨1/4, 1/4, 1⟩ : V) + τ * (⟨3/5, 0, 4/5⟩ : V)) - y) := by
  obtain ⟨e0, e1, _, _, hM⟩ := line_triangle_defaults
  have hN : V3.cross ((⟨1, 0, 0⟩ : V) - ⟨0, 0, 0⟩) ((⟨0, 1, 0⟩ : V) - ⟨0, 0, 0⟩) = ⟨0, 0, 1⟩ := by
    apply V3.ext' <;> simp [V3.cross]
  apply line_to_triangle_opt _ _ _ _ _ _ _ (by rw [hN, V3.normSq_def]; norm_num)
    (by rw [V3.dot_def]; norm_num) e0 e1
  · have : V3.normSq ((⟨0, 0, 0⟩ : V) - ⟨0, 1, 0⟩) = 1 := by rw [V3.normSq_def]; norm_num
    rw [this]; exact e1.le
  · have : V3.normSq ((⟨1, 0, 0⟩ : V) - ⟨0, 0, 0⟩) = 1 := by rw [V3.normSq_def]; norm_num
    rw [this]; exact e1.le
  · have : V3.normSq ((⟨0, 1, 0⟩ : V) - ⟨1, 0, 0⟩) = 2 := by rw [V3.normSq_def]; norm_num
    rw [this]; linarith
  · -- the pair (τ = −5/4, vertex A): the line point is (−1/2, 1/4, 0), at distance < 1
    refine ⟨-5/4, ⟨0, 0, 0⟩, ⟨1, 0, 0, zero_le_one, le_refl _, le_refl _, by ring,
      by apply V3.ext' <;> simp⟩, ?_⟩
    have h1 : V3.normSq (((⟨1/4, 1/4, 1⟩ : V) + (-5/4 : ℝ) * (⟨3/5, 0, 4/5⟩ : V)) - ⟨0, 0, 0⟩) ≤ 1 := by
      rw [V3.normSq_def]; norm_num
    have : V3.norm (((⟨1/4, 1/4, 1⟩ : V) + (-5/4 : ℝ) * (⟨3/5, 0, 4/5⟩ : V)) - ⟨0, 0, 0⟩) ≤ 1 := by
      rw [V3.norm_def]; exact Real.sqrt_le_one.mpr h1
    linarith
  · left
    rw [hN, normVector_dot _ _ (by rw [V3.normSq_def]; norm_num)]
    have h1 : V3.norm (⟨0, 0, 1⟩ : V) = 1 := by rw [V3.norm_def, V3.normSq_def]; norm_num
    have h2 : V3.dot (⟨0, 0, 1⟩ : V) ⟨3/5, 0, 4/5⟩ = 4/5 := by rw [V3.dot_def]; norm_num
    rw [h1, h2, div_one, abs_of_pos (by norm_num)]
    unfold Gen.distance__triangle__line_to_triangle__epsilon; norm_num

/-- **C10, `_line_to_triangle`, every input (also inside the band).** Same well-formedness, no
band hypothesis, `maxFloat` above the distance from the line point to vertex A: the function
succeeds, the returned points lie on the line and in the triangle, `d ≥ 0`, `d² = |p₁ − p₂|²`,
and `d` is never larger than the distance of a pair (point of the line, point of an edge CA,
AB or BC). -/
theorem line_to_triangle_feasible (lp ld a b c : V) (epsilon maxFloat : ℝ)
    (hnd : 0 < V3.normSq (V3.cross (b - a) (c - a))) (hu : V3.dot ld ld = 1)
    (heps : 0 < epsilon) (heps1 : epsilon < 1)
    (hCA : epsilon ≤ V3.normSq (a - c)) (hAB : epsilon ≤ V3.normSq (b - a))
    (hBC : epsilon ≤ V3.normSq (c - b)) (hmf : V3.norm (lp - a) < maxFloat) :
    ∃ r, lineToTriangleFull lp ld a b c epsilon maxFloat = .ok r ∧
      r.cpLine = lp + r.t * ld ∧ triangleSet a b c r.cpPrim ∧ 0 ≤ r.dist ∧
      r.dist * r.dist = V3.normSq (r.cpLine - r.cpPrim) ∧
      ∀ (τ : ℝ) (y : V), (segmentSet c a y ∨ segmentSet a b y ∨ segmentSet b c y) →
        r.dist * r.dist ≤ V3.normSq ((lp + τ * ld) - y) :=
  lineToTriangleFull_feasible lp ld a b c epsilon maxFloat hnd hu heps heps1 hCA hAB hBC hmf

/-- **C11, `_line_to_triangle`, every input — the band is closed up to `epsilon·L`.** Same
hypotheses as `line_to_triangle_feasible` (no band hypothesis).  The result is feasible, and
either it is globally optimal, or the line meets the triangle in a point `z` (so the true
distance is 0) and the returned `d` satisfies `d²·(1 − ε²) ≤ ε²·|y' − z|²` for a point `y'` of the
triangle — i.e. `d ≤ ε/√(1−ε²)` times a length that is at most the diameter of the triangle. -/
theorem line_to_triangle_opt_within_epsilon (lp ld a b c : V) (epsilon maxFloat : ℝ)
    (hnd : 0 < V3.normSq (V3.cross (b - a) (c - a))) (hu : V3.dot ld ld = 1)
    (heps : 0 < epsilon) (heps1 : epsilon < 1)
    (hCA : epsilon ≤ V3.normSq (a - c)) (hAB : epsilon ≤ V3.normSq (b - a))
    (hBC : epsilon ≤ V3.normSq (c - b)) (hmf : V3.norm (lp - a) < maxFloat) :
    ∃ r, lineToTriangleFull lp ld a b c epsilon maxFloat = .ok r ∧
      r.cpLine = lp + r.t * ld ∧ triangleSet a b c r.cpPrim ∧ 0 ≤ r.dist ∧
      r.dist * r.dist = V3.normSq (r.cpLine - r.cpPrim) ∧
      ((∀ (τ : ℝ) (y : V), triangleSet a b c y →
          r.dist * r.dist ≤ V3.normSq ((lp + τ * ld) - y)) ∨
        ∃ y' z : V, triangleSet a b c y' ∧ triangleSet a b c z ∧ (∃ τ0 : ℝ, lp + τ0 * ld = z) ∧
          r.dist * r.dist * (1 - epsilon * epsilon) ≤ epsilon * epsilon * V3.normSq (y' - z)) :=
  lineToTriangleFull_within lp ld a b c epsilon maxFloat hnd hu heps heps1 hCA hAB hBC hmf

/-- non-vacuity of the every-input hypotheses on the input of the counterexample below -/
example : V3.dot (⟨3999999999999 / 4000000000001, 0, 4000000 / 4000000000001⟩ : V)
      ⟨3999999999999 / 4000000000001, 0, 4000000 / 4000000000001⟩ = 1 ∧
    0 < V3.normSq (V3.cross ((⟨1, 0, 0⟩ : V) - ⟨0, 0, 0⟩) ((⟨0, 1, 0⟩ : V) - ⟨0, 0, 0⟩)) := by
  constructor
  · rw [V3.dot_def]; norm_num
  · norm_num [V3.normSq_def, V3.cross]

/-- **inside the band, as the code is (tolerance artefact, not a defect).** Unit right triangle,
default `epsilon = 1e-6` and `MAX_FLOAT`, the unit direction `((m²−1)/(m²+1), 0, 2m/(m²+1))`,
`m = 2·10⁶` (slope `≈ 1e-6 − 2.5e-19 ≤ epsilon` against the triangle plane) through the interior
point `lp = (1/4, 1/4, 0)`: the line meets the triangle (`lp` itself is a point of both), yet the
returned distance is positive, because the piercing test is skipped and the line meets no edge.
So the band hypothesis of `line_to_triangle_opt` cannot be dropped; by
`line_to_triangle_opt_within_epsilon` the excess is `≤ 1e-6/√(1−1e-12)·√2`. -/
theorem line_to_triangle_band_asIs_counterexample :
    ∃ r, lineToTriangleFull (⟨1/4, 1/4, 0⟩ : V)
        ⟨3999999999999 / 4000000000001, 0, 4000000 / 4000000000001⟩
        ⟨0, 0, 0⟩ ⟨1, 0, 0⟩ ⟨0, 1, 0⟩
        Gen.distance__triangle__line_to_triangle__epsilon Gen.utils__MAX_FLOAT = .ok r ∧
      triangleSet ⟨0, 0, 0⟩ ⟨1, 0, 0⟩ ⟨0, 1, 0⟩ (⟨1/4, 1/4, 0⟩ : V) ∧ 0 < r.dist := by
  obtain ⟨e0, e1, _, _, hM⟩ := line_triangle_defaults
  obtain ⟨r, hr, hpos⟩ := lineToTriangleFull_band_witness
    Gen.distance__triangle__line_to_triangle__epsilon Gen.utils__MAX_FLOAT e0 e1 hM
    (by unfold Gen.distance__triangle__line_to_triangle__epsilon; norm_num)
  refine ⟨r, hr, ⟨1/2, 1/4, 1/4, by norm_num, by norm_num, by norm_num, by norm_num, ?_⟩, hpos⟩
  apply V3.ext' <;> simp

/-! ### `line_segment_to_triangle`, unconditional -/

/-- **C11 (and C10), `line_segment_to_triangle`.** Triangle of non-zero area, `s ≠ e`,
`0 < epsilon < 1`, every triangle edge with `|edge|² ≥ epsilon`, some triangle point closer to `s`
than `maxFloat`; outside the tolerance band of `_line_to_triangle` on the carrier line (the piercing
test is run, `epsilon < |normal·(e−s)/|e−s||`, or the carrier line does not meet the triangle).
Then the function succeeds, the returned points lie on the segment and in the triangle,
`d ≥ 0`, `d² = |p₁ − p₂|²`, and **no pair (point of the segment, point of the triangle) is closer
than `d`**.  This is `line_segment_to_triangle_opt_partial` with its hypothesis discharged by
`line_to_triangle_opt`. -/
theorem line_segment_to_triangle_opt (s e a b c : V) (epsilon maxFloat : ℝ)
    (hnd : 0 < V3.normSq (V3.cross (b - a) (c - a))) (hse : 0 < V3.normSq (e - s))
    (heps : 0 < epsilon) (heps1 : epsilon < 1)
    (hCA : epsilon ≤ V3.normSq (a - c)) (hAB : epsilon ≤ V3.normSq (b - a))
    (hBC : epsilon ≤ V3.normSq (c - b))
    (hmf : ∃ y : V, triangleSet a b c y ∧ V3.norm (s - y) < maxFloat)
    (hband : epsilon < |V3.dot (normVector (V3.cross (b - a) (c - a)))
        (V3.sdiv (e - s) (V3.norm (e - s)))| ∨
      ∀ (τ : ℝ) (y : V), triangleSet a b c y → s + τ * (e - s) ≠ y) :
    ∃ res, lineSegmentToTriangle s e a b c epsilon maxFloat = .ok res ∧
      segmentSet s e res.cpLine ∧ triangleSet a b c res.cpPrim ∧ 0 ≤ res.dist ∧
      res.dist * res.dist = V3.normSq (res.cpLine - res.cpPrim) ∧
      ∀ x y, segmentSet s e x → triangleSet a b c y → res.dist * res.dist ≤ V3.normSq (x - y) := by
  have hdir : (convertSegmentToLine s e).1 = V3.sdiv (e - s) (V3.norm (e - s)) := by
    rw [convertSegmentToLine_pos s e hse]
  obtain ⟨r, hr, h1, h2, h3, h4, h5⟩ := line_to_triangle_opt s (convertSegmentToLine s e).1 a b c
    epsilon maxFloat hnd (by rw [hdir]; exact unit_sdiv _ hse) heps heps1 hCA hAB hBC
    (by
      obtain ⟨y, hy, hlt⟩ := hmf
      refine ⟨0, y, hy, ?_⟩
      have : s + (0 : ℝ) * (convertSegmentToLine s e).1 = s := by apply V3.ext' <;> simp
      rw [this]; exact hlt)
    (by
      rw [hdir]
      exact hband.imp id (lineMisses_sdiv s e a b c _))
  exact line_segment_to_triangle_opt_partial s e a b c epsilon maxFloat hnd hse r hr h1 h2 h3 h4 h5

/-- non-vacuity: unit right triangle, the segment from `(1/4, 1/4, 1)` to `(1/4, 1/4, 3)` (carrier
line perpendicular to the triangle plane, `|normal·dir| = 1`), default `epsilon`, `MAX_FLOAT` -/
example : ∃ res, lineSegmentToTriangle (⟨1/4, 1/4, 1⟩ : V) ⟨1/4, 1/4, 3⟩ ⟨0, 0, 0⟩ ⟨1, 0, 0⟩ ⟨0, 1, 0⟩
    Gen.distance__triangle__line_segment_to_triangle__epsilon Gen.utils__MAX_FLOAT = .ok res ∧
    segmentSet ⟨1/4, 1/4, 1⟩ ⟨1/4, 1/4, 3⟩ res.cpLine ∧
    triangleSet ⟨0, 0, 0⟩ ⟨1, 0, 0⟩ ⟨0, 1, 0⟩ res.cpPrim ∧ 0 ≤ res.dist ∧
    res.dist * res.dist = V3.normSq (res.cpLine - res.cpPrim) ∧
    ∀ x y, segmentSet (⟨1/4, 1/4, 1⟩ : V) ⟨1/4, 1/4, 3⟩ x →
      triangleSet ⟨0, 0, 0⟩ ⟨1, 0, 0⟩ ⟨0, 1, 0⟩ y → res.dist * res.dist ≤ V3.normSq (x - y) := by
  obtain ⟨_, _, e0, e1, hM⟩ := line_triangle_defaults
  have hN : V3.cross ((⟨1, 0, 0⟩ : V) - ⟨0, 0, 0⟩) ((⟨0, 1, 0⟩ : V) - ⟨0, 0, 0⟩) = ⟨0, 0, 1⟩ := by
    apply V3.ext' <;> simp [V3.cross]
  have hes : (⟨1/4, 1/4, 3⟩ : V) - ⟨1/4, 1/4, 1⟩ = ⟨0, 0, 2⟩ := by
    apply V3.ext' <;> simp; norm_num
  have hn2 : V3.norm (⟨0, 0, 2⟩ : V) = 2 := by
    rw [V3.norm_def, V3.normSq_def]
    have : (0 : ℝ) * 0 + 0 * 0 + 2 * 2 = 2 * 2 := by norm_num
    rw [this]; exact Real.sqrt_mul_self (by norm_num)
  apply line_segment_to_triangle_opt _ _ _ _ _ _ _ (by rw [hN, V3.normSq_def]; norm_num)
    (by rw [hes, V3.normSq_def]; norm_num) e0 e1
  · have : V3.normSq ((⟨0, 0, 0⟩ : V) - ⟨0, 1, 0⟩) = 1 := by rw [V3.normSq_def]; norm_num
    rw [this]; exact e1.le
  · have : V3.normSq ((⟨1, 0, 0⟩ : V) - ⟨0, 0, 0⟩) = 1 := by rw [V3.normSq_def]; norm_num
    rw [this]; exact e1.le
  · have : V3.normSq ((⟨0, 1, 0⟩ : V) - ⟨1, 0, 0⟩) = 2 := by rw [V3.normSq_def]; norm_num
    rw [this]; linarith
  · refine ⟨⟨1/4, 1/4, 0⟩, ⟨1/2, 1/4, 1/4, by norm_num, by norm_num, by norm_num, by norm_num,
      by apply V3.ext' <;> simp⟩, ?_⟩
    have h1 : V3.normSq ((⟨1/4, 1/4, 1⟩ : V) - ⟨1/4, 1/4, 0⟩) ≤ 1 := by
      rw [V3.normSq_def]; norm_num
    have : V3.norm ((⟨1/4, 1/4, 1⟩ : V) - ⟨1/4, 1/4, 0⟩) ≤ 1 := by
      rw [V3.norm_def]; exact Real.sqrt_le_one.mpr h1
    linarith
  · left
    rw [hN, hes, hn2, normVector_dot _ _ (by rw [V3.normSq_def]; norm_num)]
    have h1 : V3.norm (⟨0, 0, 1⟩ : V) = 1 := by rw [V3.norm_def, V3.normSq_def]; norm_num
    have h2 : V3.dot (⟨0, 0, 1⟩ : V) (V3.sdiv ⟨0, 0, 2⟩ 2) = 1 := by
      rw [V3.dot_def]; simp [V3.sdiv]
    rw [h1, h2, div_one, abs_of_pos (by norm_num)]
    exact e1

end C11
end D3
