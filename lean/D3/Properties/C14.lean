/-
C14 — a collider after `update_pose` behaves like a freshly built one at that pose.

Model: `D3/Model/ColliderState.lean` (every collider class as a record of its shape parameters
and exactly the fields the Python object caches; arrays with numba layout tags; engine
interpreted/JIT as a parameter; the geometric kernels are *parameters* `K : Kernels ℝ`, so every
statement below holds whatever the support/AABB kernels compute).

* `update_refines_fresh` — for every shape (all classes with `update_pose`, Margin-wrapped to any
  depth), every history of `update_pose`/`support_function`/`aabb`/`center`/`first_vertex`/
  `collider2origin` calls with acceptable poses, the outputs are those of the history replayed
  on colliders constructed afresh at the last pose; the only state carried over is the
  hill-climbing start index of `MeshGraph` (`runFresh`), which
  * does not exist for shapes without a mesh (`update_refines_fresh_noMesh`),
  * is invisible to every query but `support_function` (`mesh_observations_independent_of_firstIdx`),
  * is invisible altogether when the hill climb is start-independent — C03's history
    independence — (`update_refines_fresh_startIndependent`).
* `cache_invariant`, `box_vertices_current` — the cached fields after any history are the ones
  derived from the last pose.
* `no_typeErr_contiguous_pose` — with the JIT on, contiguous poses/directions/shape arrays never
  produce numba's signature-mismatch `TypeError`; `no_exception_contiguous_pose` — and no other
  exception either when the mesh hill climb returns a vertex index.
* `disk_asIs_before_fix_typeErr`, `ellipse_asIs_before_fix_typeErr` (+ the `first_vertex`
  variant) — the code before commit "fix: Disk/Ellipse.update_pose stored strided views…"
  did: `[update_pose p, support_function d]` raises under the JIT for **every** C-contiguous `p`
  (and runs interpreted — `disk_asIs_before_fix_interp_ok` — which is why the upstream suite
  never saw it).
* `box_update_strided_halfUpdated` — the failure mode outside the property's domain: a
  non-contiguous pose makes `Box.update_pose` raise *after* the pose was stored.
* `sphere_centre_layout_unobservable`, `hull_update_notImplemented`, `convertBox_vertices`.
-/
import D3.Proofs.ColliderStateJit
import D3.Spec.Vec
import Mathlib.Tactic.NormNum

namespace D3
namespace C14
open CS

/-- **C14, all classes, all histories.**  Start from any successfully constructed collider
`c0 = atPose shape p0`; run any history whose `update_pose` arguments are acceptable to the
engine (anything when interpreted, C-contiguous 4×4 arrays under the JIT).  Then what the
caller sees is exactly what it would see if every `update_pose p` threw the object away and
built a new one at `p` — given only the current hill-climbing start index of a mesh. -/
theorem update_refines_fresh (e : Engine) (K : Kernels ℝ) (shape : Shape ℝ) (p0 : Arr (M4 ℝ))
    (c0 : Collider ℝ) (ops : List (Op ℝ))
    (hmk : atPose e K shape p0 = .ok c0) (hadm : Admissible e ops) :
    run e K c0 ops = runFresh e K shape p0 c0.firstIdx ops := by
  have := run_eq_runFresh e K shape ops p0 c0.firstIdx c0 hmk hadm
  rwa [setFirstIdx_firstIdx] at this

/-- **C14 for every shape without a mesh** (Box, Sphere, Capsule, Ellipsoid, Cylinder, Disk,
Ellipse, Cone and Margins around them): nothing at all is carried over. -/
theorem update_refines_fresh_noMesh (e : Engine) (K : Kernels ℝ) (shape : Shape ℝ)
    (p0 : Arr (M4 ℝ)) (c0 : Collider ℝ) (ops : List (Op ℝ)) (hm : shape.hasMesh = false)
    (hmk : atPose e K shape p0 = .ok c0) (hadm : Admissible e ops) :
    run e K c0 ops = runFreshPlain e K shape p0 ops := by
  rw [update_refines_fresh e K shape p0 c0 ops hmk hadm,
    runFresh_eq_plain_of_noMesh e K shape hm]

/-- **C14 for MeshGraph modulo C03**: if the hill climb returns the same vertex from every
start vertex, a mesh collider is history-independent too. -/
theorem update_refines_fresh_startIndependent (e : Engine) (K : Kernels ℝ) (shape : Shape ℝ)
    (p0 : Arr (M4 ℝ)) (c0 : Collider ℝ) (ops : List (Op ℝ))
    (hK : ∀ d i j vs cn sc, K.hillClimb d i vs cn sc = K.hillClimb d j vs cn sc)
    (hmk : atPose e K shape p0 = .ok c0) (hadm : Admissible e ops) :
    run e K c0 ops = runFreshPlain e K shape p0 ops := by
  rw [update_refines_fresh e K shape p0 c0 ops hmk hadm,
    runFresh_eq_plain_of_startIndependent e K shape hK]

/-- `aabb`, `center`, `first_vertex`, `collider2origin` never look at the start index, and
leave the whole state untouched. -/
theorem mesh_observations_independent_of_firstIdx (e : Engine) (K : Kernels ℝ) (c : Collider ℝ)
    (q : Query ℝ) (hq : ∀ d, q ≠ .support d) (i : Nat) :
    ((c.setFirstIdx i).query e K q).2 = (c.query e K q).2 ∧ (c.query e K q).1 = c :=
  ⟨query_out_firstIdx_irrelevant e K c q hq i, query_state_nonSupport e K c q hq⟩

/-- **cache invariant.** After any admissible history the object *is* (field by field, layout
tags included) the collider a constructor call at the last pose produces, up to the start index. -/
theorem cache_invariant (e : Engine) (K : Kernels ℝ) (shape : Shape ℝ) (p0 : Arr (M4 ℝ))
    (c0 : Collider ℝ) (ops : List (Op ℝ))
    (hmk : atPose e K shape p0 = .ok c0) (hadm : Admissible e ops) :
    ∃ f idx, atPose e K shape (lastPose p0 ops) = .ok f ∧
      finalState e K c0 ops = f.setFirstIdx idx := by
  have := finalState_eq e K shape ops p0 c0.firstIdx c0 hmk hadm
  rwa [setFirstIdx_firstIdx] at this

/-- the corner cache of a Box is never stale: after any admissible history
`vertices = convert_box_to_vertices(last pose, size)`. -/
theorem box_vertices_current (e : Engine) (K : Kernels ℝ) (size : Arr (V3 ℝ)) (p0 : Arr (M4 ℝ))
    (c0 : Collider ℝ) (ops : List (Op ℝ))
    (hmk : atPose e K (.box size) p0 = .ok c0) (hadm : Admissible e ops) :
    finalState e K c0 ops =
      .box ⟨lastPose p0 ops, size, convertBox (lastPose p0 ops).val.P size.val⟩ := by
  obtain ⟨f, idx, hf, hfin⟩ := cache_invariant e K (.box size) p0 c0 ops hmk hadm
  rw [hfin]
  simp only [atPose, bind, Except.bind] at hf
  split at hf
  · cases hf
  · rename_i v hv
    simp only [pure, Except.pure] at hf
    injection hf with hf; subst hf
    rw [typedCall_ok_val hv]
    rfl

/-- **no signature mismatch on contiguous input.** JIT engine, shape arrays (`size`, `radii`)
C-contiguous, construction pose and every later pose C-contiguous 4×4 arrays (fresh, or an item
of a C-contiguous `(n,4,4)` stack), search directions C-contiguous: no call of the history
raises numba's `TypeError`, and every `update_pose` succeeds. -/
theorem no_typeErr_contiguous_pose (K : Kernels ℝ) (shape : Shape ℝ) (p0 : Arr (M4 ℝ))
    (c0 : Collider ℝ) (ops : List (Op ℝ))
    (hs : shape.contigParams = true) (hp0 : p0.layout = .c)
    (hmk : atPose .jit K shape p0 = .ok c0) (hP : PosesContig ops) (hD : DirsContig ops) :
    ∀ o ∈ run .jit K c0 ops, o ≠ .error .typeErr := by
  have hadm : Admissible .jit ops := fun p hp => Or.inr (hP p hp)
  rw [update_refines_fresh .jit K shape p0 c0 ops hmk hadm]
  exact runFresh_no_typeErr K shape hs ops p0 _ c0 hmk hp0 hP hD

/-- **no exception at all on contiguous input** (either engine), provided the hill climb of a
mesh returns an index into its vertex array (C03; vacuous for every shape without a mesh):
every call of the history returns normally. -/
theorem no_exception_contiguous_pose (e : Engine) (K : Kernels ℝ) (hK : HillClimbTotal K)
    (shape : Shape ℝ) (p0 : Arr (M4 ℝ)) (c0 : Collider ℝ) (ops : List (Op ℝ))
    (hs : shape.contigParams = true) (hp0 : p0.layout = .c)
    (hmk : atPose e K shape p0 = .ok c0) (hP : PosesContig ops) (hD : DirsContig ops) :
    ∀ o ∈ run e K c0 ops, ∃ v, o = .ok v := by
  have hadm : Admissible e ops := fun p hp => Or.inr (hP p hp)
  rw [update_refines_fresh e K shape p0 c0 ops hmk hadm]
  exact runFresh_ok e K hK shape hs ops p0 _ c0 hmk hp0 hP hD

/-- construction itself cannot hit a signature mismatch either -/
theorem atPose_no_typeErr (K : Kernels ℝ) (shape : Shape ℝ) (p : Arr (M4 ℝ))
    (hs : shape.contigParams = true) (hp : p.layout = .c) :
    atPose .jit K shape p ≠ .error .typeErr := by
  induction shape with
  | margin s m ih =>
    simp only [Shape.contigParams] at hs
    simp only [atPose, bind, Except.bind]
    cases h : atPose .jit K s p with
    | error err => intro h'; injection h' with h'; subst h'; exact ih hs h
    | ok c => simp [pure, Except.pure]
  | box size =>
    have hsz : size.layout = .c := by simpa [Shape.contigParams] using hs
    simp only [atPose, bind, Except.bind]
    rw [typedCall_jit_ok _ _ (by intro l hl; simp at hl; rcases hl with rfl | rfl <;> assumption)]
    simp [pure, Except.pure]
  | mesh verts tris =>
    simp only [atPose, bind, Except.bind]
    cases tris with
    | nil => simp [minTriangleIdx]
    | cons t ts =>
      obtain ⟨i, j, k⟩ := t
      simp only [minTriangleIdx]
      split <;> simp [pure, Except.pure, throw, throwThe, MonadExceptOf.throw]
  | _ => simp [atPose, pure, Except.pure]

/-- **the repaired defect, Disk.** With the code before the repair, for *every* C-contiguous pose
`p`, every disk and every direction: `update_pose(p)` succeeds and the next `support_function`
raises under the JIT (the stored `pose[:3, 3]`/`pose[:3, 2]` are strided views). -/
theorem disk_asIs_before_fix_typeErr (K : Kernels ℝ) (s : DiskC ℝ) (p : Arr (M4 ℝ))
    (d : Arr (V3 ℝ)) (hp : p.layout = .c) :
    runV false .jit K (.disk s) [.updatePose p, .query (.support d)]
      = [.ok .none, .error .typeErr] := by
  have : typedCall .jit [d.layout, Layout.a, Layout.a]
      (K.supDisk d.val p.val.P.t s.radius p.val.P.R.col2) = .error .typeErr :=
    typedCall_jit_err _ _ ⟨.a, by simp, by simp⟩
  simp [runV, stepV, Collider.updatePoseV, DiskC.updatePose_asIs_before_fix, Collider.query,
    sliceT, sliceCol2, colSliceLayout, hp, updOut, this, Except.map]

/-- … and so do `first_vertex` and `collider2origin` (they call the typed
`plane_basis_from_normal` on the strided normal). -/
theorem disk_asIs_before_fix_typeErr_firstVertex (K : Kernels ℝ) (s : DiskC ℝ) (p : Arr (M4 ℝ))
    (hp : p.layout = .c) :
    runV false .jit K (.disk s) [.updatePose p, .query .firstVertex, .query .collider2origin]
      = [.ok .none, .error .typeErr, .error .typeErr] := by
  have : ∀ x : V3 ℝ × V3 ℝ, typedCall .jit [Layout.a] x = .error .typeErr :=
    fun x => typedCall_jit_err _ _ ⟨.a, by simp, by simp⟩
  simp [runV, stepV, Collider.updatePoseV, DiskC.updatePose_asIs_before_fix, Collider.query,
    sliceT, sliceCol2, colSliceLayout, hp, updOut, this, Except.map]

/-- the same history interpreted (`NUMBA_DISABLE_JIT=1`, the mode of the upstream suite) is fine -/
theorem disk_asIs_before_fix_interp_ok (K : Kernels ℝ) (s : DiskC ℝ) (p : Arr (M4 ℝ))
    (d : Arr (V3 ℝ)) :
    runV false .interp K (.disk s) [.updatePose p, .query (.support d)]
      = [.ok .none, .ok (.vec (K.supDisk d.val p.val.P.t s.radius p.val.P.R.col2))] := by
  simp [runV, stepV, Collider.updatePoseV, DiskC.updatePose_asIs_before_fix, Collider.query,
    sliceT, sliceCol2, updOut, Except.map]

/-- **the repaired defect, Ellipse** (`pose[:3, 3]` and `pose[:3, :2].T` stored as views). -/
theorem ellipse_asIs_before_fix_typeErr (K : Kernels ℝ) (s : EllipseC ℝ) (p : Arr (M4 ℝ))
    (d : Arr (V3 ℝ)) :
    runV false .jit K (.ellipse s) [.updatePose p, .query (.support d)]
      = [.ok .none, .error .typeErr] := by
  have : typedCall .jit [d.layout, colSliceLayout p.layout, Layout.a, s.radii.layout]
      (K.supEllipse d.val p.val.P.t (p.val.P.R.col0, p.val.P.R.col1) s.radii.val)
      = .error .typeErr :=
    typedCall_jit_err _ _ ⟨.a, by simp, by simp⟩
  simp [runV, stepV, Collider.updatePoseV, EllipseC.updatePose_asIs_before_fix, Collider.query,
    sliceT, sliceAxes, updOut, this, Except.map]

/-- the code as it is now on the very same histories: no exception (instances of
`no_typeErr_contiguous_pose`, spelled out) -/
theorem disk_now_ok (K : Kernels ℝ) (s : DiskC ℝ) (p : Arr (M4 ℝ)) (d : Arr (V3 ℝ))
    (hd : d.layout = .c) :
    run .jit K (.disk s) [.updatePose p, .query (.support d)]
      = [.ok .none, .ok (.vec (K.supDisk d.val p.val.P.t s.radius p.val.P.R.col2))] := by
  have : typedCall .jit [d.layout, Layout.c, Layout.c]
      (K.supDisk d.val p.val.P.t s.radius p.val.P.R.col2) = .ok _ :=
    typedCall_jit_ok _ _ (by intro l hl; simp at hl; rcases hl with rfl | rfl <;> first | assumption | rfl)
  simp [run, runV, stepV, Collider.updatePoseV, DiskC.updatePose, Collider.query,
    sliceT, sliceCol2, Arr.ascontiguous, updOut, this, Except.map]

/-- **outside the domain (non-contiguous pose, JIT):** `Box.update_pose` raises inside the typed
`convert_box_to_vertices` *after* `self.box2origin = pose`; the object keeps the new pose with
the old corners. -/
theorem box_update_strided_halfUpdated (s : BoxC ℝ) (p : Arr (M4 ℝ)) (hp : p.layout ≠ .c) :
    (Collider.box s).updatePose .jit p
      = (.box { s with box2origin := p }, some .typeErr) := by
  have : typedCall .jit [p.layout, s.size.layout] (convertBox p.val.P s.size.val)
      = .error .typeErr := typedCall_jit_err _ _ ⟨p.layout, by simp, hp⟩
  simp [Collider.updatePose, Collider.updatePoseV, BoxC.updatePose, this]

/-- the layout of a sphere's centre array is never observable (its only typed consumer gets
`np.ascontiguousarray(self.c)`), so `Sphere(center=pose[:3, 3])` as in `broad_phase.py` and
`Sphere(center=<fresh array>)` are the same collider. -/
theorem sphere_centre_layout_unobservable (e : Engine) (K : Kernels ℝ) (v : V3 ℝ) (l l' : Layout)
    (r : ℝ) (q : Query ℝ) :
    ((Collider.sphere ⟨⟨v, l⟩, r⟩).query e K q).2 = ((Collider.sphere ⟨⟨v, l'⟩, r⟩).query e K q).2 := by
  cases q <;> simp [Collider.query, Arr.ascontiguous]

/-- `ConvexHullVertices.update_pose` raises `NotImplementedError` -/
theorem hull_update_notImplemented (s : HullC ℝ) (p : Arr (M4 ℝ)) :
    s.updatePose p = .error .notImplemented := rfl

/-- `convert_box_to_vertices`: eight vertices, the images under the pose of the corners
`(±sx/2, ±sy/2, ±sz/2)` in `itertools.product` order. -/
theorem convertBox_vertices (P : Pose ℝ) (s : V3 ℝ) :
    convertBox P s = boxSigns.map (fun sg =>
      P.apply ⟨(if sg.1 then 1 else -1) * (s.x / 2), (if sg.2.1 then 1 else -1) * (s.y / 2),
        (if sg.2.2 then 1 else -1) * (s.z / 2)⟩) ∧ (convertBox P s).length = 8 := by
  refine ⟨?_, rfl⟩
  have hh : ∀ b : Bool, (half b : ℝ) = (if b then 1 else -1) / 2 := by
    intro b; cases b <;> simp [half] <;> norm_num
  unfold convertBox
  apply List.map_congr_left
  intro sg _
  simp only [Pose.apply, hh]
  apply V3.ext' <;> simp only [V3.add_x, V3.add_y, V3.add_z, M3.mulVec, V3.dot_def] <;> ring

/-! ### non-vacuity: the hypotheses are satisfiable on concrete, non-degenerate input -/

/-- rotation by 90° about z, translated -/
def exPose : Arr (M4 ℝ) := ⟨⟨⟨⟨⟨0, -1, 0⟩, ⟨1, 0, 0⟩, ⟨0, 0, 1⟩⟩, ⟨1, 2, 3⟩⟩, ⟨0, 0, 0⟩, 1⟩, .c⟩
def exPose0 : Arr (M4 ℝ) := ⟨⟨⟨M3.one, ⟨0, 0, 0⟩⟩, ⟨0, 0, 0⟩, 1⟩, .c⟩
def exDir : Arr (V3 ℝ) := ⟨⟨1, 2, 2⟩, .c⟩
def exOps : List (Op ℝ) :=
  [.query (.support exDir), .updatePose exPose, .query (.support exDir), .query .aabb,
   .query .firstVertex, .updatePose exPose0, .query .collider2origin]
def exBox : Shape ℝ := .margin (.box ⟨⟨1, 2, 3⟩, .c⟩) 0.1
def exMesh : Shape ℝ :=
  .mesh #[⟨0, 0, 0⟩, ⟨1, 0, 0⟩, ⟨0, 1, 0⟩, ⟨0, 0, 1⟩] [(0, 1, 2), (0, 1, 3), (0, 2, 3), (1, 2, 3)]

example (K : Kernels ℝ) : ∃ c0, atPose .jit K exBox exPose0 = .ok c0 ∧ exBox.hasMesh = false ∧
    exBox.contigParams = true :=
  ⟨_, rfl, rfl, rfl⟩

example (K : Kernels ℝ) : ∃ c0, atPose .jit K exMesh exPose0 = .ok c0 ∧ c0.firstIdx = 0 :=
  ⟨_, rfl, rfl⟩

theorem exOps_admissible : Admissible .jit exOps ∧ PosesContig exOps ∧ DirsContig exOps := by
  refine ⟨?_, ?_, ?_⟩
  · intro p hp
    simp [exOps, posesOf] at hp
    rcases hp with rfl | rfl <;> exact Or.inr rfl
  · intro p hp
    simp [exOps, posesOf] at hp
    rcases hp with rfl | rfl <;> rfl
  · intro d hd
    simp [exOps, dirsOf] at hd
    subst hd; rfl

/-- the theorems applied to the concrete history `exOps` on a Margin(Box) and on a tetrahedron
mesh under the JIT: `update_refines_fresh(_noMesh)`, `cache_invariant`, `box_vertices_current`,
`no_typeErr_contiguous_pose`, `no_exception_contiguous_pose` all have their hypotheses met -/
example (K : Kernels ℝ) (c0 : Collider ℝ) (h : atPose .jit K exBox exPose0 = .ok c0) :
    run .jit K c0 exOps = runFreshPlain .jit K exBox exPose0 exOps ∧
    (∀ o ∈ run .jit K c0 exOps, o ≠ .error .typeErr) :=
  ⟨update_refines_fresh_noMesh .jit K exBox exPose0 c0 exOps rfl h exOps_admissible.1,
   no_typeErr_contiguous_pose K exBox exPose0 c0 exOps rfl rfl h exOps_admissible.2.1 exOps_admissible.2.2⟩

example (K : Kernels ℝ) (hK : HillClimbTotal K) (c0 : Collider ℝ)
    (h : atPose .jit K exMesh exPose0 = .ok c0) :
    run .jit K c0 exOps = runFresh .jit K exMesh exPose0 0 exOps ∧
    (∀ o ∈ run .jit K c0 exOps, ∃ v, o = .ok v) ∧
    (∃ f idx, atPose .jit K exMesh exPose0 = .ok f ∧ finalState .jit K c0 exOps = f.setFirstIdx idx) := by
  have hc : c0.firstIdx = 0 := by
    have : atPose .jit K exMesh exPose0 = .ok _ := rfl
    rw [this] at h; injection h with h; subst h; rfl
  refine ⟨?_, ?_, ?_⟩
  · rw [← hc]; exact update_refines_fresh .jit K exMesh exPose0 c0 exOps h exOps_admissible.1
  · exact no_exception_contiguous_pose .jit K hK exMesh exPose0 c0 exOps rfl rfl h
      exOps_admissible.2.1 exOps_admissible.2.2
  · exact cache_invariant .jit K exMesh exPose0 c0 exOps h exOps_admissible.1

example (K : Kernels ℝ) (c0 : Collider ℝ)
    (h : atPose .jit K (.box ⟨⟨1, 2, 3⟩, .c⟩) exPose0 = .ok c0) :
    finalState .jit K c0 exOps = .box ⟨exPose0, ⟨⟨1, 2, 3⟩, .c⟩, convertBox exPose0.val.P ⟨1, 2, 3⟩⟩ :=
  box_vertices_current .jit K _ exPose0 c0 exOps h exOps_admissible.1

/-- a kernel record whose hill climb is start-independent exists (here: every kernel trivial
except a hill climb that ignores its start), so the hypothesis of
`update_refines_fresh_startIndependent` is satisfiable -/
noncomputable def exKernels : Kernels ℝ where
  supCapsule := fun _ _ _ _ => V3.zero
  supCylinder := fun _ _ _ _ => V3.zero
  supCone := fun _ _ _ _ => V3.zero
  supEllipsoid := fun _ _ _ => V3.zero
  supSphere := fun _ c _ => c
  supDisk := fun _ c _ _ => c
  supEllipse := fun _ c _ _ => c
  supHull := fun vs _ => vs.headD V3.zero
  planeBasis := fun _ => (⟨1, 0, 0⟩, ⟨0, 1, 0⟩)
  aabbPoints := fun _ => ⟨V3.zero, V3.zero⟩
  aabbSphere := fun c _ => ⟨c, c⟩
  aabbCapsule := fun _ _ _ => ⟨V3.zero, V3.zero⟩
  aabbCylinder := fun _ _ _ => ⟨V3.zero, V3.zero⟩
  aabbCone := fun _ _ _ => ⟨V3.zero, V3.zero⟩
  aabbEllipsoid := fun _ _ => ⟨V3.zero, V3.zero⟩
  aabbDisk := fun c _ _ => ⟨c, c⟩
  aabbEllipse := fun c _ _ => ⟨c, c⟩
  hillClimb := fun d _ vs _ _ =>
    some ((List.range vs.size).foldl
      (fun best i => if V3.dot d (vs.getD best V3.zero) < V3.dot d (vs.getD i V3.zero) then i else best) 0)
  meanVerts := fun _ => V3.zero
  connections := fun _ => []
  shortcuts := fun _ => []

example : ∀ d i j vs cn sc, exKernels.hillClimb d i vs cn sc = exKernels.hillClimb d j vs cn sc :=
  fun _ _ _ _ _ _ => rfl

/-- the hypothesis `HillClimbTotal` of `no_exception_contiguous_pose` is satisfiable -/
example : HillClimbTotal ({ exKernels with hillClimb := fun _ _ _ _ _ => some 0 } : Kernels ℝ) :=
  fun _ _ _ _ _ h => ⟨0, rfl, h⟩

example : ∃ q : Query ℝ, ∀ d, q ≠ .support d := ⟨.aabb, fun _ h => by cases h⟩

example : exPose.layout = .c ∧ exPose0.layout ≠ .f := ⟨rfl, by decide⟩

end C14
end D3
