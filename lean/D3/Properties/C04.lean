/-
C04 — collider AABBs enclose the shape and are tight on every axis.

Property theorems only (helper lemmas: D3/Proofs/Containment*.lean).  The model
(D3/Model/Containment.lean) follows `distance3d/containment.py`, the `aabb()` methods of
`distance3d/colliders.py` and `RigidBody.aabb()` line by line; all theorems are about that
model at `α := ℝ`.

Vocabulary (D3/Proofs/ContainmentBasic.lean):
* `Encloses b K` : every point of `K` satisfies `lo ≤ x ≤ hi` on each axis;
* `TightOn b K`  : each of the six bounds of `b` is the coordinate of some point of `K`;
* point sets: `ballSet`, `hullSet`, `diskSet`, `ellipseSet`, and the images under the pose
  (`poseImage A ·`) of `boxLocal`, `cylinderLocal`, `capsuleLocal`, `coneLocal`,
  `ellipsoidLocal`; `marginSet K m` = all points within `m` of `K`.

Functions that can fail in the code (`np.sqrt` of a negative number, division by zero,
`np.min` of an empty array) return `Except Err _` in the model; every theorem below proves
that on well-formed input the result is `.ok b` (the error branch is unreachable).

Known finding F-ellipsoid-aabb: `ellipsoidAabb_asIs` (the code) violates the property for
rotated poses (`ellipsoidAabb_asIs_not_enclosing`); it is correct for axis-aligned poses
(`ellipsoidAabb_asIs_axis_aligned_partial`); the repaired `ellipsoidAabb_fixed` has the full
theorem.  `RigidBody.aabb()` was repaired in /repo (f66b757); the old behaviour is kept as
`RigidBody.aabb_asIs_before_fix` with `rigidBodyAabb_asIs_before_fix_counterexample`.
-/
import D3.Proofs.ContainmentCollider

namespace D3
namespace C04
open Aabb (Box)
open Containment

/-! ### sphere -/

/-- **sphere_aabb encloses.** Every point of the ball lies within the returned bounds. -/
theorem sphere_aabb_encloses (c : V) (r : ℝ) (hr : 0 ≤ r) :
    Encloses (sphereAabb c r) (ballSet c r) := (sphereAabb_spec c r hr).1

/-- **sphere_aabb tight.** Each of the six bounds is attained by a point of the ball. -/
theorem sphere_aabb_tight (c : V) (r : ℝ) (hr : 0 ≤ r) :
    TightOn (sphereAabb c r) (ballSet c r) := (sphereAabb_spec c r hr).2

example : Encloses (sphereAabb ⟨1, -2, 3⟩ 2) (ballSet ⟨1, -2, 3⟩ 2) :=
  sphere_aabb_encloses _ _ (by norm_num)
example : TightOn (sphereAabb ⟨1, -2, 3⟩ 2) (ballSet ⟨1, -2, 3⟩ 2) :=
  sphere_aabb_tight _ _ (by norm_num)

/-! ### box -/

/-- **box_aabb encloses.** For every pose (the proof needs no orthonormality) and
non-negative edge lengths the min/max over the eight vertices bounds the solid box. -/
theorem box_aabb_encloses (A : Pose ℝ) (size : V) (hx : 0 ≤ size.x) (hy : 0 ≤ size.y)
    (hz : 0 ≤ size.z) :
    ∃ b, boxAabb A size = .ok b ∧ Encloses b (poseImage A (boxLocal size)) :=
  let ⟨b, h, s⟩ := boxAabb_spec A size hx hy hz; ⟨b, h, s.1⟩

/-- **box_aabb tight.** Each bound is attained (by a vertex of the box). -/
theorem box_aabb_tight (A : Pose ℝ) (size : V) (hx : 0 ≤ size.x) (hy : 0 ≤ size.y)
    (hz : 0 ≤ size.z) :
    ∃ b, boxAabb A size = .ok b ∧ TightOn b (poseImage A (boxLocal size)) :=
  let ⟨b, h, s⟩ := boxAabb_spec A size hx hy hz; ⟨b, h, s.2⟩

example : ∃ b, boxAabb ⟨rot345, ⟨1, 2, 3⟩⟩ ⟨1, 2, 3⟩ = .ok b ∧
    Encloses b (poseImage ⟨rot345, ⟨1, 2, 3⟩⟩ (boxLocal ⟨1, 2, 3⟩)) :=
  box_aabb_encloses _ _ (by norm_num) (by norm_num) (by norm_num)
example : ∃ b, boxAabb ⟨rot345, ⟨1, 2, 3⟩⟩ ⟨1, 2, 3⟩ = .ok b ∧
    TightOn b (poseImage ⟨rot345, ⟨1, 2, 3⟩⟩ (boxLocal ⟨1, 2, 3⟩)) :=
  box_aabb_tight _ _ (by norm_num) (by norm_num) (by norm_num)

/-! ### vertex hull and mesh -/

/-- **axis_aligned_bounding_box / ConvexHullVertices.aabb encloses.** The min/max over a
non-empty vertex list bounds the whole convex hull of the vertices. -/
theorem hull_aabb_encloses (vs : List V) (hne : vs ≠ []) :
    ∃ b, aabbOfPoints vs = .ok b ∧ Encloses b (hullSet vs) :=
  let ⟨b, h, s⟩ := hullAabb_spec vs hne; ⟨b, h, s.1⟩

/-- **… tight.** Each bound is attained (by a vertex). -/
theorem hull_aabb_tight (vs : List V) (hne : vs ≠ []) :
    ∃ b, aabbOfPoints vs = .ok b ∧ TightOn b (hullSet vs) :=
  let ⟨b, h, s⟩ := hullAabb_spec vs hne; ⟨b, h, s.2⟩

/-- the empty vertex list is the only failure (`np.min` raises ValueError) -/
theorem hull_aabb_empty : aabbOfPoints ([] : List V) = .error .badInput := rfl

example : ∃ b, aabbOfPoints [(⟨0, 0, 0⟩ : V), ⟨1, 0, 2⟩, ⟨0, 3, -1⟩, ⟨1, 1, 1⟩] = .ok b ∧
    Encloses b (hullSet [⟨0, 0, 0⟩, ⟨1, 0, 2⟩, ⟨0, 3, -1⟩, ⟨1, 1, 1⟩]) :=
  hull_aabb_encloses _ (by simp)
example : ∃ b, aabbOfPoints [(⟨0, 0, 0⟩ : V), ⟨1, 0, 2⟩, ⟨0, 3, -1⟩, ⟨1, 1, 1⟩] = .ok b ∧
    TightOn b (hullSet [⟨0, 0, 0⟩, ⟨1, 0, 2⟩, ⟨0, 3, -1⟩, ⟨1, 1, 1⟩]) :=
  hull_aabb_tight _ (by simp)

/-- **MeshGraph.aabb encloses.** For every pose: the min/max over the posed vertices bounds
the posed hull of the mesh vertices. -/
theorem mesh_aabb_encloses (A : Pose ℝ) (vs : List V) (hne : vs ≠ []) :
    ∃ b, meshAabb A vs = .ok b ∧ Encloses b (poseImage A (hullSet vs)) :=
  let ⟨b, h, s⟩ := meshAabb_spec A vs hne; ⟨b, h, s.1⟩

/-- **MeshGraph.aabb tight.** -/
theorem mesh_aabb_tight (A : Pose ℝ) (vs : List V) (hne : vs ≠ []) :
    ∃ b, meshAabb A vs = .ok b ∧ TightOn b (poseImage A (hullSet vs)) :=
  let ⟨b, h, s⟩ := meshAabb_spec A vs hne; ⟨b, h, s.2⟩

example : ∃ b, meshAabb ⟨rot345, ⟨1, 2, 3⟩⟩ [⟨0, 0, 0⟩, ⟨1, 0, 2⟩, ⟨0, 3, -1⟩, ⟨1, 1, 1⟩] = .ok b ∧
    Encloses b (poseImage ⟨rot345, ⟨1, 2, 3⟩⟩ (hullSet [⟨0, 0, 0⟩, ⟨1, 0, 2⟩, ⟨0, 3, -1⟩, ⟨1, 1, 1⟩])) :=
  mesh_aabb_encloses _ _ (by simp)
example : ∃ b, meshAabb ⟨rot345, ⟨1, 2, 3⟩⟩ [⟨0, 0, 0⟩, ⟨1, 0, 2⟩, ⟨0, 3, -1⟩, ⟨1, 1, 1⟩] = .ok b ∧
    TightOn b (poseImage ⟨rot345, ⟨1, 2, 3⟩⟩ (hullSet [⟨0, 0, 0⟩, ⟨1, 0, 2⟩, ⟨0, 3, -1⟩, ⟨1, 1, 1⟩])) :=
  mesh_aabb_tight _ _ (by simp)

/-! ### margin -/

/-- **Margin.aabb encloses.** If `b` encloses `K` then `b` inflated by `m ≥ 0` encloses all
points within distance `m` of `K`. -/
theorem margin_aabb_encloses {b : Box ℝ} {K : V → Prop} {m : ℝ} (hm : 0 ≤ m)
    (h : Encloses b K) (ht : TightOn b K) : Encloses (inflate b m) (marginSet K m) :=
  (inflate_spec hm ⟨h, ht⟩).1

/-- **Margin.aabb tight.** If `b` is tight on `K`, the inflated box is tight on the margin
set (inflation by `m` is exactly the box of the Minkowski sum with the `m`-ball). -/
theorem margin_aabb_tight {b : Box ℝ} {K : V → Prop} {m : ℝ} (hm : 0 ≤ m)
    (h : Encloses b K) (ht : TightOn b K) : TightOn (inflate b m) (marginSet K m) :=
  (inflate_spec hm ⟨h, ht⟩).2

example : Encloses (inflate (sphereAabb ⟨1, -2, 3⟩ 2) (1 / 2)) (marginSet (ballSet ⟨1, -2, 3⟩ 2) (1 / 2)) :=
  margin_aabb_encloses (by norm_num) (sphere_aabb_encloses _ _ (by norm_num))
    (sphere_aabb_tight _ _ (by norm_num))
example : TightOn (inflate (sphereAabb ⟨1, -2, 3⟩ 2) (1 / 2)) (marginSet (ballSet ⟨1, -2, 3⟩ 2) (1 / 2)) :=
  margin_aabb_tight (by norm_num) (sphere_aabb_encloses _ _ (by norm_num))
    (sphere_aabb_tight _ _ (by norm_num))

/-! ### cylinder -/

/-- **cylinder_aabb encloses.** For every orthonormal pose and `radius, length ≥ 0` the
function returns `.ok b` — the arguments `1 - axis²` of `np.sqrt` are non-negative, so the
`sqrtNeg` branch is unreachable — and `b` encloses the cylinder. -/
theorem cylinder_aabb_encloses (A : Pose ℝ) (hR : Orthonormal A.R) {r l : ℝ} (hr : 0 ≤ r)
    (hl : 0 ≤ l) :
    ∃ b, cylinderAabb A r l = .ok b ∧ Encloses b (poseImage A (cylinderLocal r l)) :=
  let ⟨b, h, s⟩ := cylinderAabb_spec A hR hr hl; ⟨b, h, s.1⟩

/-- **cylinder_aabb tight.** -/
theorem cylinder_aabb_tight (A : Pose ℝ) (hR : Orthonormal A.R) {r l : ℝ} (hr : 0 ≤ r)
    (hl : 0 ≤ l) :
    ∃ b, cylinderAabb A r l = .ok b ∧ TightOn b (poseImage A (cylinderLocal r l)) :=
  let ⟨b, h, s⟩ := cylinderAabb_spec A hR hr hl; ⟨b, h, s.2⟩

example : ∃ b, cylinderAabb ⟨rot345, ⟨1, 2, 3⟩⟩ (1 / 2) 2 = .ok b ∧
    Encloses b (poseImage ⟨rot345, ⟨1, 2, 3⟩⟩ (cylinderLocal (1 / 2) 2)) :=
  cylinder_aabb_encloses _ rot345_orthonormal (by norm_num) (by norm_num)
example : ∃ b, cylinderAabb ⟨rot345, ⟨1, 2, 3⟩⟩ (1 / 2) 2 = .ok b ∧
    TightOn b (poseImage ⟨rot345, ⟨1, 2, 3⟩⟩ (cylinderLocal (1 / 2) 2)) :=
  cylinder_aabb_tight _ rot345_orthonormal (by norm_num) (by norm_num)

/-! ### capsule -/

/-- **capsule_aabb encloses.** -/
theorem capsule_aabb_encloses (A : Pose ℝ) (hR : Orthonormal A.R) {r h : ℝ} (hr : 0 ≤ r)
    (hh : 0 ≤ h) : Encloses (capsuleAabb A r h) (poseImage A (capsuleLocal r h)) :=
  (capsuleAabb_spec A hR hr hh).1

/-- **capsule_aabb tight.** -/
theorem capsule_aabb_tight (A : Pose ℝ) (hR : Orthonormal A.R) {r h : ℝ} (hr : 0 ≤ r)
    (hh : 0 ≤ h) : TightOn (capsuleAabb A r h) (poseImage A (capsuleLocal r h)) :=
  (capsuleAabb_spec A hR hr hh).2

example : Encloses (capsuleAabb ⟨rot345, ⟨1, 2, 3⟩⟩ (1 / 2) 2)
    (poseImage ⟨rot345, ⟨1, 2, 3⟩⟩ (capsuleLocal (1 / 2) 2)) :=
  capsule_aabb_encloses _ rot345_orthonormal (by norm_num) (by norm_num)
example : TightOn (capsuleAabb ⟨rot345, ⟨1, 2, 3⟩⟩ (1 / 2) 2)
    (poseImage ⟨rot345, ⟨1, 2, 3⟩⟩ (capsuleLocal (1 / 2) 2)) :=
  capsule_aabb_tight _ rot345_orthonormal (by norm_num) (by norm_num)

/-! ### disk -/

/-- **disk_aabb encloses.** For a unit normal the function returns `.ok b` (the arguments
`1 - normal²` of `np.sqrt` are non-negative) and `b` encloses the disk. -/
theorem disk_aabb_encloses (c : V) {r : ℝ} (hr : 0 ≤ r) (n : V) (hn : V3.dot n n = 1) :
    ∃ b, diskAabb c r n = .ok b ∧ Encloses b (diskSet c r n) :=
  let ⟨b, h, s⟩ := diskAabb_spec c hr n hn; ⟨b, h, s.1⟩

/-- **disk_aabb tight.** -/
theorem disk_aabb_tight (c : V) {r : ℝ} (hr : 0 ≤ r) (n : V) (hn : V3.dot n n = 1) :
    ∃ b, diskAabb c r n = .ok b ∧ TightOn b (diskSet c r n) :=
  let ⟨b, h, s⟩ := diskAabb_spec c hr n hn; ⟨b, h, s.2⟩

example : ∃ b, diskAabb ⟨1, 2, 3⟩ 2 ⟨3 / 5, 4 / 5, 0⟩ = .ok b ∧
    Encloses b (diskSet ⟨1, 2, 3⟩ 2 ⟨3 / 5, 4 / 5, 0⟩) :=
  disk_aabb_encloses _ (by norm_num) _ (by norm_num [V3.dot_def])
example : ∃ b, diskAabb ⟨1, 2, 3⟩ 2 ⟨3 / 5, 4 / 5, 0⟩ = .ok b ∧
    TightOn b (diskSet ⟨1, 2, 3⟩ 2 ⟨3 / 5, 4 / 5, 0⟩) :=
  disk_aabb_tight _ (by norm_num) _ (by norm_num [V3.dot_def])

/-! ### cone -/

/-- **cone_aabb encloses** (code after the repair d7ba656; the clamp `max(0, ·)` is inactive
for orthonormal poses). -/
theorem cone_aabb_encloses (A : Pose ℝ) (hR : Orthonormal A.R) {r : ℝ} (hr : 0 ≤ r) (h : ℝ) :
    Encloses (coneAabb A r h) (poseImage A (coneLocal r h)) := (coneAabb_spec A hR hr h).1

/-- **cone_aabb tight.** Each bound is attained by a rim point of the base or by the apex. -/
theorem cone_aabb_tight (A : Pose ℝ) (hR : Orthonormal A.R) {r : ℝ} (hr : 0 ≤ r) (h : ℝ) :
    TightOn (coneAabb A r h) (poseImage A (coneLocal r h)) := (coneAabb_spec A hR hr h).2

example : Encloses (coneAabb ⟨rot345, ⟨1, 2, 3⟩⟩ (1 / 2) 2)
    (poseImage ⟨rot345, ⟨1, 2, 3⟩⟩ (coneLocal (1 / 2) 2)) :=
  cone_aabb_encloses _ rot345_orthonormal (by norm_num) _
example : TightOn (coneAabb ⟨rot345, ⟨1, 2, 3⟩⟩ (1 / 2) 2)
    (poseImage ⟨rot345, ⟨1, 2, 3⟩⟩ (coneLocal (1 / 2) 2)) :=
  cone_aabb_tight _ rot345_orthonormal (by norm_num) _

/-- **cone_aabb before the repair d7ba656** (`a = pb - pa; e = sqrt(1 - a²/h²)`): at exact real
arithmetic it returns the same box as the repaired function, for every orthonormal pose and
`height ≠ 0`.  The NaN bounds the old code produced for axis-aligned cones (witness: identity
rotation, t = (0,0,0.1), radius 1, height 0.3) were a pure rounding defect — found by the
harness oracle, invisible to the real-arithmetic model. -/
theorem coneAabb_asIs_before_fix_eq_real (A : Pose ℝ) (hR : Orthonormal A.R) (r : ℝ) {h : ℝ}
    (hh : h ≠ 0) : coneAabb_asIs_before_fix A r h = .ok (coneAabb A r h) :=
  coneAabb_asIs_before_fix_eq A hR r hh

example : coneAabb_asIs_before_fix ⟨rot345, ⟨1, 2, 3⟩⟩ (1 / 2) 2 = .ok (coneAabb ⟨rot345, ⟨1, 2, 3⟩⟩ (1 / 2) 2) :=
  coneAabb_asIs_before_fix_eq_real _ rot345_orthonormal _ (by norm_num)

/-! ### ellipse -/

/-- **ellipse_aabb encloses** (any axes, any radii). -/
theorem ellipse_aabb_encloses (c a0 a1 : V) (r0 r1 : ℝ) :
    ∃ b, ellipseAabb c a0 a1 r0 r1 = .ok b ∧ Encloses b (ellipseSet c a0 a1 r0 r1) :=
  let ⟨b, h, s⟩ := ellipseAabb_spec c a0 a1 r0 r1; ⟨b, h, s.1⟩

/-- **ellipse_aabb tight.** -/
theorem ellipse_aabb_tight (c a0 a1 : V) (r0 r1 : ℝ) :
    ∃ b, ellipseAabb c a0 a1 r0 r1 = .ok b ∧ TightOn b (ellipseSet c a0 a1 r0 r1) :=
  let ⟨b, h, s⟩ := ellipseAabb_spec c a0 a1 r0 r1; ⟨b, h, s.2⟩

example : ∃ b, ellipseAabb ⟨1, 2, 3⟩ ⟨3 / 5, 4 / 5, 0⟩ ⟨-(4 / 5), 3 / 5, 0⟩ 2 1 = .ok b ∧
    Encloses b (ellipseSet ⟨1, 2, 3⟩ ⟨3 / 5, 4 / 5, 0⟩ ⟨-(4 / 5), 3 / 5, 0⟩ 2 1) :=
  ellipse_aabb_encloses _ _ _ _ _

/-! ### ellipsoid -/

/-- **ellipsoid, repaired variant, encloses** (every pose, all radii). -/
theorem ellipsoidAabb_fixed_encloses (A : Pose ℝ) (radii : V) :
    ∃ b, ellipsoidAabb_fixed A radii = .ok b ∧ Encloses b (poseImage A (ellipsoidLocal radii)) :=
  let ⟨b, h, s⟩ := ellipsoidAabb_fixed_spec A radii; ⟨b, h, s.1⟩

/-- **ellipsoid, repaired variant, tight.** -/
theorem ellipsoidAabb_fixed_tight (A : Pose ℝ) (radii : V) :
    ∃ b, ellipsoidAabb_fixed A radii = .ok b ∧ TightOn b (poseImage A (ellipsoidLocal radii)) :=
  let ⟨b, h, s⟩ := ellipsoidAabb_fixed_spec A radii; ⟨b, h, s.2⟩

example : ∃ b, ellipsoidAabb_fixed ⟨rot345, ⟨0, 0, 0⟩⟩ ⟨2, 1, 1⟩ = .ok b ∧
    Encloses b (poseImage ⟨rot345, ⟨0, 0, 0⟩⟩ (ellipsoidLocal ⟨2, 1, 1⟩)) :=
  ellipsoidAabb_fixed_encloses _ _

/-- **Known finding F-ellipsoid-aabb: `ellipsoid_aabb` as coded does not enclose.** For the
exactly orthonormal rational rotation about z by the 3-4-5 angle (cos = 3/5, sin = 4/5) and
radii (2, 1, 1) the code returns `.ok b` with upper x-bound 34/25 = 1.36, while the point
(36/25, 23/25, 0) = R·(8/5, -3/5, 0) lies on the ellipsoid and has x = 1.44 > 1.36
(the true half-extent is √2.08 ≈ 1.442). -/
theorem ellipsoidAabb_asIs_not_enclosing :
    ∃ b, ellipsoidAabb_asIs ⟨rot345, ⟨0, 0, 0⟩⟩ ⟨2, 1, 1⟩ = .ok b ∧ b.hi0 = 34 / 25 ∧
      poseImage ⟨rot345, ⟨0, 0, 0⟩⟩ (ellipsoidLocal ⟨2, 1, 1⟩) ⟨36 / 25, 23 / 25, 0⟩ ∧
      ¬ Encloses b (poseImage ⟨rot345, ⟨0, 0, 0⟩⟩ (ellipsoidLocal ⟨2, 1, 1⟩)) := by
  obtain ⟨b, hb, h0, hp, hlt⟩ := ellipsoidAabb_asIs_counterexample
  refine ⟨b, hb, h0, hp, fun he => ?_⟩
  have := (he _ hp).2.1
  linarith

/-- the witness pose is well-formed (orthonormal), so the counterexample is inside the
property's domain -/
example : Orthonormal rot345 := rot345_orthonormal

/-- **`ellipsoid_aabb` as coded, axis-aligned poses (partial).** For signed permutation
matrices (orthonormal, entries in {0, 1, -1}) and positive radii the code neither divides by
zero nor takes the root of a negative number, and its box encloses the ellipsoid and is tight. -/
theorem ellipsoidAabb_asIs_axis_aligned_partial (A : Pose ℝ) (hR : SignedPerm A.R) (radii : V)
    (hx : 0 < radii.x) (hy : 0 < radii.y) (hz : 0 < radii.z) :
    ∃ b, ellipsoidAabb_asIs A radii = .ok b ∧ Encloses b (poseImage A (ellipsoidLocal radii)) ∧
      TightOn b (poseImage A (ellipsoidLocal radii)) :=
  let ⟨b, h, s⟩ := ellipsoidAabb_asIs_axis_aligned_spec A hR radii hx hy hz; ⟨b, h, s.1, s.2⟩

/-- a signed permutation that is not the identity: x → y → z → x with a sign flip -/
example : SignedPerm (⟨⟨0, -1, 0⟩, ⟨0, 0, 1⟩, ⟨-1, 0, 0⟩⟩ : Mat) := by
  refine ⟨?_, ?_, ?_, ?_, ?_, ?_, ?_, ?_, ?_, ?_⟩
  · constructor <;> norm_num [V3.dot_def, M3.col0, M3.col1, M3.col2]
  all_goals simp [Trit]

/-! ### all colliders, Margin wrappers included -/

/-- **Collider.aabb (repaired ellipsoid function): encloses and tight, every collider.**
For every well-formed collider — sphere, vertex hull, box, mesh, capsule, ellipsoid,
cylinder, disk, ellipse, cone, and any nesting of `Margin` wrappers around one of them —
`aabb()` returns `.ok b`, every point of the collider lies within `b`, and each of the six
bounds is attained by a point of the collider. -/
theorem collider_aabb_spec (c : Collider ℝ) (h : c.WF) :
    ∃ b, c.aabb ellipsoidAabb_fixed = .ok b ∧ Encloses b c.pts ∧ TightOn b c.pts := by
  obtain ⟨b, hb, hs⟩ := collider_spec_of ellipsoidAabb_fixed (fun _ _ => True)
    (fun A radii _ _ _ _ _ => ellipsoidAabb_fixed_spec A radii) c h
    (by induction c with
      | margin inner m ih => exact ih h.1
      | _ => trivial)
  exact ⟨b, hb, hs.1, hs.2⟩

/-- **Collider.aabb as coded: encloses and tight, unless a rotated ellipsoid is involved.**
The same statement for the code as it is (`ellipsoidAabb_asIs`), for every well-formed
collider whose ellipsoid (if it contains one) has an axis-aligned pose. -/
theorem collider_aabb_spec_asIs (c : Collider ℝ) (h : c.WF)
    (hell : c.EllAll fun A _ => SignedPerm A.R) :
    ∃ b, c.aabb ellipsoidAabb_asIs = .ok b ∧ Encloses b c.pts ∧ TightOn b c.pts := by
  obtain ⟨b, hb, hs⟩ := collider_spec_of ellipsoidAabb_asIs (fun A _ => SignedPerm A.R)
    (fun A radii _ hx hy hz hp => ellipsoidAabb_asIs_axis_aligned_spec A hp radii hx hy hz) c h hell
  exact ⟨b, hb, hs.1, hs.2⟩

/-- **No error branch is reachable.** On every well-formed collider (rotated ellipsoids
included) the code as it is returns `.ok _`: the arguments of every `np.sqrt` are
non-negative, no divisor is zero, no reduction runs over an empty array. -/
theorem collider_aabb_asIs_total (c : Collider ℝ) (h : c.WF) :
    ∃ b, c.aabb ellipsoidAabb_asIs = .ok b := collider_asIs_total c h

example : (Collider.ellipsoid ⟨rot345, ⟨0, 0, 0⟩⟩ ⟨2, 1, 1⟩ : Collider ℝ).WF :=
  ⟨rot345_orthonormal, by norm_num, by norm_num, by norm_num⟩

/-- non-vacuity: a margin around a margin around a rotated cone is well-formed -/
example : (Collider.margin (.margin (.cone ⟨rot345, ⟨1, 2, 3⟩⟩ (1 / 2) 2) (1 / 4)) 0).WF ∧
    (Collider.margin (.margin (.cone ⟨rot345, ⟨1, 2, 3⟩⟩ (1 / 2) 2) (1 / 4)) 0).EllAll
      (fun A _ => SignedPerm A.R) :=
  ⟨⟨⟨⟨rot345_orthonormal, by norm_num, by norm_num⟩, by norm_num⟩, le_refl _⟩, trivial⟩

/-! ### consequence for the broad phase -/

/-- **intersect ⇒ AABBs overlap (sets).** Boxes that enclose two sets sharing a point pass the
closed-interval overlap test `aabb_overlap` of the AABB tree (C05). -/
theorem intersect_imp_aabbOverlap {b1 b2 : Box ℝ} {K1 K2 : V → Prop} (h1 : Encloses b1 K1)
    (h2 : Encloses b2 K2) {p : V} (hp1 : K1 p) (hp2 : K2 p) : Aabb.overlap b1 b2 = true :=
  overlap_of_common_point h1 h2 hp1 hp2

/-- **intersect ⇒ AABBs overlap (colliders).** Two well-formed colliders (with the repaired
ellipsoid function; or as coded when no rotated ellipsoid is involved, see
`colliders_intersect_imp_aabbOverlap_asIs`) that share a point have `aabb()` results that
overlap — the broad phase can never discard a real collision. -/
theorem colliders_intersect_imp_aabbOverlap (c1 c2 : Collider ℝ) (h1 : c1.WF) (h2 : c2.WF)
    {p : V} (hp1 : c1.pts p) (hp2 : c2.pts p) :
    ∃ b1 b2, c1.aabb ellipsoidAabb_fixed = .ok b1 ∧ c2.aabb ellipsoidAabb_fixed = .ok b2 ∧
      Aabb.overlap b1 b2 = true := by
  obtain ⟨b1, e1, s1, _⟩ := collider_aabb_spec c1 h1
  obtain ⟨b2, e2, s2, _⟩ := collider_aabb_spec c2 h2
  exact ⟨b1, b2, e1, e2, overlap_of_common_point s1 s2 hp1 hp2⟩

/-- the same for the code as it is -/
theorem colliders_intersect_imp_aabbOverlap_asIs (c1 c2 : Collider ℝ) (h1 : c1.WF) (h2 : c2.WF)
    (e1 : c1.EllAll fun A _ => SignedPerm A.R) (e2 : c2.EllAll fun A _ => SignedPerm A.R)
    {p : V} (hp1 : c1.pts p) (hp2 : c2.pts p) :
    ∃ b1 b2, c1.aabb ellipsoidAabb_asIs = .ok b1 ∧ c2.aabb ellipsoidAabb_asIs = .ok b2 ∧
      Aabb.overlap b1 b2 = true := by
  obtain ⟨b1, q1, s1, _⟩ := collider_aabb_spec_asIs c1 h1 e1
  obtain ⟨b2, q2, s2, _⟩ := collider_aabb_spec_asIs c2 h2 e2
  exact ⟨b1, b2, q1, q2, overlap_of_common_point s1 s2 hp1 hp2⟩

/-- two spheres touching in exactly one point -/
example : (Collider.sphere (⟨0, 0, 0⟩ : V) 1).pts ⟨1, 0, 0⟩ ∧ (Collider.sphere (⟨2, 0, 0⟩ : V) 1).pts ⟨1, 0, 0⟩ := by
  constructor <;> norm_num [Collider.pts, ballSet, V3.normSq_def]

/-! ### hydroelastic RigidBody -/

/-- **RigidBody.aabb (code after the repair f66b757) encloses.** For every pose
`body2origin_` the box bounds every stored vertex transformed to the world frame — and the
whole body, i.e. the posed convex hull of the vertices, which contains every tetrahedron. -/
theorem rigidBody_aabb_encloses (b : RigidBody ℝ) (hne : b.vertices.toList ≠ []) :
    ∃ box, b.aabb = .ok box ∧ Encloses box (· ∈ b.worldVertices) ∧
      Encloses box (poseImage b.body2origin (hullSet b.vertices.toList)) := by
  obtain ⟨box, h1, s1⟩ := rigidBodyAabb_vertices_spec b hne
  obtain ⟨box', h2, s2⟩ := rigidBodyAabb_body_spec b hne
  have : box' = box := by rw [h2] at h1; exact Except.ok.inj h1
  subst this
  exact ⟨box', h2, s1.1, s2.1⟩

/-- **RigidBody.aabb tight.** Each bound is attained by a world-frame vertex. -/
theorem rigidBody_aabb_tight (b : RigidBody ℝ) (hne : b.vertices.toList ≠ []) :
    ∃ box, b.aabb = .ok box ∧ TightOn box (· ∈ b.worldVertices) :=
  let ⟨box, h, s⟩ := rigidBodyAabb_vertices_spec b hne; ⟨box, h, s.2⟩

/-- **express_in does not move the body.** For an orthonormal new frame the world-frame
vertices, hence `aabb()`, are unchanged. -/
theorem rigidBody_expressIn_aabb (b : RigidBody ℝ) (new : Pose ℝ) (hn : Orthonormal new.R) :
    (b.expressIn new).worldVertices = b.worldVertices ∧ (b.expressIn new).aabb = b.aabb :=
  expressIn_aabb b new hn

example : ∃ box, shiftedTet.aabb = .ok box ∧ TightOn box (· ∈ shiftedTet.worldVertices) :=
  rigidBody_aabb_tight _ (by simp [shiftedTet])

/-- **Before the repair** (`aabb_tree.get_root_aabb()` over the stored vertices): for the unit
tetrahedron translated by (10,0,0) the old code returned `[0,1]³`, which does not contain
the world-frame vertex (10,0,0); the repaired code returns x-bounds `[10,11]`. -/
theorem rigidBodyAabb_asIs_before_fix_counterexample :
    shiftedTet.aabb_asIs_before_fix = .ok ⟨0, 1, 0, 1, 0, 1⟩ ∧
    (⟨10, 0, 0⟩ : V) ∈ shiftedTet.worldVertices ∧
    ¬ Encloses ⟨0, 1, 0, 1, 0, 1⟩ (· ∈ shiftedTet.worldVertices) ∧
    shiftedTet.aabb = .ok ⟨10, 11, 0, 1, 0, 1⟩ :=
  Containment.rigidBodyAabb_asIs_before_fix_counterexample

end C04
end D3
