/-
C10 — the primitive distance functions return points on their primitives, consistently
(and, for the line/plane family, C11-type global optimality).

Property theorems only (helper lemmas live in D3/Proofs/DistLine*.lean).  Everything is stated at
`α := ℝ` about the executable model `D3/Model/DistLine.lean` of `distance/_line.py` and
`distance/_plane.py`, with the **default** epsilon arguments (the regenerated constants
`D3.Gen.distance__…__epsilon`).  Per function `f`:

* `f_ok`    — for well-formed input the result is `.ok` (no division by zero in any branch; `sqrt` is only
              ever applied to `|·|` or to a sum of squares, so `sqrtNeg` cannot occur);
* `f_mem₁`, `f_mem₂` — the returned points lie in the respective point sets;
* `f_dist`  — `d² = |p₁ − p₂|²` and `d ≥ 0` (hence `d = 0 ⇒ p₁ = p₂`, see `zero_common`);
* `f_opt`   — `LowerBound K₁ K₂ d`: no pair of points of the two sets is closer than `d`
              (the epsilon bands "nearly but not exactly parallel" are excluded by explicit hypotheses).

Total functions (`point_to_line`, `point_to_plane`, `plane_to_plane`) have no `_ok` theorem: their model
does not return `Except` because they contain no division.
Repaired defect (/repo 4c5c535, was finding F-c10-plane-hull-swapped): `planeToHull_before_fix_band`,
`planeToTriangle_before_fix_counterexample` on the old forwarding `planeToHull_asIs_before_fix`; the current code
satisfies membership and consistency for every placement (`planeToHull_mem₁/mem₂/dist`, `planeTo…_feas`), only
the optimality statements keep the band hypothesis `HullNoBand`.
-/
import D3.Proofs.DistLineLine
import D3.Proofs.DistLineSegV
import D3.Proofs.DistLineShapes

namespace D3
namespace C10
open DistLine

/-! ### the default epsilons are positive and below 1 (re-proved against the regenerated constants) -/

theorem eps_ll : (0 : ℝ) < Gen.distance__line__line_to_line__epsilon := by
  unfold Gen.distance__line__line_to_line__epsilon; norm_num
theorem eps_ls : (0 : ℝ) < Gen.distance__line__line_to_line_segment__epsilon ∧
    (Gen.distance__line__line_to_line_segment__epsilon : ℝ) ≤ 1 := by
  unfold Gen.distance__line__line_to_line_segment__epsilon; norm_num
theorem eps_ss : (0 : ℝ) < Gen.distance__line__line_segment_to_line_segment__epsilon := by
  unfold Gen.distance__line__line_segment_to_line_segment__epsilon; norm_num
theorem eps_lp : (0 : ℝ) < Gen.distance__plane__line_to_plane__epsilon := by
  unfold Gen.distance__plane__line_to_plane__epsilon; norm_num
theorem eps_sp : (0 : ℝ) < Gen.distance__plane__line_segment_to_plane__epsilon := by
  unfold Gen.distance__plane__line_segment_to_plane__epsilon; norm_num
theorem eps_pp : (0 : ℝ) < Gen.distance__plane__plane_to_plane__epsilon := by
  unfold Gen.distance__plane__plane_to_plane__epsilon; norm_num

/-- **C10, consistency at zero (every function).** Whenever `d² = |p₁ − p₂|²` (the `_dist` theorems),
`d = 0` forces the two returned points to coincide — together with the `_mem` theorems this is a common
point of both primitives. -/
theorem zero_common {p₁ p₂ : V} {d : ℝ} (hd : d * d = V3.normSq (p₁ - p₂)) (h0 : d = 0) : p₁ = p₂ :=
  eq_of_dist_zero hd h0

example : (0 : ℝ) * 0 = V3.normSq ((⟨1, 2, 3⟩ : V) - ⟨1, 2, 3⟩) := by vsimp; norm_num

/-! ## point – line (`point_to_line`) -/

/-- the returned point lies on the line -/
theorem pointToLine_mem (p lp ld : V) : lineSet lp ld (pointToLine p lp ld).2 :=
  pointToLineK_mem p lp ld

/-- `d² = |p − q|²`, `d ≥ 0` -/
theorem pointToLine_dist (p lp ld : V) :
    (pointToLine p lp ld).1 * (pointToLine p lp ld).1 = V3.normSq (p - (pointToLine p lp ld).2) ∧
      0 ≤ (pointToLine p lp ld).1 :=
  pointToLineK_dist p lp ld

/-- global optimality for a unit direction -/
theorem pointToLine_opt (p lp ld : V) (hu : UnitVec ld) :
    LowerBound (pointSet p) (lineSet lp ld) (pointToLine p lp ld).1 :=
  pointToLineK_opt p lp ld hu

example : UnitVec (⟨0, 0.6, 0.8⟩ : V) := by unfold UnitVec; vsimp; norm_num

/-! ## point – segment (`point_to_line_segment`) -/

/-- a segment of non-zero length never divides by zero -/
theorem pointToSegment_ok (p a b : V) (h : a ≠ b) : ∃ r, pointToSegment p a b = .ok r :=
  DistLine.pointToSegment_ok h

/-- the returned point lies on the segment -/
theorem pointToSegment_mem {p a b : V} {r : PS ℝ} (h : pointToSegment p a b = .ok r) :
    segmentSet a b r.p := DistLine.pointToSegment_mem h

theorem pointToSegment_dist {p a b : V} {r : PS ℝ} (h : pointToSegment p a b = .ok r) :
    r.d * r.d = V3.normSq (p - r.p) ∧ 0 ≤ r.d := DistLine.pointToSegment_dist h

/-- the clamped projection is the global minimiser -/
theorem pointToSegment_opt {p a b : V} {r : PS ℝ} (h : pointToSegment p a b = .ok r) :
    LowerBound (pointSet p) (segmentSet a b) r.d := DistLine.pointToSegment_opt h

example : ∃ r, pointToSegment (⟨1, 2, 3⟩ : V) ⟨0, 0, 0⟩ ⟨1, 0, 0⟩ = .ok r :=
  pointToSegment_ok _ _ _ (by intro h; have := congrArg V3.x h; norm_num at this)

/-! ## line – line (`line_to_line`) -/

/-- `det = 1 − (d₁·d₂)²`, the quantity `_line_to_line` compares with `epsilon` -/
def parDet (d1 d2 : V) : ℝ := 1 - (V3.dot d1 d2) ^ 2

theorem llDet_eq (d1 d2 : V) : llDet d1 d2 = parDet d1 d2 := by unfold llDet parDet; ring

/-- never a division by zero, for any input (the non-parallel branch has `|det| ≥ epsilon > 0`) -/
theorem lineToLine_ok (lp1 ld1 lp2 ld2 : V) : ∃ r, lineToLine lp1 ld1 lp2 ld2 = .ok r :=
  lineToLineK_ok lp1 ld1 lp2 ld2 eps_ll

theorem lineToLine_mem₁ {lp1 ld1 lp2 ld2 : V} {r : Res ℝ} (h : lineToLine lp1 ld1 lp2 ld2 = .ok r) :
    lineSet lp1 ld1 r.p1 := lineToLineK_mem₁ h

theorem lineToLine_mem₂ {lp1 ld1 lp2 ld2 : V} {r : Res ℝ} (h : lineToLine lp1 ld1 lp2 ld2 = .ok r) :
    lineSet lp2 ld2 r.p2 := lineToLineK_mem₂ h

/-- the closed-form `sqrt(|dist_squared|)` is the distance of the returned points (unit directions) -/
theorem lineToLine_dist {lp1 ld1 lp2 ld2 : V} {r : Res ℝ} (h : lineToLine lp1 ld1 lp2 ld2 = .ok r)
    (hu1 : UnitVec ld1) (hu2 : UnitVec ld2) : r.d * r.d = V3.normSq (r.p1 - r.p2) ∧ 0 ≤ r.d :=
  lineToLineK_dist h hu1 hu2

/-- global optimality outside the band `0 < |det| < epsilon`: in the branch `|det| ≥ epsilon` the solution
is orthogonal to both directions; in the parallel branch exact parallelism is required -/
theorem lineToLine_opt {lp1 ld1 lp2 ld2 : V} {r : Res ℝ} (h : lineToLine lp1 ld1 lp2 ld2 = .ok r)
    (hu1 : UnitVec ld1) (hu2 : UnitVec ld2)
    (hband : (Gen.distance__line__line_to_line__epsilon : ℝ) ≤ |parDet ld1 ld2| ∨ parDet ld1 ld2 = 0) :
    LowerBound (lineSet lp1 ld1) (lineSet lp2 ld2) r.d := by
  rw [← llDet_eq] at hband
  exact lineToLineK_opt h hu1 hu2 hband

example : UnitVec (⟨1, 0, 0⟩ : V) ∧ UnitVec (⟨0, 0.6, 0.8⟩ : V) ∧
    (Gen.distance__line__line_to_line__epsilon : ℝ) ≤ |parDet (⟨1, 0, 0⟩ : V) ⟨0, 0.6, 0.8⟩| := by
  unfold UnitVec parDet Gen.distance__line__line_to_line__epsilon
  refine ⟨by vsimp; norm_num, by vsimp; norm_num, ?_⟩
  vsimp; norm_num
example : parDet (⟨0, 0.6, 0.8⟩ : V) ⟨0, -0.6, -0.8⟩ = 0 := by unfold parDet; vsimp; norm_num

/-! ## line – segment (`line_to_line_segment`) -/

theorem ls_nondeg {ld s0 s1 : V} (hu : UnitVec ld) :
    ¬(V3.dot (s1 - s0) (s1 - s0) < (Gen.distance__line__line_to_line_segment__epsilon : ℝ) ∧
      V3.dot ld ld < (Gen.distance__line__line_to_line_segment__epsilon : ℝ)) := by
  unfold UnitVec at hu
  rintro ⟨_, h⟩
  rw [hu] at h
  linarith [eps_ls.2]

/-- never a division by zero, for any input -/
theorem lineToSegment_ok (lp ld s0 s1 : V) : ∃ r, lineToSegment lp ld s0 s1 = .ok r :=
  lineToSegmentK_ok lp ld s0 s1 eps_ls.1

theorem lineToSegment_mem₁ {lp ld s0 s1 : V} {r : Res ℝ} (h : lineToSegment lp ld s0 s1 = .ok r)
    (hu : UnitVec ld) : lineSet lp ld r.p1 := lineToSegmentK_mem₁ h (ls_nondeg hu)

theorem lineToSegment_mem₂ {lp ld s0 s1 : V} {r : Res ℝ} (h : lineToSegment lp ld s0 s1 = .ok r)
    (hu : UnitVec ld) : segmentSet s0 s1 r.p2 := lineToSegmentK_mem₂ h (ls_nondeg hu)

theorem lineToSegment_dist {lp ld s0 s1 : V} {r : Res ℝ} (h : lineToSegment lp ld s0 s1 = .ok r)
    (hu : UnitVec ld) : r.d * r.d = V3.normSq (r.p1 - r.p2) ∧ 0 ≤ r.d :=
  lineToSegmentK_dist h (ls_nondeg hu)

/-- global optimality for every segment that the code does not treat as a point
(`|s₁ − s₀|² ≥ epsilon`, i.e. length ≥ 1e-3; the domain P has lengths ≥ 0.2); the exact test
`denom != 0` leaves no band -/
theorem lineToSegment_opt {lp ld s0 s1 : V} {r : Res ℝ} (h : lineToSegment lp ld s0 s1 = .ok r)
    (hu : UnitVec ld)
    (hlen : (Gen.distance__line__line_to_line_segment__epsilon : ℝ) ≤ V3.normSq (s1 - s0)) :
    LowerBound (lineSet lp ld) (segmentSet s0 s1) r.d := by
  apply lineToSegmentK_opt h eps_ls.1 hlen
  unfold UnitVec at hu
  rw [hu]
  unfold Gen.distance__line__line_to_line_segment__epsilon; norm_num

example : UnitVec (⟨0, 1, 0⟩ : V) ∧
    (Gen.distance__line__line_to_line_segment__epsilon : ℝ) ≤ V3.normSq ((⟨1, 2, 0.5⟩ : V) - ⟨0, 0, 0⟩) := by
  unfold UnitVec Gen.distance__line__line_to_line_segment__epsilon
  exact ⟨by vsimp; norm_num, by vsimp; norm_num⟩

/-! ## segment – segment (`line_segment_to_line_segment`) -/

/-- never a division by zero for **any** two segments, degenerate ones included -/
theorem segToSeg_ok (a0 a1 b0 b1 : V) : ∃ r, segToSeg a0 a1 b0 b1 = .ok r :=
  segToSegK_ok a0 a1 b0 b1 eps_ss

theorem segToSeg_mem₁ {a0 a1 b0 b1 : V} {r : Res ℝ} (h : segToSeg a0 a1 b0 b1 = .ok r) :
    segmentSet a0 a1 r.p1 := (segToSegK_mem h eps_ss).1

theorem segToSeg_mem₂ {a0 a1 b0 b1 : V} {r : Res ℝ} (h : segToSeg a0 a1 b0 b1 = .ok r) :
    segmentSet b0 b1 r.p2 := (segToSegK_mem h eps_ss).2

theorem segToSeg_dist {a0 a1 b0 b1 : V} {r : Res ℝ} (h : segToSeg a0 a1 b0 b1 = .ok r) :
    r.d * r.d = V3.normSq (r.p1 - r.p2) ∧ 0 ≤ r.d := segToSegK_dist h

/-- **Ericson's clamping is globally optimal**: the returned parameters are the KKT point of the convex
quadratic `|r + s·d₁ − t·d₂|²` on the unit square, for all segments the code does not treat as points -/
theorem segToSeg_opt {a0 a1 b0 b1 : V} {r : Res ℝ} (h : segToSeg a0 a1 b0 b1 = .ok r)
    (hlen1 : (Gen.distance__line__line_segment_to_line_segment__epsilon : ℝ) ≤ V3.normSq (a1 - a0))
    (hlen2 : (Gen.distance__line__line_segment_to_line_segment__epsilon : ℝ) < V3.normSq (b1 - b0)) :
    LowerBound (segmentSet a0 a1) (segmentSet b0 b1) r.d :=
  segToSegK_opt h eps_ss hlen1 hlen2

example : (Gen.distance__line__line_segment_to_line_segment__epsilon : ℝ)
      ≤ V3.normSq ((⟨1, 0, 0⟩ : V) - ⟨0, 0, 0⟩) ∧
    (Gen.distance__line__line_segment_to_line_segment__epsilon : ℝ)
      < V3.normSq ((⟨2, 0, 1⟩ : V) - ⟨0.5, 0, 1⟩) := by
  unfold Gen.distance__line__line_segment_to_line_segment__epsilon
  exact ⟨by vsimp; norm_num, by vsimp; norm_num⟩

/-! ## point – plane (`point_to_plane`) -/

theorem pointToPlane_mem (p pp n : V) (hu : UnitVec n) : planeSet pp n (pointToPlane p pp n).2 :=
  DistLine.pointToPlane_mem p pp n hu

theorem pointToPlane_dist (p pp n : V) (hu : UnitVec n) :
    (pointToPlane p pp n).1 * (pointToPlane p pp n).1 = V3.normSq (p - (pointToPlane p pp n).2) ∧
      0 ≤ (pointToPlane p pp n).1 := DistLine.pointToPlane_dist p pp n hu

theorem pointToPlane_opt (p pp n : V) (hu : UnitVec n) :
    LowerBound (pointSet p) (planeSet pp n) (pointToPlane p pp n).1 :=
  DistLine.pointToPlane_opt p pp n hu

example : UnitVec (⟨0.8, 0, -0.6⟩ : V) := by unfold UnitVec; vsimp; norm_num

/-! ## line – plane (`line_to_plane`) -/

/-- never a division by zero: the intersecting branch has `(ld·n)² ≥ epsilon > 0` -/
theorem lineToPlane_ok (lp ld pp n : V) : ∃ r, lineToPlane lp ld pp n = .ok r :=
  lineToPlaneE_ok lp ld pp n eps_lp

theorem lineToPlane_mem₁ {lp ld pp n : V} {r : Res3 ℝ} (h : lineToPlane lp ld pp n = .ok r) :
    lineSet lp ld r.p1 := lineToPlaneE_mem₁ h

theorem lineToPlane_mem₂ {lp ld pp n : V} {r : Res3 ℝ} (h : lineToPlane lp ld pp n = .ok r)
    (hu : UnitVec n) : planeSet pp n r.p2 := lineToPlaneE_mem₂ h hu

theorem lineToPlane_dist {lp ld pp n : V} {r : Res3 ℝ} (h : lineToPlane lp ld pp n = .ok r)
    (hu : UnitVec n) : r.d * r.d = V3.normSq (r.p1 - r.p2) ∧ 0 ≤ r.d := lineToPlaneE_dist h hu

/-- global optimality outside the band `0 < (ld·n)² < epsilon` -/
theorem lineToPlane_opt {lp ld pp n : V} {r : Res3 ℝ} (h : lineToPlane lp ld pp n = .ok r) (hu : UnitVec n)
    (hband : (Gen.distance__plane__line_to_plane__epsilon : ℝ) ≤ V3.dot ld n * V3.dot ld n ∨
      V3.dot ld n = 0) :
    LowerBound (lineSet lp ld) (planeSet pp n) r.d := lineToPlaneE_opt h hu hband

example : UnitVec (⟨0, 0, 1⟩ : V) ∧ V3.dot (⟨0.6, 0.8, 0⟩ : V) ⟨0, 0, 1⟩ = 0 := by
  unfold UnitVec; exact ⟨by vsimp; norm_num, by vsimp; norm_num⟩
example : (Gen.distance__plane__line_to_plane__epsilon : ℝ)
    ≤ V3.dot (⟨0.6, 0, 0.8⟩ : V) ⟨0, 0, 1⟩ * V3.dot (⟨0.6, 0, 0.8⟩ : V) ⟨0, 0, 1⟩ := by
  unfold Gen.distance__plane__line_to_plane__epsilon; vsimp; norm_num

/-! ## segment – plane (`line_segment_to_plane`) -/

theorem segToPlane_ok (s0 s1 pp n : V) : ∃ r, segToPlane s0 s1 pp n = .ok r :=
  segToPlaneK_ok s0 s1 pp n eps_sp

theorem segToPlane_mem₁ {s0 s1 pp n : V} {r : Res3 ℝ} (h : segToPlane s0 s1 pp n = .ok r) :
    segmentSet s0 s1 r.p1 := segToPlaneK_mem₁ h

theorem segToPlane_mem₂ {s0 s1 pp n : V} {r : Res3 ℝ} (h : segToPlane s0 s1 pp n = .ok r)
    (hu : UnitVec n) : planeSet pp n r.p2 := segToPlaneK_mem₂ h hu

theorem segToPlane_dist {s0 s1 pp n : V} {r : Res3 ℝ} (h : segToPlane s0 s1 pp n = .ok r)
    (hu : UnitVec n) : r.d * r.d = V3.normSq (r.p1 - r.p2) ∧ 0 ≤ r.d := segToPlaneK_dist h hu

/-- global optimality outside the band; `(segmentToLine s0 s1).1` is the normalised segment direction
computed by `convert_segment_to_line` -/
theorem segToPlane_opt {s0 s1 pp n : V} {r : Res3 ℝ} (h : segToPlane s0 s1 pp n = .ok r) (hu : UnitVec n)
    (hband : (Gen.distance__plane__line_segment_to_plane__epsilon : ℝ)
        ≤ V3.dot (segmentToLine s0 s1).1 n * V3.dot (segmentToLine s0 s1).1 n ∨
      V3.dot (segmentToLine s0 s1).1 n = 0) :
    LowerBound (segmentSet s0 s1) (planeSet pp n) r.d := segToPlaneK_opt h hu hband

/-- the band hypothesis in terms of the end points: `(dir·n)² |s₁ − s₀|² = ((s₁ − s₀)·n)²` -/
theorem segToPlane_band_iff (s0 s1 n : V) :
    V3.dot (segmentToLine s0 s1).1 n * V3.dot (segmentToLine s0 s1).1 n * V3.normSq (s1 - s0)
      = V3.dot (s1 - s0) n * V3.dot (s1 - s0) n := segmentToLine_sin s0 s1 n

example : V3.dot (segmentToLine (⟨0, 0, 1⟩ : V) ⟨2, 0, 1⟩).1 ⟨0, 0, 1⟩ = 0 := by
  have h := segToPlane_band_iff (⟨0, 0, 1⟩ : V) ⟨2, 0, 1⟩ ⟨0, 0, 1⟩
  have e1 : V3.normSq ((⟨2, 0, 1⟩ : V) - ⟨0, 0, 1⟩) = 4 := by vsimp; norm_num
  have e2 : V3.dot ((⟨2, 0, 1⟩ : V) - ⟨0, 0, 1⟩) ⟨0, 0, 1⟩ = 0 := by vsimp; norm_num
  rw [e1, e2] at h
  have : V3.dot (segmentToLine (⟨0, 0, 1⟩ : V) ⟨2, 0, 1⟩).1 ⟨0, 0, 1⟩
      * V3.dot (segmentToLine (⟨0, 0, 1⟩ : V) ⟨2, 0, 1⟩).1 ⟨0, 0, 1⟩ = 0 := by linarith
  exact mul_self_eq_zero.mp this

/-! ## plane – plane (`plane_to_plane`) -/

theorem planeToPlane_mem₁ (pp1 n1 pp2 n2 : V) : planeSet pp1 n1 (planeToPlane pp1 n1 pp2 n2).p1 :=
  planeToPlaneE_mem₁ pp1 n1 pp2 n2 (le_of_lt eps_pp)

theorem planeToPlane_mem₂ (pp1 n1 pp2 n2 : V) (hu2 : UnitVec n2) :
    planeSet pp2 n2 (planeToPlane pp1 n1 pp2 n2).p2 :=
  planeToPlaneE_mem₂ pp1 n1 pp2 n2 (le_of_lt eps_pp) hu2

theorem planeToPlane_dist (pp1 n1 pp2 n2 : V) (hu2 : UnitVec n2) :
    (planeToPlane pp1 n1 pp2 n2).d * (planeToPlane pp1 n1 pp2 n2).d
      = V3.normSq ((planeToPlane pp1 n1 pp2 n2).p1 - (planeToPlane pp1 n1 pp2 n2).p2) ∧
    0 ≤ (planeToPlane pp1 n1 pp2 n2).d := planeToPlaneE_dist pp1 n1 pp2 n2 _ hu2

/-- global optimality outside the band `0 < |n₁ × n₂| ≤ epsilon` -/
theorem planeToPlane_opt (pp1 n1 pp2 n2 : V) (hu1 : UnitVec n1) (hu2 : UnitVec n2)
    (hband : (Gen.distance__plane__plane_to_plane__epsilon : ℝ) < V3.norm (V3.cross n1 n2) ∨
      V3.cross n1 n2 = ⟨0, 0, 0⟩) :
    LowerBound (planeSet pp1 n1) (planeSet pp2 n2) (planeToPlane pp1 n1 pp2 n2).d :=
  planeToPlaneE_opt pp1 n1 pp2 n2 _ hu1 hu2 hband

example : UnitVec (⟨0, 0, 1⟩ : V) ∧ UnitVec (⟨0, 0, -1⟩ : V) ∧
    V3.cross (⟨0, 0, 1⟩ : V) ⟨0, 0, -1⟩ = ⟨0, 0, 0⟩ := by
  unfold UnitVec
  refine ⟨by vsimp; norm_num, by vsimp; norm_num, ?_⟩
  apply V3.ext' <;> simp [V3.cross]

/-! ## plane – convex hull of points (`_plane_to_convex_hull_points`; `plane_to_triangle`,
`plane_to_rectangle`, `plane_to_box` call it with their vertex lists) -/

/-- a non-empty vertex list never fails -/
theorem planeToHull_ok (pp n : V) (pts : List V) (hne : pts ≠ []) : ∃ r, planeToHull pp n pts = .ok r :=
  DistLine.planeToHull_ok pp n pts hne

/-- first point on the plane — for **every** placement (no band hypothesis) -/
theorem planeToHull_mem₁ {pp n : V} {pts : List V} {r : Res3 ℝ} (h : planeToHull pp n pts = .ok r)
    (hne : pts ≠ []) (hu : UnitVec n) : planeSet pp n r.p1 := (planeToHull_feas h hne hu).1

/-- second point in the convex hull of the vertices — for every placement -/
theorem planeToHull_mem₂ {pp n : V} {pts : List V} {r : Res3 ℝ} (h : planeToHull pp n pts = .ok r)
    (hne : pts ≠ []) (hu : UnitVec n) : Hull pts r.p2 := (planeToHull_feas h hne hu).2.1

theorem planeToHull_dist {pp n : V} {pts : List V} {r : Res3 ℝ} (h : planeToHull pp n pts = .ok r)
    (hne : pts ≠ []) (hu : UnitVec n) :
    r.d * r.d = V3.normSq (r.p1 - r.p2) ∧ 0 ≤ r.d := (planeToHull_feas h hne hu).2.2

/-- global optimality against the whole convex hull, outside the band (`HullNoBand`) -/
theorem planeToHull_opt {pp n : V} {pts : List V} {r : Res3 ℝ} (h : planeToHull pp n pts = .ok r)
    (hne : pts ≠ []) (hu : UnitVec n) (hband : HullNoBand pp n pts) :
    LowerBound (planeSet pp n) (Hull pts) r.d := (planeToHull_spec h hne hu hband).2.2.2

/-- `plane_to_triangle`, `plane_to_rectangle`, `plane_to_box` never fail (their vertex lists have 3, 4, 8 entries) -/
theorem planeToTriangle_ok (pp n A B C : V) : ∃ r, planeToTriangle pp n A B C = .ok r :=
  planeToHull_ok pp n [A, B, C] (by simp)
theorem planeToRectangle_ok (pp n c ax0 ax1 : V) (l0 l1 : ℝ) :
    ∃ r, planeToRectangle pp n c ax0 ax1 l0 l1 = .ok r :=
  planeToHull_ok pp n _ (by simp [rectVertices, rectCoords])
theorem planeToBox_ok (pp n : V) (A : Pose ℝ) (size : V) : ∃ r, planeToBox pp n A size = .ok r :=
  planeToHull_ok pp n _ (by simp [boxVertices, boxCoords])

/-- **`plane_to_triangle`, every placement**: point on the plane, point in the triangle (barycentric
definition), consistent distance -/
theorem planeToTriangle_feas {pp n A B C : V} {r : Res3 ℝ} (h : planeToTriangle pp n A B C = .ok r)
    (hu : UnitVec n) :
    planeSet pp n r.p1 ∧ triangleSet A B C r.p2 ∧ (r.d * r.d = V3.normSq (r.p1 - r.p2) ∧ 0 ≤ r.d) := by
  obtain ⟨h1, h2, h3⟩ := planeToHull_feas h (by simp) hu
  exact ⟨h1, (hull_triangle A B C _).mp h2, h3⟩

/-- **`plane_to_rectangle`, every placement**, for positive side lengths -/
theorem planeToRectangle_feas {pp n c ax0 ax1 : V} {l0 l1 : ℝ} {r : Res3 ℝ}
    (h : planeToRectangle pp n c ax0 ax1 l0 l1 = .ok r) (hu : UnitVec n) (h0 : 0 < l0) (h1 : 0 < l1) :
    planeSet pp n r.p1 ∧ rectSet c ax0 ax1 l0 l1 r.p2 ∧ (r.d * r.d = V3.normSq (r.p1 - r.p2) ∧ 0 ≤ r.d) := by
  obtain ⟨m1, m2, m3⟩ := planeToHull_feas h (by simp [rectVertices, rectCoords]) hu
  exact ⟨m1, (hull_rect c ax0 ax1 l0 l1 h0 h1 _).mp m2, m3⟩

/-- **`plane_to_box`, every placement**, for positive edge lengths -/
theorem planeToBox_feas {pp n : V} {A : Pose ℝ} {size : V} {r : Res3 ℝ}
    (h : planeToBox pp n A size = .ok r) (hu : UnitVec n)
    (hx : 0 < size.x) (hy : 0 < size.y) (hz : 0 < size.z) :
    planeSet pp n r.p1 ∧ boxSet A size r.p2 ∧ (r.d * r.d = V3.normSq (r.p1 - r.p2) ∧ 0 ≤ r.d) := by
  obtain ⟨m1, m2, m3⟩ := planeToHull_feas h (by simp [boxVertices, boxCoords]) hu
  exact ⟨m1, (hull_box A size hx hy hz _).mp m2, m3⟩

/-- **tail of `plane_to_ellipsoid` / `plane_to_cylinder`, every placement**: for two points `pm pq` of a convex
body `K` the result is a point on the plane, a point of `K`, at the reported distance -/
theorem planeToSupportPair_feas {pp n pm pq : V} {K : V → Prop} {r : Res3 ℝ}
    (h : planeToSupportPair pp n pm pq = .ok r) (hu : UnitVec n) (hc : ConvexSet K) (hm : K pm) (hq : K pq) :
    planeSet pp n r.p1 ∧ K r.p2 ∧ (r.d * r.d = V3.normSq (r.p1 - r.p2) ∧ 0 ≤ r.d) :=
  DistLine.planeToSupportPair_feas h hu hc hm hq

/-- on the witness of the repaired finding the current code is feasible (and the old code was not:
`planeToTriangle_before_fix_counterexample`) -/
example : ∃ r, planeToTriangle (⟨0, 0, 0⟩ : V) ⟨0, 0, 1⟩ ⟨0, 0, -(1 / 4096)⟩ ⟨1, 0, 1 / 4096⟩ ⟨0, 1, 1 / 4096⟩
      = .ok r ∧ planeSet (⟨0, 0, 0⟩ : V) ⟨0, 0, 1⟩ r.p1 ∧
      triangleSet (⟨0, 0, -(1 / 4096)⟩ : V) ⟨1, 0, 1 / 4096⟩ ⟨0, 1, 1 / 4096⟩ r.p2 := by
  obtain ⟨r, hr⟩ := planeToTriangle_ok (⟨0, 0, 0⟩ : V) ⟨0, 0, 1⟩ ⟨0, 0, -(1 / 4096)⟩ ⟨1, 0, 1 / 4096⟩ ⟨0, 1, 1 / 4096⟩
  have := planeToTriangle_feas hr (by unfold UnitVec; vsimp; norm_num)
  exact ⟨r, hr, this.1, this.2.1⟩

/-- **`plane_to_triangle`** outside the band: point on the plane, point in the triangle (barycentric
definition), consistent distance, global optimality against the whole triangle -/
theorem planeToTriangle_spec {pp n A B C : V} {r : Res3 ℝ} (h : planeToTriangle pp n A B C = .ok r)
    (hu : UnitVec n) (hband : HullNoBand pp n [A, B, C]) :
    planeSet pp n r.p1 ∧ triangleSet A B C r.p2 ∧ (r.d * r.d = V3.normSq (r.p1 - r.p2) ∧ 0 ≤ r.d) ∧
      LowerBound (planeSet pp n) (triangleSet A B C) r.d := by
  obtain ⟨h1, h2, h3, h4⟩ := planeToHull_spec h (by simp) hu hband
  exact ⟨h1, (hull_triangle A B C _).mp h2, h3,
    fun x hx y hy => h4 x hx y ((hull_triangle A B C y).mpr hy)⟩

/-- **`plane_to_rectangle`** outside the band, for positive side lengths -/
theorem planeToRectangle_spec {pp n c ax0 ax1 : V} {l0 l1 : ℝ} {r : Res3 ℝ}
    (h : planeToRectangle pp n c ax0 ax1 l0 l1 = .ok r) (hu : UnitVec n) (h0 : 0 < l0) (h1 : 0 < l1)
    (hband : HullNoBand pp n (rectVertices c ax0 ax1 l0 l1)) :
    planeSet pp n r.p1 ∧ rectSet c ax0 ax1 l0 l1 r.p2 ∧ (r.d * r.d = V3.normSq (r.p1 - r.p2) ∧ 0 ≤ r.d) ∧
      LowerBound (planeSet pp n) (rectSet c ax0 ax1 l0 l1) r.d := by
  obtain ⟨m1, m2, m3, m4⟩ := planeToHull_spec h (by simp [rectVertices, rectCoords]) hu hband
  exact ⟨m1, (hull_rect c ax0 ax1 l0 l1 h0 h1 _).mp m2, m3,
    fun x hx y hy => m4 x hx y ((hull_rect c ax0 ax1 l0 l1 h0 h1 y).mpr hy)⟩

/-- **`plane_to_box`** outside the band, for positive edge lengths (no orthonormality of the pose is needed:
the statement is about the image of the local box under `x ↦ R x + t`) -/
theorem planeToBox_spec {pp n : V} {A : Pose ℝ} {size : V} {r : Res3 ℝ}
    (h : planeToBox pp n A size = .ok r) (hu : UnitVec n)
    (hx : 0 < size.x) (hy : 0 < size.y) (hz : 0 < size.z)
    (hband : HullNoBand pp n (boxVertices A size)) :
    planeSet pp n r.p1 ∧ boxSet A size r.p2 ∧ (r.d * r.d = V3.normSq (r.p1 - r.p2) ∧ 0 ≤ r.d) ∧
      LowerBound (planeSet pp n) (boxSet A size) r.d := by
  obtain ⟨m1, m2, m3, m4⟩ := planeToHull_spec h (by simp [boxVertices, boxCoords]) hu hband
  exact ⟨m1, (hull_box A size hx hy hz _).mp m2, m3,
    fun x hx' y hy' => m4 x hx' y ((hull_box A size hx hy hz y).mpr hy')⟩

/-- **tail of `plane_to_ellipsoid` / `plane_to_cylinder`**: `_plane_to_convex_hull_points` applied to the two
support points of a convex body `K` in the directions `∓n` (that the support functions do return support
points of the solid ellipsoid / cylinder is C03: `C03.ellipsoid_support`, `C03.cylinder_support`).
Outside the band: point on the plane, point in `K`, consistent distance, optimal against all of `K`. -/
theorem planeToSupportPair_spec {pp n pm pq : V} {K : V → Prop} {r : Res3 ℝ}
    (h : planeToSupportPair pp n pm pq = .ok r) (hu : UnitVec n) (hc : ConvexSet K)
    (hm : IsSupport K (-n) pm) (hq : IsSupport K n pq) (hband : HullNoBand pp n [pm, pq]) :
    planeSet pp n r.p1 ∧ K r.p2 ∧ (r.d * r.d = V3.normSq (r.p1 - r.p2) ∧ 0 ≤ r.d) ∧
      LowerBound (planeSet pp n) K r.d :=
  DistLine.planeToSupportPair_spec h hu hc hm hq hband

theorem planeToSupportPair_ok (pp n pm pq : V) : ∃ r, planeToSupportPair pp n pm pq = .ok r :=
  planeToHull_ok pp n [pm, pq] (by simp)

/-- non-vacuity: the segment `K` from `(0,0,1)` to `(0,0,3)` is convex with support points at its ends -/
example : ConvexSet (segmentSet (⟨0, 0, 1⟩ : V) ⟨0, 0, 3⟩) ∧
    IsSupport (segmentSet (⟨0, 0, 1⟩ : V) ⟨0, 0, 3⟩) (-(⟨0, 0, 1⟩ : V)) ⟨0, 0, 1⟩ ∧
    IsSupport (segmentSet (⟨0, 0, 1⟩ : V) ⟨0, 0, 3⟩) ⟨0, 0, 1⟩ ⟨0, 0, 3⟩ := by
  refine ⟨?_, ⟨⟨0, le_refl _, zero_le_one, by apply V3.ext' <;> simp⟩, ?_⟩,
    ⟨⟨1, zero_le_one, le_refl _, by apply V3.ext' <;> simp <;> norm_num⟩, ?_⟩⟩
  · rintro x y t ⟨a, a0, a1, rfl⟩ ⟨b, b0, b1, rfl⟩ h0 h1
    refine ⟨(1 - t) * a + t * b, by nlinarith, by nlinarith, ?_⟩
    apply V3.ext' <;> simp <;> ring
  · rintro x ⟨a, a0, a1, rfl⟩
    vsimp; norm_num; nlinarith
  · rintro x ⟨a, a0, a1, rfl⟩
    vsimp; norm_num; nlinarith

/-- non-vacuity of `HullNoBand`: a triangle strictly above the plane has no straddling pair at all -/
example : HullNoBand (⟨0, 0, 0⟩ : V) ⟨0, 0, 1⟩ [⟨0, 0, 1⟩, ⟨1, 0, 1⟩, ⟨0, 1, 2⟩] := by
  intro p hp q _ hpn _
  exfalso
  simp only [List.mem_cons, List.mem_nil_iff, or_false] at hp
  rcases hp with rfl | rfl | rfl <;> revert hpn <;> vsimp <;> norm_num

/-- **Defect of the code before /repo 4c5c535** (finding F-c10-plane-hull-swapped, repaired): inside the band the
old forwarding returned a vertex strictly below the plane as "closest point on the plane". -/
theorem planeToHull_before_fix_band {pp n : V} {pts : List V} {r : Res3 ℝ}
    (h : planeToHull_asIs_before_fix pp n pts = .ok r)
    (hex : ∃ p ∈ pts, ∃ q ∈ pts, V3.dot (p - pp) n < 0 ∧ 0 < V3.dot (q - pp) n)
    (hall : ∀ p ∈ pts, ∀ q ∈ pts, V3.dot (p - pp) n < 0 → 0 < V3.dot (q - pp) n →
      V3.dot (segmentToLine p q).1 n * V3.dot (segmentToLine p q).1 n < 1e-6) :
    ¬ planeSet pp n r.p1 ∧ 0 < r.d ∧ r.br = 3 := DistLine.planeToHull_before_fix_band h hex hall

/-- concrete counterexample for the old code in the primitive domain P (triangle with edges ≈ 1 crossing the
plane at 0.03°): the point returned as "closest point on the plane" was not on the plane; kept as a regression
witness of the harness -/
theorem planeToTriangle_before_fix_counterexample :
    ∃ r, planeToTriangle_asIs_before_fix (⟨0, 0, 0⟩ : V) ⟨0, 0, 1⟩ ⟨0, 0, -(1 / 4096)⟩ ⟨1, 0, 1 / 4096⟩
        ⟨0, 1, 1 / 4096⟩ = .ok r ∧
      ¬ planeSet (⟨0, 0, 0⟩ : V) ⟨0, 0, 1⟩ r.p1 ∧ 0 < r.d :=
  DistLine.planeToTriangle_before_fix_counterexample

end C10
end D3
