import D3.Model.AabbTree
import D3.Driver.Codec

namespace D3.Drv05
open D3 D3.Aabb

scalar_variables
variable [Codec α]

def pBox : P (Box α) := do
  let a ← pScalar; let b ← pScalar; let c ← pScalar
  let d ← pScalar; let e ← pScalar; let f ← pScalar
  pure ⟨a, b, c, d, e, f⟩

def rBox (b : Box α) : String := rScalars [b.lo0, b.hi0, b.lo1, b.hi1, b.lo2, b.hi2]

def pMode : P Mode := do
  match (← pNat) with
  | 0 => pure .none | 1 => pure .sort | 2 => pure .shuffle
  | _ => throw "mode"

structure InsOp (α : Type) where
  mode : Mode
  boxes : List (Box α)
  ext : Option (List Nat)
  perm : List Nat

def pIns : P (InsOp α) := do
  let mode ← pMode
  let n ← pNat
  let hasExt ← pNat
  let ext ← if hasExt = 1 then (some <$> pMany n pNat) else pure none
  let boxes ← pMany n pBox
  let np ← pNat
  let perm ← pMany np pNat
  pure ⟨mode, boxes, ext, perm⟩

def dump (t : Tree α) : String :=
  let c := t.core
  let nodes := " ".intercalate (c.nodes.toList.map fun n => rInts [n.parent, n.left, n.right, n.typ])
  let boxes := " ".intercalate (c.aabbs.toList.map rBox)
  let ext := " ".intercalate (t.ext.toList.map fun | some k => toString k | none => "-1")
  let ins := " ".intercalate (t.insIdx.toList.map fun | some k => toString k | none => "-1")
  s!"ok {c.root} {c.filledLen} {c.nodes.size} {nodes} ; {boxes} ; {ext} ; {ins}"

def rErr (e : Err) : String := s!"err {e}"

abbrev OrderFn (α : Type) := Mode → List (Box α) → Nat → Nat → Nat → List Nat → List Int

/-- build a tree from `k` ins ops (used for the second tree of `qt`) -/
def buildTree (orderFn : OrderFn α) (ops : List (InsOp α)) : Except Err (Tree α) :=
  ops.foldlM (fun t o => t.insertAabbs orderFn o.boxes o.ext o.mode o.perm) Tree.empty

partial def runOps (orderFn : OrderFn α) (t : Tree α) (outs : Array String) : P (Array String) := do
  match (← get) with
  | [] => pure outs
  | _ =>
    let op ← tok
    match op with
    | "ins" =>
      let o : InsOp α ← pIns
      match t.insertAabbs orderFn o.boxes o.ext o.mode o.perm with
      | .ok t' => runOps orderFn t' (outs.push "ok")
      | .error e => runOps orderFn t (outs.push (rErr e))
    | "q" =>
      let b : Box α ← pBox
      match queryOverlap b t.core.root t.core.nodes t.core.aabbs with
      | .ok l => runOps orderFn t (outs.push s!"ok {l.length} {rInts l}")
      | .error e => runOps orderFn t (outs.push (rErr e))
    | "dump" => runOps orderFn t (outs.push (dump t))
    | "qt" =>
      let k ← pNat
      let ops ← pMany k (do let _ ← tok; pIns (α := α))
      match buildTree orderFn ops with
      | .error e => runOps orderFn t (outs.push (rErr e))
      | .ok t2 =>
        match queryTree t.core t2.core with
        | .ok l =>
          let flat := l.flatMap fun (i, j) => [i, j]
          runOps orderFn t (outs.push s!"ok {l.length} {rInts flat}")
        | .error e => runOps orderFn t (outs.push (rErr e))
    | _ => throw s!"unknown op {op}"

def hist (variant : String) : P String := do
  let orderFn : OrderFn α := if variant = "fixed" then insertOrderFixed else insertOrderAsIs
  let outs ← runOps orderFn Tree.empty #[]
  pure (" | ".intercalate outs.toList)

def overlapFn : P String := do
  let a : Box α ← pBox
  let b : Box α ← pBox
  pure s!"ok {if overlap a b then 1 else 0}"

def mergeFn : P String := do
  let a : Box α ← pBox
  let b : Box α ← pBox
  pure s!"ok {rBox (merge a b)} {Codec.render (volume (merge a b))}"

/-- arrays dumped from the implementation: `root filled n  (4n ints)  (6n scalars)` -/
def pCore : P (Core α) := do
  let root ← pInt
  let filled ← pNat
  let n ← pNat
  let nodes ← pMany n (do
    let a ← pInt; let b ← pInt; let c ← pInt; let d ← pInt
    pure (Node.mk a b c d))
  let boxes ← pMany n (pBox (α := α))
  pure { root := root, nodes := nodes.toArray, aabbs := boxes.toArray, filledLen := filled }

/-- run the Lean-verified well-formedness check on implementation arrays -/
def wfFn : P String := do
  let c : Core α ← pCore
  match wfCheck c with
  | none => pure "ok bad"
  | some none => pure "ok empty"
  | some (some t) => pure s!"ok tree {t.leaves.length} {rInts (t.leaves.map (·.1))}"

/-- model query on implementation arrays -/
def qarrFn : P String := do
  let c : Core α ← pCore
  let b : Box α ← pBox
  match queryOverlap b c.root c.nodes c.aabbs with
  | .ok l => pure s!"ok {l.length} {rInts l}"
  | .error e => pure (rErr e)

def dispatch (fn : String) : Option (P String) :=
  match fn with
  | "C05.hist.asis" => some (hist (α := α) "asis")
  | "C05.hist.fixed" => some (hist (α := α) "fixed")
  | "C05.overlap" => some (overlapFn (α := α))
  | "C05.merge" => some (mergeFn (α := α))
  | "C05.wf" => some (wfFn (α := α))
  | "C05.qarr" => some (qarrFn (α := α))
  | _ => none

end D3.Drv05
