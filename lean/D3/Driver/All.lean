/-
Dispatch over all driver modules (core Lean only; imported by Driver.lean).
-/
import D3.Driver.C05

namespace D3
def dispatchAll {α : Type} [Add α] [Sub α] [Mul α] [Div α] [Neg α] [LT α] [LE α]
    [DecidableLT α] [DecidableLE α] [DecidableEq α]
    [OfNat α 0] [OfNat α 1] [OfNat α 2] [OfScientific α] [Min α] [Max α] [HasSqrt α]
    [Codec α] (fn : String) : Option (P String) :=
  (Drv05.dispatch (α := α) fn)
end D3
