/- C20 has no model functions of its own (it reuses the C05 driver for wfCheck on the arrays the
compiled engine leaves behind); this module only provides the (empty) dispatch table. -/
import D3.Driver.Codec

namespace D3.Drv20
open D3

def dispatch {α : Type} (_fn : String) : Option (P String) := none

end D3.Drv20
