import D3.Model.Vec
import D3.Driver.Codec

namespace D3

def pV3 {α : Type} [Codec α] : P (V3 α) := do
  let a ← pScalar; let b ← pScalar; let c ← pScalar
  pure ⟨a, b, c⟩

/-- 9 scalars, row-major -/
def pM3 {α : Type} [Codec α] : P (M3 α) := do
  let a ← pV3; let b ← pV3; let c ← pV3
  pure ⟨a, b, c⟩

/-- 12 scalars: R row-major (9) then t (3) -/
def pPose {α : Type} [Codec α] : P (Pose α) := do
  let r ← pM3; let t ← pV3
  pure ⟨r, t⟩

def rV3 {α : Type} [Codec α] (v : V3 α) : String := rScalars [v.x, v.y, v.z]

def rErrS (e : Err) : String := s!"err {e}"

end D3
