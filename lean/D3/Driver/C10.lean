import D3.Model.DistLine
import D3.Driver.VecCodec

namespace D3.Drv10
open D3 D3.DistLine

scalar_variables
variable [HasAtan2 α] [HasTrig α] [Codec α]

def rRes (r : Res α) : String :=
  s!"ok {r.br} {Codec.render r.d} {rV3 r.p1} {rV3 r.p2} {Codec.render r.t1} {Codec.render r.t2} {region01 r.t1} {region01 r.t2}"

def rRes3 (r : Res3 α) : String :=
  s!"ok {r.br} {Codec.render r.d} {rV3 r.p1} {rV3 r.p2}"

def outE (x : Except Err String) : String :=
  match x with
  | .ok s => s
  | .error e => rErrS e

def pointToLineFn : P String := do
  let p : V3 α ← pV3; let lp ← pV3; let ld ← pV3
  let r := pointToLineK p lp ld
  pure s!"ok 0 {Codec.render r.d} {rV3 r.p} {Codec.render r.t}"

def pointToSegmentFn : P String := do
  let p : V3 α ← pV3; let a ← pV3; let b ← pV3
  pure (outE ((pointToSegment p a b).map fun r =>
    s!"ok {region01 r.t} {Codec.render r.d} {rV3 r.p} {Codec.render r.t}"))

def lineToLineFn : P String := do
  let a : V3 α ← pV3; let b ← pV3; let c ← pV3; let d ← pV3
  pure (outE ((lineToLine a b c d).map rRes))

def lineToSegmentFn : P String := do
  let a : V3 α ← pV3; let b ← pV3; let c ← pV3; let d ← pV3
  pure (outE ((lineToSegment a b c d).map rRes))

def segToSegFn : P String := do
  let a : V3 α ← pV3; let b ← pV3; let c ← pV3; let d ← pV3
  pure (outE ((segToSeg a b c d).map rRes))

def pointToPlaneFn : P String := do
  let p : V3 α ← pV3; let pp ← pV3; let n ← pV3
  let r := pointToPlane p pp n
  pure s!"ok 0 {Codec.render r.1} {rV3 r.2}"

def lineToPlaneFn : P String := do
  let a : V3 α ← pV3; let b ← pV3; let c ← pV3; let d ← pV3
  pure (outE ((lineToPlane a b c d).map rRes3))

def segToPlaneFn : P String := do
  let a : V3 α ← pV3; let b ← pV3; let c ← pV3; let d ← pV3
  pure (outE ((segToPlane a b c d).map rRes3))

def planeToPlaneFn : P String := do
  let a : V3 α ← pV3; let b ← pV3; let c ← pV3; let d ← pV3
  pure (rRes3 (planeToPlane a b c d))

def planeToTriangleFn : P String := do
  let pp : V3 α ← pV3; let n ← pV3; let a ← pV3; let b ← pV3; let c ← pV3
  pure (outE ((planeToTriangle pp n a b c).map rRes3))

/-- args: plane_point plane_normal center axis0 axis1 l0 l1 -/
def planeToRectangleFn : P String := do
  let pp : V3 α ← pV3; let n ← pV3; let c ← pV3; let a0 ← pV3; let a1 ← pV3
  let l0 ← pScalar; let l1 ← pScalar
  pure (outE ((planeToRectangle pp n c a0 a1 l0 l1).map rRes3))

/-- args: plane_point plane_normal pose(12) size(3) -/
def planeToBoxFn : P String := do
  let pp : V3 α ← pV3; let n ← pV3; let A ← pPose; let size ← pV3
  pure (outE ((planeToBox pp n A size).map rRes3))

/-- args: plane_point plane_normal point1 point2 (the two support points computed by the implementation) -/
def planeToSupportPairFn : P String := do
  let pp : V3 α ← pV3; let n ← pV3; let a ← pV3; let b ← pV3
  pure (outE ((planeToSupportPair pp n a b).map rRes3))

/-- exact deciding quantities for arbitration (Q mode): for `line_to_line` the value `|det| - epsilon`;
for segment functions `denom`; printed as scalars -/
def decideLLFn : P String := do
  let _a : V3 α ← pV3; let b : V3 α ← pV3; let _c : V3 α ← pV3; let d : V3 α ← pV3
  let a12 := -(V3.dot b d)
  let det := 1 - a12 * a12
  pure s!"ok 0 {Codec.render (absS det - Gen.distance__line__line_to_line__epsilon)}"

def dispatch (fn : String) : Option (P String) :=
  match fn with
  | "C10.point_to_line" => some (pointToLineFn (α := α))
  | "C10.point_to_line_segment" => some (pointToSegmentFn (α := α))
  | "C10.line_to_line" => some (lineToLineFn (α := α))
  | "C10.line_to_line_segment" => some (lineToSegmentFn (α := α))
  | "C10.line_segment_to_line_segment" => some (segToSegFn (α := α))
  | "C10.point_to_plane" => some (pointToPlaneFn (α := α))
  | "C10.line_to_plane" => some (lineToPlaneFn (α := α))
  | "C10.line_segment_to_plane" => some (segToPlaneFn (α := α))
  | "C10.plane_to_plane" => some (planeToPlaneFn (α := α))
  | "C10.plane_to_triangle" => some (planeToTriangleFn (α := α))
  | "C10.plane_to_rectangle" => some (planeToRectangleFn (α := α))
  | "C10.plane_to_box" => some (planeToBoxFn (α := α))
  | "C10.plane_to_support_pair" => some (planeToSupportPairFn (α := α))
  | "C10.decide_ll" => some (decideLLFn (α := α))
  | _ => none

end D3.Drv10
