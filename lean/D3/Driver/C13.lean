import D3.Model.ContainTest
import D3.Driver.VecCodec

namespace D3.Drv13
open D3 D3.ContainTest

scalar_variables
variable [Codec α]

def rBools (l : List Bool) : String := " ".intercalate (l.map fun b => if b then "1" else "0")
def rNats (l : List Nat) : String := " ".intercalate (l.map toString)

def pPoints : P (List (V3 α)) := do
  let n ← pNat
  pMany n pV3

def out (bs : List Bool) (brs : List Nat) : String := s!"ok {rBools bs} ; {rNats brs}"

def outE (r : Except Err (List Bool)) (brs : List Nat) : String :=
  match r with
  | .ok bs => out bs brs
  | .error e => rErrS e

/-- `<c 3> <r> <n> <points 3n>` -/
def sphereFn : P String := do
  let c : V3 α ← pV3; let r : α ← pScalar; let ps ← pPoints
  pure (out (pointsInSphere ps c r) (ps.map fun p => if pointInSphere p c r then 1 else 0))

/-- `<pose 12> <r> <h> <n> <points>` -/
def capsuleFn : P String := do
  let A : Pose α ← pPose; let r : α ← pScalar; let h : α ← pScalar; let ps ← pPoints
  pure (outE (pointsInCapsule ps A r h) (ps.map fun p => capsuleBranch p A r h))

/-- `<pose 12> <radii 3> <n> <points>` -/
def ellipsoidFn : P String := do
  let A : Pose α ← pPose; let radii : V3 α ← pV3; let ps ← pPoints
  pure (outE (pointsInEllipsoid ps A radii)
    (ps.map fun p => match pointInEllipsoid p A radii with | .ok true => 1 | .ok false => 0 | _ => 99))

/-- `<c 3> <r> <normal 3> <n> <points>` -/
def diskFn : P String := do
  let c : V3 α ← pV3; let r : α ← pScalar; let n : V3 α ← pV3; let ps ← pPoints
  pure (out (pointsInDisk ps c r n) (ps.map fun p => diskBranch p c r n))

/-- `<pose 12> <r> <h> <n> <points>` -/
def coneFn : P String := do
  let A : Pose α ← pPose; let r : α ← pScalar; let h : α ← pScalar; let ps ← pPoints
  pure (outE (pointsInCone ps A r h) (ps.map fun p => coneBranch p A r h))

/-- `<pose 12> <r> <length> <n> <points>` -/
def cylinderFn : P String := do
  let A : Pose α ← pPose; let r : α ← pScalar; let len : α ← pScalar; let ps ← pPoints
  pure (out (pointsInCylinder ps A r len) (ps.map fun p => cylBranch p A r len))

/-- `<pose 12> <size 3> <n> <points>` -/
def boxFn : P String := do
  let A : Pose α ← pPose; let size : V3 α ← pV3; let ps ← pPoints
  pure (out (pointsInBox ps A size) (ps.map fun p => boxBranch p A size))

/-- `<pose 12> <nv> <vertices 3nv> <nt> <triangles 3nt ints> <n> <points>` -/
def meshFn : P String := do
  let A : Pose α ← pPose
  let nv ← pNat
  let vs : List (V3 α) ← pMany nv pV3
  let nt ← pNat
  let tris ← pMany nt (do let a ← pInt; let b ← pInt; let c ← pInt; pure (a, b, c))
  let ps ← pPoints
  let brs := match meshFaces vs.toArray tris with
    | .ok fs => ps.map fun p => meshBranch fs A p
    | .error _ => []
  pure (outE (pointsInConvexMesh ps A vs.toArray tris) brs)

def dispatch (fn : String) : Option (P String) :=
  match fn with
  | "C13.sphere" => some (sphereFn (α := α))
  | "C13.capsule" => some (capsuleFn (α := α))
  | "C13.ellipsoid" => some (ellipsoidFn (α := α))
  | "C13.disk" => some (diskFn (α := α))
  | "C13.cone" => some (coneFn (α := α))
  | "C13.cylinder" => some (cylinderFn (α := α))
  | "C13.box" => some (boxFn (α := α))
  | "C13.mesh" => some (meshFn (α := α))
  | _ => none

end D3.Drv13
