import D3.Model.Bvh
import D3.Driver.VecCodec

/-!
Driver of C06.  Functions:

* `C06.hist`  : run a history of BVH operations on the model (two BVHs, `bvh 0|1` selects).
  Header: `NF { f ntab {pose(12) box(6)}*ntab haswl [nwl w*] }*NF` — for every id the table
  `pose ↦ AABB` of an (abstract) collider object and, if the id is a frame, its whitelist.  Ops:
  `add f tid j` (collider of frame `f` = table `tid`, initial pose `table_tid[j].pose`) ·
  `upd n {f tid j}*n` (transform manager answers `table_tid[j].pose` for frame `f`) ·
  `qc box(6) nwl w*` · `oth` · `self` · `det nh {f g}*nh` · `any nh {f g}*nh` · `dump` · `link`.
* `C06.link`  : `linkCheck` (C05 `wfCheck` + leaf/collider link) on arrays dumped from the
  implementation.
* `C06.wl`    : `self_collision_whitelists` on an abstract `UrdfInfo`.
-/
namespace D3.Drv06
open D3 D3.Aabb D3.Bvh

scalar_variables
variable [Codec α]

def pBox : P (Box α) := do
  let a ← pScalar; let b ← pScalar; let c ← pScalar
  let d ← pScalar; let e ← pScalar; let f ← pScalar
  pure ⟨a, b, c, d, e, f⟩

def rBox (b : Box α) : String := rScalars [b.lo0, b.hi0, b.lo1, b.hi1, b.lo2, b.hi2]

def rErr (e : Err) : String := s!"err {e}"

structure FrameInfo (α : Type) where
  table : Array (Pose α × Box α)
  wl : Option (List Frame)

abbrev Infos (α : Type) := List (Frame × FrameInfo α)

def idPose : Pose α := ⟨⟨⟨1, 0, 0⟩, ⟨0, 1, 0⟩, ⟨0, 0, 1⟩⟩, ⟨0, 0, 0⟩⟩

def tableOf (infos : Infos α) (f : Frame) : Array (Pose α × Box α) :=
  match dGet infos f with
  | some i => i.table
  | none => #[]

/-- the AABB function of frame `f`'s collider: table lookup by (bitwise) pose equality -/
def aabbFn (infos : Infos α) (f : Frame) : Pose α → Box α := fun p =>
  match (tableOf infos f).find? (fun e => decide (e.1 = p)) with
  | some e => e.2
  | none => zeroBox

def poseAt (infos : Infos α) (f : Frame) (j : Nat) : Pose α :=
  match (tableOf infos f)[j]? with
  | some e => e.1
  | none => idPose

def constCollider (b : Box α) : Collider α := { pose := idPose, aabb := fun _ => b }

def pInfos : P (Infos α) := do
  let nf ← pNat
  pMany nf (do
    let f ← pNat
    let ntab ← pNat
    let table ← pMany ntab (do let p ← pPose (α := α); let b ← pBox (α := α); pure (p, b))
    let haswl ← pNat
    let wl ← if haswl = 1 then (do let n ← pNat; let l ← pMany n pNat; pure (some l)) else pure none
    pure (f, { table := table.toArray, wl := wl : FrameInfo α }))

def pHits : P (Frame → Frame → Bool) := do
  let nh ← pNat
  let l ← pMany nh (do let a ← pNat; let b ← pNat; pure (a, b))
  pure fun f g => l.contains (f, g)

def rFrames (l : List Frame) : String := " ".intercalate (l.map toString)

def rData (x : Option (Frame × Collider α)) : String :=
  match x with
  | some (f, _) => toString f
  | none => "-1"

def dumpState (s : State α) : String :=
  let c := s.tree.core
  let nodes := " ".intercalate (c.nodes.toList.map fun n => rInts [n.parent, n.left, n.right, n.typ])
  let boxes := " ".intercalate (c.aabbs.toList.map rBox)
  let ext := " ".intercalate ((List.range s.tree.ext.size).map fun (i : Nat) =>
    match s.extAt (Int.ofNat i) with
    | .ok (some (f, _)) => toString f
    | _ => "-1")
  let cols := " ".intercalate (s.colliders.map fun (f, c) => s!"{f} {rBox c.box}")
  s!"ok {c.root} {c.filledLen} {c.nodes.size} {nodes} ; {boxes} ; {ext} ; {s.colliders.length} {cols}"

def rLink (s : State α) : String :=
  match linkCheck s with
  | none => "ok bad"
  | some none => "ok empty"
  | some (some t) => s!"ok linked {t.leaves.length}"

partial def runOps (infos : Infos α) (wl : Whitelists) (s0 s1 : State α) (cur : Nat)
    (outs : Array String) : P (Array String) := do
  match (← get) with
  | [] => pure outs
  | _ =>
    let s := if cur = 0 then s0 else s1
    let o := if cur = 0 then s1 else s0
    let put (s' : State α) (out : String) : P (Array String) :=
      if cur = 0 then runOps infos wl s' s1 cur (outs.push out)
      else runOps infos wl s0 s' cur (outs.push out)
    let op ← tok
    match op with
    | "bvh" =>
      let k ← pNat
      runOps infos wl s0 s1 k (outs.push "ok")
    | "add" =>
      let f ← pNat
      let tid ← pNat
      let j ← pNat
      let c : Collider α := { pose := poseAt infos tid j, aabb := aabbFn infos tid }
      match addCollider s f c with
      | .ok s' => put s' "ok"
      | .error e => put s (rErr e)
    | "upd" =>
      let n ← pNat
      let l ← pMany n (do let f ← pNat; let tid ← pNat; let j ← pNat; pure (f, (tid, j)))
      let getT : Frame → Pose α := fun f =>
        match dGet l f with
        | some (tid, j) => poseAt infos tid j
        | none => idPose
      match updateColliderPoses getT s with
      | .ok s' => put s' "ok"
      | .error e => put s (rErr e)
    | "qc" =>
      let b : Box α ← pBox
      let n ← pNat
      let w ← pMany n pNat
      match aabbOverlappingColliders s (constCollider b) w with
      | .ok r => put s s!"ok {r.length} {rFrames (r.map (·.1))}"
      | .error e => put s (rErr e)
    | "oth" =>
      match aabbOverlappingWithOtherBvh s o with
      | .ok r => put s s!"ok {r.length} {" ".intercalate (r.map fun p => rData p.1 ++ " " ++ rData p.2)}"
      | .error e => put s (rErr e)
    | "self" =>
      match aabbOverlappingWithSelf s with
      | .ok r => put s s!"ok {r.length} {" ".intercalate (r.map fun p => rData p.1 ++ " " ++ rData p.2)}"
      | .error e => put s (rErr e)
    | "det" =>
      let hit ← pHits
      match detect s hit wl with
      | .ok r => put s s!"ok {r.length} {" ".intercalate (r.map fun p => s!"{p.1} {if p.2 then 1 else 0}")}"
      | .error e => put s (rErr e)
    | "any" =>
      let hit ← pHits
      match detectAny s hit wl with
      | .ok r => put s s!"ok {if r then 1 else 0}"
      | .error e => put s (rErr e)
    | "dump" => put s (dumpState s)
    | "link" => put s (rLink s)
    | _ => throw s!"unknown op {op}"

def hist : P String := do
  let infos : Infos α ← pInfos
  let wl : Whitelists := fun f =>
    match dGet infos f with
    | some i => i.wl
    | none => none
  let outs ← runOps infos wl State.empty State.empty 0 #[]
  pure (" | ".intercalate outs.toList)

/-- implementation dump: `root filled n  nodes(4n)  boxes(6n)  {frame|-1 [box(6) if frame ≥ 0]}*n
ncol {frame box(6)}*ncol` — the box after a frame id in the ext section is the `aabb()` of
the collider object stored in that `external_data_list` entry -/
def pImplState : P (State α) := do
  let root ← pInt
  let filled ← pNat
  let n ← pNat
  let nodes ← pMany n (do
    let a ← pInt; let b ← pInt; let c ← pInt; let d ← pInt
    pure (Node.mk a b c d))
  let boxes ← pMany n (pBox (α := α))
  let exts ← pMany n (do
    let f ← pInt
    if f < 0 then pure none
    else do
      let b ← pBox (α := α)
      pure (some (f.toNat, constCollider b)))
  let ncol ← pNat
  let cols ← pMany ncol (do let f ← pNat; let b ← pBox (α := α); pure (f, constCollider b))
  -- payload = the non-None entries in slot order; ext = their ranks
  let (ext, payload) := exts.foldl (fun (acc : Array (Option Nat) × Array (Frame × Collider α)) e =>
    match e with
    | none => (acc.1.push none, acc.2)
    | some x => (acc.1.push (some acc.2.size), acc.2.push x)) (#[], #[])
  pure { colliders := cols,
         tree := { core := { root := root, nodes := nodes.toArray, aabbs := boxes.toArray, filledLen := filled },
                   ext := ext, insIdx := #[], insMax := 0 },
         payload := payload }

def linkFn : P String := do
  let s : State α ← pImplState
  pure (rLink s)

/-- `C06.wl`: `ntr {child parent}*  nnodes {node}*  ncf {frame}*  nlink {node link}*` -/
def wlFn : P String := do
  let ntr ← pNat
  let tr ← pMany ntr (do let a ← pNat; let b ← pNat; pure (a, b))
  let nn ← pNat
  let nodes ← pMany nn pNat
  let nc ← pNat
  let cf ← pMany nc pNat
  let nl ← pNat
  let links ← pMany nl (do let a ← pNat; let b ← pNat; pure (a, b))
  let u : UrdfInfo := { transforms := tr, nodes := nodes, collisionFrames := cf, linkOf := fun f => dGet links f }
  let w := selfCollisionWhitelists u
  pure s!"ok {w.length} {" ".intercalate (w.map fun p => s!"{p.1} {p.2.length} {rFrames p.2}")}"

def dispatch (fn : String) : Option (P String) :=
  match fn with
  | "C06.hist" => some (hist (α := α))
  | "C06.link" => some (linkFn (α := α))
  | "C06.wl" => some wlFn
  | _ => none

end D3.Drv06
