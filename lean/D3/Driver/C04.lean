import D3.Model.Containment
import D3.Driver.Codec
import D3.Driver.VecCodec

namespace D3.Drv04
open D3 D3.Aabb D3.Containment

scalar_variables
variable [HasAtan2 α] [HasTrig α] [Codec α]

def rBox (b : Box α) : String := rScalars [b.lo0, b.hi0, b.lo1, b.hi1, b.lo2, b.hi2]

/-- `ok <branch> <six scalars>` or `err <Err>` -/
def rRes (branch : Nat) (r : Except Err (Box α)) : String :=
  match r with
  | .ok b => s!"ok {branch} {rBox b}"
  | .error e => rErrS e

def pPoints : P (List (V3 α)) := do
  let n ← pNat
  pMany n pV3

abbrev EllFn (α : Type) := Pose α → V3 α → Except Err (Box α)

/-- recursive collider encoding: `<tag> <fields…>`; `margin <m> <collider>` -/
partial def pCollider : P (Collider α) := do
  let tag ← tok
  match tag with
  | "sphere" => do let c ← pV3; let r ← pScalar; pure (.sphere c r)
  | "hull" => do let vs ← pPoints; pure (.hull vs)
  | "box" => do let A ← pPose; let s ← pV3; pure (.box A s)
  | "mesh" => do let A ← pPose; let vs ← pPoints; pure (.mesh A vs)
  | "capsule" => do let A ← pPose; let r ← pScalar; let h ← pScalar; pure (.capsule A r h)
  | "ellipsoid" => do let A ← pPose; let r ← pV3; pure (.ellipsoid A r)
  | "cylinder" => do let A ← pPose; let r ← pScalar; let l ← pScalar; pure (.cylinder A r l)
  | "disk" => do let c ← pV3; let r ← pScalar; let n ← pV3; pure (.disk c r n)
  | "ellipse" => do
    let c ← pV3; let a0 ← pV3; let a1 ← pV3; let r0 ← pScalar; let r1 ← pScalar
    pure (.ellipse c a0 a1 r0 r1)
  | "cone" => do let A ← pPose; let r ← pScalar; let h ← pScalar; pure (.cone A r h)
  | "margin" => do let m ← pScalar; let c ← pCollider; pure (.margin c m)
  | _ => throw s!"collider tag {tag}"

/-- branch id of a collider = branch id of its innermost primitive (0 where there is none) -/
def colliderBranch (ell : String) : Collider α → Nat
  | .cylinder A _ _ => signCode A.R.col2
  | .capsule A _ _ => signCode A.R.col2
  | .ellipsoid A r => if ell = "asis" then ellipsoidBranch A r else 0
  | .cone A r h => coneBranch A r h
  | .margin c _ => colliderBranch ell c
  | _ => 0

def colliderFn (ell : String) : P String := do
  let c : Collider α ← pCollider
  let f : EllFn α := if ell = "fixed" then ellipsoidAabb_fixed else ellipsoidAabb_asIs
  pure (rRes (colliderBranch ell c) (c.aabb f))

def pRigidBody : P (RigidBody α) := do
  let A ← pPose
  let vs ← pPoints
  let nt ← pNat
  let ts ← pMany nt (do
    let a ← pNat; let b ← pNat; let c ← pNat; let d ← pNat
    pure (a, b, c, d))
  pure ⟨A, vs.toArray, ts⟩

/-- optional `update_pose` / `express_in` steps, then `aabb()`:
`<rigid body> <k> (<"u"|"e"> <pose>)^k` -/
def pRigidOps : P (RigidBody α) := do
  let b : RigidBody α ← pRigidBody
  let k ← pNat
  let ops ← pMany k (do let o ← tok; let A : Pose α ← pPose; pure (o, A))
  pure (ops.foldl (fun b (o, A) => if o = "e" then b.expressIn A else b.updatePose A) b)

def rigidFn (variant : String) : P String := do
  let b : RigidBody α ← pRigidOps
  pure (rRes 0 (if variant = "beforefix" then b.aabb_asIs_before_fix else b.aabb))

/-- dump `body2origin_` (12 scalars) and `vertices_` after the ops -/
def rigidStateFn : P String := do
  let b' : RigidBody α ← pRigidOps
  let vs := " ".intercalate (b'.vertices.toList.map rV3)
  pure s!"ok 0 {rScalars (b'.body2origin.R.toList ++ b'.body2origin.t.toList)} {b'.vertices.size} {vs}"

def dispatch (fn : String) : Option (P String) :=
  match fn with
  | "C04.points" => some (do let ps : List (V3 α) ← pPoints; pure (rRes 0 (aabbOfPoints ps)))
  | "C04.sphere" => some (do
      let c : V3 α ← pV3; let r ← pScalar; pure (rRes 0 (.ok (sphereAabb c r))))
  | "C04.box" => some (do let A : Pose α ← pPose; let s ← pV3; pure (rRes 0 (boxAabb A s)))
  | "C04.cylinder" => some (do
      let A : Pose α ← pPose; let r ← pScalar; let l ← pScalar
      pure (rRes (signCode A.R.col2) (cylinderAabb A r l)))
  | "C04.capsule" => some (do
      let A : Pose α ← pPose; let r ← pScalar; let h ← pScalar
      pure (rRes (signCode A.R.col2) (.ok (capsuleAabb A r h))))
  | "C04.ellipsoid.asis" => some (do
      let A : Pose α ← pPose; let r ← pV3
      pure (rRes (ellipsoidBranch A r) (ellipsoidAabb_asIs A r)))
  | "C04.ellipsoid.fixed" => some (do
      let A : Pose α ← pPose; let r ← pV3; pure (rRes 0 (ellipsoidAabb_fixed A r)))
  | "C04.disk" => some (do
      let c : V3 α ← pV3; let r ← pScalar; let n ← pV3; pure (rRes 0 (diskAabb c r n)))
  | "C04.cone" => some (do
      let A : Pose α ← pPose; let r ← pScalar; let h ← pScalar
      pure (rRes (coneBranch A r h) (.ok (coneAabb A r h))))
  | "C04.ellipse" => some (do
      let c : V3 α ← pV3; let a0 ← pV3; let a1 ← pV3; let r0 ← pScalar; let r1 ← pScalar
      pure (rRes 0 (ellipseAabb c a0 a1 r0 r1)))
  | "C04.collider.asis" => some (colliderFn (α := α) "asis")
  | "C04.collider.fixed" => some (colliderFn (α := α) "fixed")
  | "C04.rigidbody" => some (rigidFn (α := α) "now")
  | "C04.rigidbody.beforefix" => some (rigidFn (α := α) "beforefix")
  | "C04.rigidbody.state" => some (rigidStateFn (α := α))
  | _ => none

end D3.Drv04
