import D3.Model.Simplex
import D3.Model.SimplexOrig
import D3.Driver.Codec
import D3.Driver.VecCodec

namespace D3.Drv18
open D3 D3.Simplex

scalar_variables
variable [HasAtan2 α] [HasTrig α] [Codec α]

/-- `ok <branch> <set> <x y z>` -/
def rCP (r : Except Err (CP α)) : String :=
  match r with
  | .ok c => s!"ok {c.br} {c.set} {rV3 c.pt}"
  | .error e => rErrS e

def lineFn : P String := do
  let a : V3 α ← pV3; let b ← pV3
  pure (rCP (closestPointLine a b))

def triFn : P String := do
  let a : V3 α ← pV3; let b ← pV3; let c ← pV3
  pure (rCP (closestPointTriangle a b c))

/-- the pre-repair triangle routine (absolute degeneracy test) -/
def triOldFn : P String := do
  let a : V3 α ← pV3; let b ← pV3; let c ← pV3
  pure (rCP (closestPointTriangle_asIs_before_fix a b c))

def tetFn : P String := do
  let a : V3 α ← pV3; let b ← pV3; let c ← pV3; let d ← pV3
  pure (rCP (closestPointTetrahedron a b c d))

/-- `C18.gcp <n> <y0 y1 y2 y3 (12 scalars)> <prev>` → `ok <branch> <success> <set> <v> <vLenSq>` -/
def gcpFn : P String := do
  let n ← pNat
  let ys : List (V3 α) ← pMany 4 pV3
  let prev : α ← pScalar
  match getClosestPointToOrigin ys.toArray n prev with
  | .ok g => pure s!"ok {g.br} {if g.success then 1 else 0} {g.set} {rV3 g.v} {Codec.render g.vLenSq}"
  | .error e => pure (rErrS e)

def baryLineFn : P String := do
  let a : V3 α ← pV3; let b ← pV3
  match baryLine a b with
  | .ok (u, v, br) => pure s!"ok {br} {rScalars [u, v]}"
  | .error e => pure (rErrS e)

def baryPlaneFn : P String := do
  let a : V3 α ← pV3; let b ← pV3; let c ← pV3
  match baryPlane a b c with
  | .ok (u, v, w, br) => pure s!"ok {br} {rScalars [u, v, w]}"
  | .error e => pure (rErrS e)

def baryTetraFn : P String := do
  let a : V3 α ← pV3; let b ← pV3; let c ← pV3; let d ← pV3
  match baryTetra a b c d with
  | .ok (u, v, w, x) => pure s!"ok 0 {rScalars [u, v, w, x]}"
  | .error e => pure (rErrS e)

def planesFn : P String := do
  let a : V3 α ← pV3; let b ← pV3; let c ← pV3; let d ← pV3
  let ((o0, o1, o2, o3), br) := originOutsideOfTetrahedronPlanes a b c d
  let f (x : Bool) : Nat := if x then 1 else 0
  pure s!"ok {br} {f o0} {f o1} {f o2} {f o3}"

/-- `C18.upd <n> <simplex> <4 points>` → `ok <n_new> <4 points>` -/
def updFn : P String := do
  let n ← pNat
  let s ← pNat
  let ys : List (V3 α) ← pMany 4 pV3
  match updateSimplexY ys.toArray n s with
  | .ok (Y, k) => pure s!"ok {k} {" ".intercalate (Y.toList.map rV3)}"
  | .error e => pure (rErrS e)

/-- `C18.orig <n> <points (3n scalars)> <lower-triangular dot table, row-major n(n+1)/2 scalars>`
→ `ok <branch> <k> <ordered indices (k)> <weights (k)> <point> <distSq>` -/
def origFn : P String := do
  let n ← pNat
  let pts : List (V3 α) ← pMany n pV3
  let tab : List α ← pMany (n * (n + 1) / 2) pScalar
  match SimplexOrig.backupProcedure pts.toArray tab.toArray with
  | .ok r =>
    pure s!"ok {r.br} {r.idx.length} {" ".intercalate (r.idx.map toString)} {rScalars r.w} {rV3 r.pt} {Codec.render r.distSq}"
  | .error e => pure (rErrS e)

def dispatch (fn : String) : Option (P String) :=
  match fn with
  | "C18.line" => some (lineFn (α := α))
  | "C18.tri" => some (triFn (α := α))
  | "C18.triold" => some (triOldFn (α := α))
  | "C18.tet" => some (tetFn (α := α))
  | "C18.gcp" => some (gcpFn (α := α))
  | "C18.baryline" => some (baryLineFn (α := α))
  | "C18.baryplane" => some (baryPlaneFn (α := α))
  | "C18.barytet" => some (baryTetraFn (α := α))
  | "C18.planes" => some (planesFn (α := α))
  | "C18.upd" => some (updFn (α := α))
  | "C18.orig" => some (origFn (α := α))
  | _ => none

end D3.Drv18
