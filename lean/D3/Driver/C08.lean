import D3.Model.MprPen
import D3.Driver.Codec
import D3.Driver.VecCodec

namespace D3.Drv08
open D3 D3.MprPen

scalar_variables
variable [HasAtan2 α] [HasTrig α] [Codec α]

/-- one simplex row: v, v1, v2 (9 scalars) -/
def pSP : P (SP α) := do
  let v ← pV3; let a ← pV3; let b ← pV3
  pure ⟨v, a, b⟩

def rSP (p : SP α) : String := s!"{rV3 p.v} {rV3 p.a} {rV3 p.b}"

/-- the three 4×3 arrays `v`, `v1`, `v2` row-major (36 scalars) -/
def pPortal : P (Portal α) := do
  let vs ← pMany 4 (pV3 (α := α))
  let as ← pMany 4 (pV3 (α := α))
  let bs ← pMany 4 (pV3 (α := α))
  let row (i : Nat) : SP α := ⟨vs.getD i V3.zero, as.getD i V3.zero, bs.getD i V3.zero⟩
  pure ⟨row 0, row 1, row 2, row 3⟩

def rPortal (P : Portal α) : String :=
  s!"{rV3 P.p0.v} {rV3 P.p1.v} {rV3 P.p2.v} {rV3 P.p3.v} {rV3 P.p0.a} {rV3 P.p1.a} {rV3 P.p2.a} {rV3 P.p3.a} {rV3 P.p0.b} {rV3 P.p1.b} {rV3 P.p2.b} {rV3 P.p3.b}"

def b2s (b : Bool) : String := if b then "1" else "0"

def rS (x : α) : String := Codec.render x

def normVectorFn : P String := do
  let v : V3 α ← pV3
  pure s!"ok {b2s (decide (isZero (V3.norm v)))} {rV3 (normVector v)}"

def findOriginRayFn : P String := do
  let c1 : V3 α ← pV3; let c2 : V3 α ← pV3
  let r := findOriginRay c1 c2
  pure s!"ok {b2s r.2} {rSP r.1}"

/-- support answer supplied by the caller (one recorded call) -/
def constSup (a b : V3 α) : Sup α := fun _ => (a, b)

def supportOriginRayFn : P String := do
  let p0 : SP α ← pSP
  let a : V3 α ← pV3; let b : V3 α ← pV3
  let r := findSupportOriginRay (constSup a b) p0
  let d := normVector (-p0.v)
  pure s!"ok {b2s r.2} {rV3 d} {rS (V3.dot r.1.v d)} {rSP r.1}"

def supportPerpFn : P String := do
  let p0 : SP α ← pSP; let p1 : SP α ← pSP
  let a : V3 α ← pV3; let b : V3 α ← pV3
  let r := findSupportPerp (constSup a b) p0 p1
  let c := V3.cross p0.v p1.v
  let code : Int := match r.1 with
    | some s => s.code
    | none => -2
  pure s!"ok {code} {rS (V3.dot c c)} {rV3 (normVector c)} {rS (V3.dot r.2.v (normVector c))} {rSP r.2}"

def searchDirPerpFn : P String := do
  let p0 : SP α ← pSP; let p1 : SP α ← pSP; let p2 : SP α ← pSP
  let r := searchDirectionPerp p0 p1 p2
  let d := normVector (V3.cross (p1.v - p0.v) (p2.v - p0.v))
  pure s!"ok {b2s r.2.2.2} {rS (V3.dot d p0.v)} {rV3 r.1} {rSP r.2.1} {rSP r.2.2.1}"

def iterateDiscoverFn : P String := do
  let P : Portal α ← pPortal
  let dir : V3 α ← pV3
  let size ← pNat
  let r := iterateDiscoverPortal P.p0 P.p1 P.p2 P.p3 dir size
  let m1 := V3.dot (V3.cross P.p1.v P.p3.v) P.p0.v
  let m2 := V3.dot (V3.cross P.p3.v P.p2.v) P.p0.v
  pure s!"ok {r.2.2.2.2} {r.2.1} {rS m1} {rS m2} {rV3 r.1} {rSP r.2.2.1} {rSP r.2.2.2.1}"

def portalDirectionFn : P String := do
  let P : Portal α ← pPortal
  pure s!"ok {rV3 (portalDirection P.p1 P.p2 P.p3)}"

def encapsulatesFn : P String := do
  let v : V3 α ← pV3; let d : V3 α ← pV3
  pure s!"ok {b2s (encapsulatesOrigin v d)} {rS (V3.dot v d)}"

def reachFn : P String := do
  let P : Portal α ← pPortal
  let v4 : V3 α ← pV3; let d : V3 α ← pV3; let tol : α ← pScalar
  let d4 := V3.dot v4 d
  let m := min3 (d4 - V3.dot P.p1.v d) (d4 - V3.dot P.p2.v d) (d4 - V3.dot P.p3.v d)
  pure s!"ok {b2s (portalReachTolerance P.p1 P.p2 P.p3 v4 d tol)} {rS m}"

def expandFn : P String := do
  let P : Portal α ← pPortal
  let p4 : SP α ← pSP
  let r := expandPortal P.p0 P.p1 P.p2 P.p3 p4
  let c := V3.cross p4.v P.p0.v
  pure s!"ok {r.2.2.2} {rS (V3.dot P.p1.v c)} {rS (V3.dot P.p2.v c)} {rS (V3.dot P.p3.v c)} {rSP r.1} {rSP r.2.1} {rSP r.2.2.1}"

def pointToTriangleFn : P String := do
  let p : V3 α ← pV3; let a : V3 α ← pV3; let b : V3 α ← pV3; let c : V3 α ← pV3
  match pointToTriangle p a b c with
  | .ok r => pure s!"ok {r.1} {rS r.2.1} {rV3 r.2.2}"
  | .error e => pure (rErrS e)

/-- `ok <branch> <main sum> <pos> <w0 w1 w2 w3> <fallback sum> <closest row>`; in the degenerate
branch (2) the weights are the unit weight on the closest row -/
def contactPositionFn : P String := do
  let P : Portal α ← pPortal
  let d : V3 α ← pV3
  let s := sum4 (baryMain P.p0.v P.p1.v P.p2.v P.p3.v)
  let s2 := sum4 (baryFallback P.p1.v P.p2.v P.p3.v d)
  let k := (closestRow P.p1 P.p2 P.p3).2
  match contactPosition P d with
  | .error e => pure s!"{rErrS e} {rS s}"
  | .ok r =>
    if r.2 = 2 then
      let u (j : Nat) : α := if k = j then 1 else 0
      pure s!"ok 2 {rS s} {rV3 r.1} {rScalars [(0 : α), u 1, u 2, u 3]} {rS s2} {k}"
    else
      match contactWeights P.p0.v P.p1.v P.p2.v P.p3.v d with
      | .ok w => pure s!"ok {r.2} {rS s} {rV3 r.1} {rScalars [w.1.1, w.1.2.1, w.1.2.2.1, w.1.2.2.2]} {rS s2} {k}"
      | .error e => pure s!"{rErrS e} {rS s}"

/-- the model of `_contact_position` before the repair 045c18e (for labelling a disagreement) -/
def contactPositionBeforeFixFn : P String := do
  let P : Portal α ← pPortal
  let d : V3 α ← pV3
  let s := sum4 (baryMain P.p0.v P.p1.v P.p2.v P.p3.v)
  match contactPosition_asIs_before_fix P d with
  | .error e => pure s!"{rErrS e} {rS s}"
  | .ok r => pure s!"ok {r.2} {rS s} {rV3 r.1}"

def penetrationInfoFn : P String := do
  let P : Portal α ← pPortal
  match penetrationInfo P with
  | .ok r => pure s!"ok {r.2.2.2.1} {r.2.2.2.2.1} {b2s r.2.2.2.2.2} {rS r.1} {rV3 r.2.1} {rV3 r.2.2.1}"
  | .error e => pure (rErrS e)

def touchFn : P String := do
  let p1 : SP α ← pSP
  let r := findPenetrationTouch p1
  pure s!"ok {rS r.1} {rV3 r.2.1} {rV3 r.2.2}"

def segmentFn : P String := do
  let p1 : SP α ← pSP
  let r := findPenetrationSegment p1
  pure s!"ok {rS r.1} {rV3 r.2.1} {rV3 r.2.2}"

/-- support oracle answered from a recorded trace: the entry whose recorded direction is nearest
to the query (a pure function of the query direction) -/
def traceSup (tr : List (V3 α × V3 α × V3 α)) : Sup α := fun d =>
  match tr with
  | [] => (V3.zero, V3.zero)
  | e :: rest =>
    let dist (x : V3 α × V3 α × V3 α) : α := V3.normSq (x.1 - d)
    let best := rest.foldl (fun (acc : (V3 α × V3 α × V3 α) × α) x =>
      let dx := dist x
      if dx < acc.2 then (x, dx) else acc) (e, dist e)
    (best.1.2.1, best.1.2.2)

def rInfo (i : PenInfo α) : String :=
  s!"{i.exit} {i.tri} {i.cpos} {b2s i.touch} {i.iters} {rS i.depth} {rV3 i.dir} {rV3 i.pos} {rV3 i.n}"

/-- whole `mpr_penetration`, supports answered from the trace:
`c1 c2 tol maxIter fuel K (dir a b)*K` -/
def penFn : P String := do
  let c1 : V3 α ← pV3; let c2 : V3 α ← pV3
  let tol : α ← pScalar
  let maxIter ← pNat
  let fuel ← pNat
  let k ← pNat
  let tr ← pMany k (do
    let d : V3 α ← pV3; let a : V3 α ← pV3; let b : V3 α ← pV3
    pure (d, a, b))
  match mprPenetration (traceSup tr) c1 c2 tol maxIter fuel with
  | .error e => pure (rErrS e)
  | .ok r =>
    match r.info with
    | none => pure s!"ok {b2s r.inter} {r.state.code} {r.refineIters} none"
    | some i => pure s!"ok {b2s r.inter} {r.state.code} {r.refineIters} some {rInfo i}"

/-- `_find_penetration_info` alone from a recorded portal, supports from the trace -/
def findInfoFn : P String := do
  let P : Portal α ← pPortal
  let tol : α ← pScalar
  let maxIter ← pNat
  let k ← pNat
  let tr ← pMany k (do
    let d : V3 α ← pV3; let a : V3 α ← pV3; let b : V3 α ← pV3
    pure (d, a, b))
  match findPenetrationInfo (traceSup tr) P tol maxIter with
  | .error e => pure (rErrS e)
  | .ok i => pure s!"ok {rInfo i}"

def dispatch (fn : String) : Option (P String) :=
  match fn with
  | "C08.norm_vector" => some (normVectorFn (α := α))
  | "C08.find_origin_ray" => some (findOriginRayFn (α := α))
  | "C08.support_origin_ray" => some (supportOriginRayFn (α := α))
  | "C08.support_perp" => some (supportPerpFn (α := α))
  | "C08.search_dir_perp" => some (searchDirPerpFn (α := α))
  | "C08.iterate_discover" => some (iterateDiscoverFn (α := α))
  | "C08.portal_direction" => some (portalDirectionFn (α := α))
  | "C08.encapsulates" => some (encapsulatesFn (α := α))
  | "C08.reach" => some (reachFn (α := α))
  | "C08.expand" => some (expandFn (α := α))
  | "C08.point_to_triangle" => some (pointToTriangleFn (α := α))
  | "C08.contact_position" => some (contactPositionFn (α := α))
  | "C08.contact_position.before_fix" => some (contactPositionBeforeFixFn (α := α))
  | "C08.penetration_info" => some (penetrationInfoFn (α := α))
  | "C08.touch" => some (touchFn (α := α))
  | "C08.segment" => some (segmentFn (α := α))
  | "C08.pen" => some (penFn (α := α))
  | "C08.find_info" => some (findInfoFn (α := α))
  | _ => none

end D3.Drv08
