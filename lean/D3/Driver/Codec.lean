/-
Line-protocol plumbing shared by all driver modules (core Lean only).
Scalars travel as 16 hex digits (IEEE-754 bits, mode F) or `num/den` (mode Q).
-/
import D3.Model.Scalar

namespace D3

class Codec (α : Type) where
  parse : String → Option α
  render : α → String

def hexDigit (c : Char) : Option Nat :=
  if '0' ≤ c ∧ c ≤ '9' then some (c.toNat - '0'.toNat)
  else if 'a' ≤ c ∧ c ≤ 'f' then some (c.toNat - 'a'.toNat + 10)
  else if 'A' ≤ c ∧ c ≤ 'F' then some (c.toNat - 'A'.toNat + 10)
  else none

def parseHex (s : String) : Option Nat :=
  s.toList.foldl (fun acc c => do let a ← acc; let d ← hexDigit c; pure (a * 16 + d)) (some 0)

def toHex16 (n : Nat) : String :=
  let digits := "0123456789abcdef".toList.toArray
  let rec go (k : Nat) (n : Nat) (acc : List Char) : List Char :=
    match k with
    | 0 => acc
    | k + 1 => go k (n / 16) (digits[n % 16]! :: acc)
  String.ofList (go 16 n [])

instance : Codec Float where
  parse s := (parseHex s).map fun n => Float.ofBits n.toUInt64
  render x := toHex16 x.toBits.toNat

def parseInt? (s : String) : Option Int := s.toInt?

instance : Codec Rat where
  parse s :=
    match s.splitOn "/" with
    | [n] => (parseInt? n).map fun (i : Int) => (i : Rat)
    | [n, d] => do
      let i ← parseInt? n
      let j ← parseInt? d
      if j = 0 then none else some ((i : Rat) / (j : Rat))
    | _ => none
  render q := s!"{q.num}/{q.den}"

/-- exact value of a finite double as a rational (for arbitration) -/
def floatBitsToRat (bits : Nat) : Option Rat :=
  let neg : Bool := bits / 2 ^ 63 % 2 = 1
  let e : Nat := bits / 2 ^ 52 % 2048
  let m : Nat := bits % 2 ^ 52
  let mk (num den : Nat) : Rat :=
    let q : Rat := (num : Rat) / (den : Rat)
    if neg then -q else q
  if e = 2047 then none
  else if e = 0 then some (mk m (2 ^ 1074))
  else
    let mant : Nat := m + 2 ^ 52
    if e ≥ 1075 then some (mk (mant * 2 ^ (e - 1075)) 1)
    else some (mk mant (2 ^ (1075 - e)))

/-- token parser -/
abbrev P := StateT (List String) (Except String)

def tok : P String := do
  match (← get) with
  | [] => throw "eof"
  | t :: ts => set ts; pure t

def pNat : P Nat := do
  let t ← tok
  match t.toNat? with
  | some n => pure n
  | none => throw s!"nat expected: {t}"

def pInt : P Int := do
  let t ← tok
  match t.toInt? with
  | some n => pure n
  | none => throw s!"int expected: {t}"

def pScalar {α : Type} [Codec α] : P α := do
  let t ← tok
  match Codec.parse t with
  | some x => pure x
  | none => throw s!"scalar expected: {t}"

def pMany {β : Type} (n : Nat) (p : P β) : P (List β) :=
  (List.range n).mapM fun _ => p

def rScalars {α : Type} [Codec α] (l : List α) : String :=
  " ".intercalate (l.map Codec.render)

def rInts (l : List Int) : String := " ".intercalate (l.map toString)

end D3

namespace D3
/-! vector helpers for driver modules (import D3.Model.Vec in the module that uses them) -/
end D3

namespace D3

def ratToFloat (q : Rat) : Float := Float.ofInt q.num / Float.ofNat q.den
def floatToRat (x : Float) : Rat := (floatBitsToRat x.toBits.toNat).getD 0

/-- transcendental functions at `Rat` go through `Float` (approximate; the driver's Q mode is
only used for functions that do not call them, or the result is flagged by the harness) -/
instance : HasAtan2 Rat := ⟨fun y x => floatToRat (Float.atan2 (ratToFloat y) (ratToFloat x))⟩
instance : HasTrig Rat :=
  ⟨fun x => floatToRat (Float.sin (ratToFloat x)), fun x => floatToRat (Float.cos (ratToFloat x))⟩

end D3
