import D3.Model.GjkJolt
import D3.Model.SimplexGood
import D3.Driver.Codec
import D3.Driver.VecCodec

namespace D3.Drv01
open D3 D3.GjkJolt

scalar_variables
variable [HasAtan2 α] [HasTrig α] [Codec α]

def pA4 : P (A4 (V3 α)) := do
  let a ← pV3; let b ← pV3; let c ← pV3; let d ← pV3
  pure ⟨a, b, c, d⟩

def rA4 (a : A4 (V3 α)) : String := " ".intercalate (a.toList.map rV3)

/-- `p q Y P Q n tolSq prev vLenSq sd maxDistSq` -/
structure StepArgs (α : Type) where
  p : V3 α
  q : V3 α
  st : State α
  tolSq : α
  maxDistSq : α

def pStepArgs : P (StepArgs α) := do
  let p ← pV3; let q ← pV3
  let Y ← pA4; let Pm ← pA4; let Qm ← pA4
  let n ← pNat
  let tolSq ← pScalar
  let prev ← pScalar
  let vLenSq ← pScalar
  let sd ← pV3
  let maxD ← pScalar
  pure ⟨p, q, ⟨Y, Pm, Qm, n, prev, vLenSq, sd⟩, tolSq, maxD⟩

def rStep (r : Except Err (StepOut α)) : String :=
  match r with
  | .error e => rErrS e
  | .ok o =>
    s!"ok {o.gs.code} {o.br} {o.st.nPoints} {o.set} {rScalars [o.st.prevVLenSq, o.st.vLenSq]} {rV3 o.st.sd} {rA4 o.st.Y} {rA4 o.st.P} {rA4 o.st.Q}"

/-- one call of `_distance_loop` with the C18 solver model -/
def stepFn : P String := do
  let a : StepArgs α ← pStepArgs
  pure (rStep (distanceLoopStep joltSolver a.p a.q a.st a.tolSq a.maxDistSq))

/-- one call of `_distance_loop` with the solver's answer supplied (abstract solver parameter):
`… success v(3) vLenSq set` -/
def stepWithFn : P String := do
  let a : StepArgs α ← pStepArgs
  let succ ← pNat
  let v ← pV3
  let vl ← pScalar
  let set ← pNat
  let solve : Solver α := fun _ _ _ => .ok ⟨succ = 1, v, vl, set⟩
  pure (rStep (distanceLoopStep solve a.p a.q a.st a.tolSq a.maxDistSq))

/-- `calculate_closest_points`: `Y P Q n` -/
def ccpFn : P String := do
  let Y : A4 (V3 α) ← pA4; let Pm ← pA4; let Qm ← pA4
  let n ← pNat
  match calculateClosestPoints joltBary Y Pm Qm n with
  | .error e => pure (rErrS e)
  | .ok none => pure "ok 0"
  | .ok (some (a, b)) => pure s!"ok 1 {rV3 a} {rV3 b}"

/-- `max_y_length_squared`: `Y n` -/
def maxYFn : P String := do
  let Y : A4 (V3 α) ← pA4
  let n ← pNat
  match maxYLengthSquared Y n with
  | .error e => pure (rErrS e)
  | .ok m => pure s!"ok {Codec.render m}"

/-- `update_simplex_ypq`: `Y P Q n simplex` -/
def updFn : P String := do
  let Y : A4 (V3 α) ← pA4; let Pm ← pA4; let Qm ← pA4
  let n ← pNat
  let s ← pNat
  match updateSimplexYPQ Y Pm Qm n s with
  | .error e => pure (rErrS e)
  | .ok (Y, Pm, Qm, k) => pure s!"ok {k} {rA4 Y} {rA4 Pm} {rA4 Qm}"

def rOpt (o : Option (V3 α)) : String :=
  match o with
  | none => "none"
  | some v => rV3 v

def rResult (r : Result α) : String :=
  s!"{if r.clipped then 1 else 0} {r.exit.code} {r.iterations} {r.st.nPoints} {Codec.render r.dist} {rOpt r.a} {rOpt r.b}"

/-- the `while True` loop with the support queries answered from a recorded trace; also
returns the search directions the model asked for and the number of unused trace entries -/
def traceLoop (tolSq maxDistSq : α) :
    List (V3 α × V3 α) → Nat → State α → List (V3 α) →
    Except Err (GjkState × State α × Nat × List (V3 α) × Nat)
  | [], _, _, _ => .error .fuel
  | (p, q) :: rest, it, st, dirs => do
    let r ← distanceLoopStep joltSolver p q st tolSq maxDistSq
    if r.gs = .unknown then traceLoop tolSq maxDistSq rest (it + 1) r.st (st.sd :: dirs)
    else .ok (r.gs, r.st, it + 1, (st.sd :: dirs).reverse, rest.length)

/-- `gjk_distance_jolt` on a recorded support trace: `tolerance maxDistSq sanity k (p q)×k` -/
def runFn : P String := do
  let tol : α ← pScalar
  let maxD : α ← pScalar
  let sanity : α ← pScalar
  let k ← pNat
  let pq ← pMany k (do let p ← pV3; let q ← pV3; pure (p, q))
  let st0 : State α := gjkInit ⟨V3.zero, V3.zero, V3.zero, V3.zero⟩
  match traceLoop (tol * tol) maxD pq 0 st0 [] with
  | .error e => pure (rErrS e)
  | .ok (gs, st, it, dirs, left) =>
    let fin : Except Err (Result α) :=
      if gs = .clipped then .ok ⟨true, MAXF, none, none, gs, st, it⟩
      else gjkFinish joltBary sanity gs st it
    match fin with
    | .error e => pure (rErrS e)
    | .ok r => pure s!"ok {rResult r} {left} ; {" ".intercalate (dirs.map rV3)}"

/-- `ConvexHullVertices.support_function`: `vertices[np.argmax(vertices.dot(d))]` (first maximum) -/
def hullSupport (vs : List (V3 α)) (d : V3 α) : V3 α :=
  match vs with
  | [] => V3.zero
  | v0 :: rest =>
    (rest.foldl (fun (acc : V3 α × α) v =>
      let s := V3.dot v d
      if acc.2 < s then (v, s) else acc) (v0, V3.dot v0 d)).1

/-- `gjk_distance_jolt` on two vertex hulls, end to end in the model:
`tolerance maxDistSq sanity fuel nA vertsA nB vertsB` -/
def hullFn : P String := do
  let tol : α ← pScalar
  let maxD : α ← pScalar
  let sanity : α ← pScalar
  let fuel ← pNat
  let nA ← pNat
  let va ← pMany nA (pV3 (α := α))
  let nB ← pNat
  let vb ← pMany nB (pV3 (α := α))
  match gjkDistance joltSolver joltBary (hullSupport va) (hullSupport vb) tol maxD sanity
      ⟨V3.zero, V3.zero, V3.zero, V3.zero⟩ fuel with
  | .error e => pure (rErrS e)
  | .ok r => pure s!"ok {rResult r}"

/-- run-time evidence for the hypothesis `VisitedGood JoltGood` of the `C01.jolt_*` theorems: `Y n` ↦
`joltGoodB Y n` (the executable form of `JoltGood`, `D3.Gjk.joltGoodB_iff`); meant to be run at `Rat`
on the simplices a recorded run hands to the solver -/
def goodFn : P String := do
  let Y : A4 (V3 α) ← pA4
  let n ← pNat
  pure (if joltGoodB Y n then "ok 1" else "ok 0")

def dispatch (fn : String) : Option (P String) :=
  match fn with
  | "C01.step" => some (stepFn (α := α))
  | "C01.stepWith" => some (stepWithFn (α := α))
  | "C01.ccp" => some (ccpFn (α := α))
  | "C01.maxY" => some (maxYFn (α := α))
  | "C01.upd" => some (updFn (α := α))
  | "C01.run" => some (runFn (α := α))
  | "C01.hull" => some (hullFn (α := α))
  | "C01.good" => some (goodFn (α := α))
  | _ => none

end D3.Drv01
