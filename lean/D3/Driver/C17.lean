import D3.Model.TetraMesh
import D3.Driver.Codec
import D3.Driver.VecCodec

namespace D3.Drv17
open D3 D3.TetraMesh

scalar_variables
variable [HasAtan2 α] [HasTrig α] [Codec α]

/-- `ok <branch> <nv> <nt> <3·nv scalars> <4·nt ints> <nv scalars>` -/
def rMesh (branch : Nat) (m : Mesh α) : String :=
  let vs := rScalars (m.vertices.flatMap fun p => [p.x, p.y, p.z])
  let ts := " ".intercalate (m.tets.map fun t => s!"{t.i0} {t.i1} {t.i2} {t.i3}")
  let ps := rScalars m.potentials
  s!"ok {branch} {m.vertices.length} {m.tets.length} {m.potentials.length} | {vs} | {ts} | {ps}"

def rMeshE (branch : Nat) (r : Except Err (Mesh α)) : String :=
  match r with
  | .ok m => rMesh branch m
  | .error e => rErrS e

def pTetPts : P (TetPts α) := do
  let a ← pV3; let b ← pV3; let c ← pV3; let d ← pV3
  pure ⟨a, b, c, d⟩

def boxFn : P String := do
  let s : V3 α ← pV3
  pure (rMeshE (boxBranch s) (makeTetrahedralBox s))

def cubeFn : P String := do
  let s : α ← pScalar
  pure (rMesh 0 (makeTetrahedralCube s))

def volFn : P String := do
  let t : TetPts α ← pTetPts
  pure s!"ok {volumeBranch t} {Codec.render (tetraVolume t)}"

def aabbFn : P String := do
  let t : TetPts α ← pTetPts
  let b := tetAabb t
  pure s!"ok 0 {rScalars [b.lo0, b.hi0, b.lo1, b.hi1, b.lo2, b.hi2]}"

def comFn : P String := do
  let n ← pNat
  let ts ← pMany n (pTetPts (α := α))
  match centerOfMass ts with
  | .ok c => pure s!"ok 0 {rV3 c}"
  | .error e => pure (rErrS e)

def cylClassFn : P String := do
  let r : α ← pScalar
  let l : α ← pScalar
  pure s!"ok {cylinderClass r l}"

/-- mesh for the class the model decides, with the number of circle vertices given -/
def cylinderNFn : P String := do
  let r : α ← pScalar
  let l : α ← pScalar
  let n ← pNat
  let cls := cylinderClass r l
  pure (rMeshE cls (cylinderMeshN cls r l n))

/-- full factory incl. `max(3, ceil(2πr/h))` -/
def cylinderFn : P String := do
  let r : α ← pScalar
  let l : α ← pScalar
  let h : α ← pScalar
  pure (rMeshE (cylinderClass r l) (makeTetrahedralCylinder r l h 200000))

def sphereFn : P String := do
  let r : α ← pScalar
  let order ← pNat
  pure (rMeshE order (makeTetrahedralSphere r order))

def ellipsoidFn : P String := do
  let r : V3 α ← pV3
  let order ← pNat
  pure (rMeshE order (makeTetrahedralEllipsoid r order))

def capsuleFn : P String := do
  let r : α ← pScalar
  let hgt : α ← pScalar
  let h : α ← pScalar
  if h = 0 then pure (rErrS .divZero)
  else
    let n := clipInt3_706 (2 * piLit * r / h)
    pure (rMeshE n (capsuleMeshN r hgt n))

def dispatch (fn : String) : Option (P String) :=
  match fn with
  | "C17.box" => some (boxFn (α := α))
  | "C17.cube" => some (cubeFn (α := α))
  | "C17.vol" => some (volFn (α := α))
  | "C17.aabb" => some (aabbFn (α := α))
  | "C17.com" => some (comFn (α := α))
  | "C17.cylclass" => some (cylClassFn (α := α))
  | "C17.cylinderN" => some (cylinderNFn (α := α))
  | "C17.cylinder" => some (cylinderFn (α := α))
  | "C17.sphere" => some (sphereFn (α := α))
  | "C17.ellipsoid" => some (ellipsoidFn (α := α))
  | "C17.capsule" => some (capsuleFn (α := α))
  | _ => none

end D3.Drv17
