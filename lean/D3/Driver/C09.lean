import D3.Model.Nesterov
import D3.Model.GjkOrig
import D3.Driver.VecCodec

namespace D3.Drv09
open D3 D3.Nesterov

scalar_variables
variable [HasAtan2 α] [HasTrig α] [Codec α]

def pKind : P Kind := do
  match (← pNat) with
  | 0 => pure .sphere | 1 => pure .capsule | 2 => pure .box | 3 => pure .ellipsoid
  | 4 => pure .cylinder | _ => pure .other

def pBool : P Bool := do
  let n ← pNat
  pure (n != 0)

def b2s (b : Bool) : String := if b then "1" else "0"

/-- `kind data radius` -/
def pColl : P (Coll α) := do
  let k ← pKind
  let d ← pV3
  let r ← pScalar
  pure ⟨k, d, r⟩

def rSimplex (s : Simplex α) (n : Nat) : String :=
  " ".intercalate (((List.range 4).take n).map fun i => rV3 (s.row i))

/-- `C09.select kind data radius dir` -/
def selectFn : P String := do
  let c : Coll α ← pColl
  let dir : V3 α ← pV3
  match selectSupport dir c with
  | .ok v => pure s!"ok {b2s c.kind.found} {rV3 v}"
  | .error e => pure (rErrS e)

/-- `C09.supp coll0 coll1 oR1 ot1 dir` : the dispatch and, for two specialised colliders, the pair -/
def suppFn : P String := do
  let c0 : Coll α ← pColl
  let c1 : Coll α ← pColl
  let oR1 : M3 α ← pM3
  let ot1 : V3 α ← pV3
  let dir : V3 α ← pV3
  let br := dispatchBranch c0 c1
  let infl := inflationOf c0 c1
  if br = 1 then pure s!"ok 1 {Codec.render infl}"
  else
    match supportFunction c0 c1 oR1 ot1 (fun _ => .error .badInput) (fun _ => .error .badInput) dir with
    | .ok (s0, s1) => pure s!"ok 0 {Codec.render infl} {rV3 s0} {rV3 s1}"
    | .error e => pure (rErrS e)

def rProj (r : Except Err (Proj α)) : String :=
  match r with
  | .ok p => s!"ok {p.branch} {p.len} {b2s p.inside} {rV3 p.ray} {rSimplex p.simplex (min p.len 4)}"
  | .error e => rErrS e

def pSimplex (n : Nat) : P (Simplex α) := do
  let rows ← pMany n (pV3 (α := α))
  let z : V3 α := ⟨0, 0, 0⟩
  pure ⟨rows.getD 0 z, rows.getD 1 z, rows.getD 2 z, rows.getD 3 z⟩

/-- `C09.proj n rows…` : `project_line_origin` (n=2), `project_triangle_origin` (3), `project_tetra_to_origin` (4) -/
def projFn : P String := do
  let n ← pNat
  let s : Simplex α ← pSimplex n
  pure (rProj (project s n (s.row (n - 1))))

/-- `C09.omega rayDir sp tol rayLen alpha ray` -> omega, cv_check_passed (with max(alpha, omega)), fw gap test -/
def omegaFn : P String := do
  let rd : V3 α ← pV3
  let sp : V3 α ← pV3
  let tol : α ← pScalar
  let rayLen : α ← pScalar
  let alpha : α ← pScalar
  let ray : V3 α ← pV3
  match omegaOf rd sp with
  | .ok w =>
    let a := max alpha w
    pure s!"ok {Codec.render w} {Codec.render a} {b2s (cvCheckPassed tol rayLen a)} {b2s (fwGapSmall tol ray sp)}"
  | .error e => pure (rErrS e)

/-- oracle state of a trace-answered run: remaining answers, queries so far (reversed) -/
structure TraceO (α : Type) where
  answers : List (V3 α × V3 α)
  queries : List (V3 α)

def traceSupp (o : TraceO α) (dir : V3 α) : Except Err ((V3 α × V3 α) × TraceO α) :=
  match o.answers with
  | a :: rest => .ok (a, ⟨rest, dir :: o.queries⟩)
  | [] => .error .indexOOB

/-- `C09.trace maxIter upperBound tol inflation normalize accel n (s0 s1)…` : the main loop with the
support calls answered from a recorded run; prints exit, inside, distance, iterations, simplex_len,
the number of support calls, every queried direction and the simplex rows -/
def traceFn : P String := do
  let maxIter ← pNat
  let ub : α ← pScalar
  let tol : α ← pScalar
  let infl : α ← pScalar
  let normalize ← pBool
  let accel ← pBool
  let n ← pNat
  let ans ← pMany n (do let a : V3 α ← pV3; let b : V3 α ← pV3; pure (a, b))
  match gjk maxIter ub tol infl normalize accel traceSupp (⟨ans, []⟩ : TraceO α) with
  | .ok (r, o) =>
    let qs := o.queries.reverse
    pure s!"ok {r.exit} {b2s r.inside} {Codec.render r.distance} {r.iters} {r.len} {qs.length} {" ".intercalate (qs.map rV3)} ; {rSimplex r.simplex (min r.len 4)}"
  | .error e => pure (rErrS e)

/-! original GJK -/
open GjkOrig in
def pEntry : P (Entry α) := do
  let i ← pNat; let j ← pNat; let p ← pV3
  pure ⟨i, j, p⟩

open GjkOrig in
/-- one recorded answer of the sub-algorithm: `nw w… dir dsq nsimplex entries… backup` -/
def pSubAns : P (Sol α × List (Entry α) × Bool) := do
  let nw ← pNat
  let w ← pMany nw (pScalar (α := α))
  let dir ← pV3
  let dsq ← pScalar
  let ns ← pNat
  let es ← pMany ns (pEntry (α := α))
  let b ← pBool
  pure (⟨w, dir, dsq⟩, es, b)

open GjkOrig in
structure OrigO (α : Type) where
  subs : List (Sol α × List (Entry α) × Bool)
  supps : List (V3 α × V3 α)
  /-- log: simplex handed to the sub-algorithm at each call (reversed) -/
  seen : List (List (Entry α) × Bool)
  queries : List (V3 α)

open GjkOrig in
def origOracle : Oracle α (OrigO α) where
  sub o simplex _ backup :=
    match o.subs with
    | a :: rest => .ok (a, { o with subs := rest, seen := (simplex, backup) :: o.seen })
    | [] => .error .indexOOB
  supp o dir :=
    match o.supps with
    | a :: rest => .ok (a, { o with supps := rest, queries := dir :: o.queries })
    | [] => .error .indexOOB

open GjkOrig in
def rEntries (es : List (Entry α)) : String :=
  " ".intercalate (es.map fun e => s!"{e.i1} {e.i2} {rV3 e.pt}")

open GjkOrig in
/-- `C09.orig v1 v2 nsub subAns… nsupp (p q)…` : main loop of `gjk_distance_original` with the
sub-algorithm and the supports answered from a recorded run -/
def origFn : P String := do
  let v1 : V3 α ← pV3
  let v2 : V3 α ← pV3
  let ns ← pNat
  let subs ← pMany ns (pSubAns (α := α))
  let np ← pNat
  let supps ← pMany np (do let a : V3 α ← pV3; let b : V3 α ← pV3; pure (a, b))
  match gjkOriginal origOracle (ns + 2) v1 v2 (⟨subs, supps, [], []⟩ : OrigO α) with
  | .ok (r, o) =>
    let seen := o.seen.reverse
    let qs := o.queries.reverse
    let seenS := " | ".intercalate (seen.map fun (s, b) => s!"{s.length} {b2s b} {rEntries s}")
    pure s!"ok {r.branch} {Codec.render r.distance} {rV3 r.a} {rV3 r.b} {r.iterations} {qs.length} {" ".intercalate (qs.map rV3)} ; {seenS}"
  | .error e => pure (rErrS e)

open GjkOrig in
/-- `C09.order d1 d2 d3` : `nondecreasing_ordered_indices` -/
def orderFn : P String := do
  let d1 : α ← pScalar
  let d2 : α ← pScalar
  let d3 : α ← pScalar
  pure s!"ok {" ".intercalate ((nondecreasingOrder d1 d2 d3).map toString)}"

def dispatch (fn : String) : Option (P String) :=
  match fn with
  | "C09.select" => some (selectFn (α := α))
  | "C09.supp" => some (suppFn (α := α))
  | "C09.proj" => some (projFn (α := α))
  | "C09.omega" => some (omegaFn (α := α))
  | "C09.trace" => some (traceFn (α := α))
  | "C09.orig" => some (origFn (α := α))
  | "C09.order" => some (orderFn (α := α))
  | _ => none

end D3.Drv09
