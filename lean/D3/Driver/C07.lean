import D3.Model.Epa
import D3.Driver.Codec
import D3.Driver.VecCodec

namespace D3.Drv07
open D3 D3.Epa

scalar_variables
variable [HasAtan2 α] [HasTrig α] [Codec α]

def pFace : P (Face α) := do
  let a ← pV3; let b ← pV3; let c ← pV3; let n ← pV3
  pure ⟨a, b, c, n⟩

def pFaces : P (List (Face α)) := do
  let n ← pNat
  pMany n pFace

def rFace (f : Face α) : String := s!"{rV3 f.a} {rV3 f.b} {rV3 f.c} {rV3 f.n}"

def rFaces (l : List (Face α)) : String :=
  s!"{l.length} " ++ " ".intercalate (l.map rFace)

def rEdges (l : List (Edge α)) : String :=
  s!"{l.length} " ++ " ".intercalate (l.map fun e => s!"{rV3 e.1} {rV3 e.2}")

/-- `maxIter maxLoose maxFaces eps bias`; `maxIter = 0 ∧ …` is not special: use `dflt` op for defaults -/
def pParams : P (Params α) := do
  let t ← tok
  if t = "dflt" then pure defaultParams else
  match t.toNat? with
  | none => throw s!"params: {t}"
  | some mi =>
    let ml ← pNat; let mf ← pNat; let e ← pScalar; let b ← pScalar
    pure ⟨mi, ml, mf, e, b⟩

/-- `cur` = the code as it is now; `before` = the code before the upstream repair of the winding -/
def pVariant : P Bool := do
  let t ← tok
  if t = "cur" then pure true
  else if t = "before" then pure false
  else throw s!"variant {t}"

def fixOf (cur : Bool) (bias : α) : Face α → Face α :=
  if cur then fixCcw bias else fixCcw_asIs_before_fix bias

def initOf (cur : Bool) : V3 α → V3 α → V3 α → V3 α → List (Face α) :=
  if cur then initFaces else initFaces_asIs_before_fix

/-- `C07.init <cur|before> s0 s1 s2 s3` → `ok <swapped 0/1> <faces>` -/
def initFn : P String := do
  let cur ← pVariant
  let s0 : V3 α ← pV3; let s1 ← pV3; let s2 ← pV3; let s3 ← pV3
  let sw := cur && decide (0 < simplexOrient s0 s1 s2 s3)
  pure s!"ok {if sw then 1 else 0} {Codec.render (simplexOrient s0 s1 s2 s3)} {rFaces (initOf cur s0 s1 s2 s3)}"

/-- `C07.closest <faces>` → `ok idx minDist` -/
def closestFn : P String := do
  let fs : List (Face α) ← pFaces
  match closest fs with
  | .ok (i, d, _) => pure s!"ok {i} {Codec.render d}"
  | .error e => pure (rErrS e)

/-- `C07.step <params> <cur|before> <faces> <w>` : one loop body with the recorded support point.
`ok 0 idx minDist mtv` (converged) | `ok 1 idx minDist ov <kept> ; <loose> ; <faces>` | `err …` -/
def stepFn : P String := do
  let p : Params α ← pParams
  let cur ← pVariant
  let fix := fixOf cur p.bias
  let fs ← pFaces
  let w ← pV3
  match closest fs with
  | .error e => pure (rErrS e)
  | .ok (i, d, f) =>
    match stepWith p fix fs d f w with
    | .error e => pure s!"err {e} {i} {Codec.render d}"
    | .ok (.done mtv) => pure s!"ok 0 {i} {Codec.render d} {rV3 mtv}"
    | .ok (.grown faces' loose ov kept) =>
      pure s!"ok 1 {i} {Codec.render d} {if ov then 1 else 0} {rFaces kept} ; {rEdges loose} ; {rFaces faces'}"

/-- `C07.run <params> <cur|before> s0 s1 s2 s3 <nW> w_0 … w_{nW-1}` : whole `epa` with the support
queries answered from the recorded trace (query `it` gets `w_it`; beyond the trace: zero vector and
the flag `short`). `ok success iters nfaces (mtv|stale) <faces> ; <query directions>` -/
def runFn : P String := do
  let p : Params α ← pParams
  let cur ← pVariant
  let s0 : V3 α ← pV3; let s1 ← pV3; let s2 ← pV3; let s3 ← pV3
  let nW ← pNat
  let ws ← pMany nW (pV3 (α := α))
  let supp : Nat → V3 α → V3 α := fun it _ => (ws[it]?).getD ⟨0, 0, 0⟩
  match epaWith p (fixOf cur p.bias) (initOf cur) supp s0 s1 s2 s3 with
  | .error e => pure (rErrS e)
  | .ok r =>
    let m := match r.mtv with
      | some v => rV3 v
      | none => "stale"
    pure s!"ok {if r.success then 1 else 0} {r.iters} {m} {rFaces r.faces}"

/-- `C07.fixccw <cur|before> bias <face>` -/
def fixFn : P String := do
  let cur ← pVariant
  let bias : α ← pScalar
  let f : Face α ← pFace
  let g := fixOf cur bias f
  let flipped := decide (V3.dot f.a f.n + bias < 0)
  pure s!"ok {if flipped then 1 else 0} {rFace g}"

/-- `C07.cert slack <faces>` : the Lean-verified certificate on returned faces.
`ok <cert> <closed> <nondegenerate> <normalsOut> <originInside> <vertsInside>` -/
def certFn : P String := do
  let slack : α ← pScalar
  let fs : List (Face α) ← pFaces
  let b (x : Bool) : String := if x then "1" else "0"
  let closed := closedSurface fs
  let nondeg := fs.all fun f => decide (0 < V3.dot (rawNormal f) (rawNormal f))
  let nout := fs.all fun f => decide (0 < V3.dot (rawNormal f) f.n)
  let orig := fs.all fun f => decide (height f ⟨0, 0, 0⟩ ≤ 0)
  let vin := fs.all fun f => (allVerts fs).all fun v => decide (height f v ≤ slack)
  pure s!"ok {b (facesCertificate slack fs)} {b closed} {b nondeg} {b nout} {b orig} {b vin}"

def dispatch (fn : String) : Option (P String) :=
  match fn with
  | "C07.init" => some (initFn (α := α))
  | "C07.closest" => some (closestFn (α := α))
  | "C07.step" => some (stepFn (α := α))
  | "C07.run" => some (runFn (α := α))
  | "C07.fixccw" => some (fixFn (α := α))
  | "C07.cert" => some (certFn (α := α))
  | _ => none

end D3.Drv07
