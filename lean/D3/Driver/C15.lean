import D3.Model.Hydro
import D3.Driver.VecCodec

namespace D3.Drv15
open D3 D3.Hydro

scalar_variables
variable [HasAtan2 α] [HasTrig α] [Codec α]

def pV2 : P (V2 α) := do
  let a ← pScalar; let b ← pScalar
  pure ⟨a, b⟩

def pHP : P (HP α) := do
  let p ← pV2; let d ← pV2
  pure ⟨p, d⟩

def pRow4 : P (Row4 α) := do
  let n ← pV3; let c ← pScalar
  pure ⟨n, c⟩

def pX4 : P (X4 α) := do
  let a ← pRow4; let b ← pRow4; let c ← pRow4; let d ← pRow4
  pure ⟨a, b, c, d⟩

def pQ4 : P (Q4 α) := do
  let a ← pScalar; let b ← pScalar; let c ← pScalar; let d ← pScalar
  pure ⟨a, b, c, d⟩

def pTet : P (Tet α) := do
  let a ← pV3; let b ← pV3; let c ← pV3; let d ← pV3
  pure ⟨a, b, c, d⟩

def rV2s (l : List (V2 α)) : String := rScalars (l.flatMap fun p => [p.x, p.y])
def rV3s (l : List (V3 α)) : String := rScalars (l.flatMap fun p => [p.x, p.y, p.z])
def rHPs (l : List (HP α)) : String := rScalars (l.flatMap fun h => [h.p.x, h.p.y, h.d.x, h.d.y])
def rRow4 (r : Row4 α) : String := rScalars [r.n.x, r.n.y, r.n.z, r.c]

def cross2dFn : P String := do
  let a : V2 α ← pV2; let b : V2 α ← pV2
  pure s!"ok {Codec.render (cross2d a b)}"

def i2hFn : P String := do
  let h1 : HP α ← pHP; let h2 : HP α ← pHP
  match intersectTwoHalfplanes h1 h2 with
  | none => pure "ok 0"
  | some p => pure s!"ok 1 {rV2s [p]}"

def pohFn : P String := do
  let h : HP α ← pHP; let q : V2 α ← pV2
  pure s!"ok {if pointOutsideOfHalfplane h q then 1 else 0} {Codec.render (hpSide h q)}"

def ihFn (old : Bool) : P String := do
  let n ← pNat
  let hps : List (HP α) ← pMany n pHP
  match (if old then intersectHalfplanes_asIs_before_fix hps else intersectHalfplanes hps) with
  | .ok l => pure s!"ok {l.length} {rV2s l}"
  | .error e => pure (rErrS e)

def basisFn : P String := do
  let n : V3 α ← pV3
  match planeBasisFromNormal n with
  | .ok (b, x, y) => pure s!"ok {b} {rV3 x} {rV3 y}"
  | .error e => pure (rErrS e)

/-- `m` rows, plane point, the two rows of cart2plane; prints the skip mask (branch) too -/
def mhFn (old : Bool) : P String := do
  let m ← pNat
  let X : List (Row4 α) ← pMany m pRow4
  let pp : V3 α ← pV3; let cx : V3 α ← pV3; let cy : V3 α ← pV3
  let mask := String.ofList (X.map fun r => if (makeHalfplaneRow pp cx cy r).isSome then '1' else '0')
  if old then
    let g : HP α ← pHP
    let l := makeHalfplanes_asIs_before_fix g X pp cx cy
    pure s!"ok {mask} {l.length} {rHPs l}"
  else
    let l := makeHalfplanes X pp cx cy
    pure s!"ok {mask} {l.length} {rHPs l}"

def cpFn : P String := do
  let X1 : X4 α ← pX4; let X2 : X4 α ← pX4
  let e1 : Q4 α ← pQ4; let e2 : Q4 α ← pQ4
  let E1 : α ← pScalar; let E2 : α ← pScalar
  let (h, same, b) := contactPlane X1 X2 e1 e2 E1 E2
  pure s!"ok {b} {if same then 1 else 0} {rRow4 h}"

def sameFn : P String := do
  let e : Q4 α ← pQ4; let t : Tet α ← pTet
  match handleSameTetrahedron e t with
  | .ok (b, pl, poly) => pure s!"ok {b} {rRow4 pl} {poly.length} {rV3s poly}"
  | .error e => pure (rErrS e)

def chkFn : P String := do
  let t1 : Tet α ← pTet; let t2 : Tet α ← pTet
  let n : V3 α ← pV3; let d : α ← pScalar; let tol : α ← pScalar
  pure s!"ok {if checkTetrahedraIntersectContactPlane t1 t2 n d tol then 1 else 0}"

def orderFn : P String := do
  let k ← pNat
  let pts : List (V2 α) ← pMany k pV2
  let l := orderPoints pts
  pure s!"ok {l.length} {rV2s l}"

def uniqFn : P String := do
  let k ← pNat
  let pts : List (V2 α) ← pMany k pV2
  let l := filterUniquePoints pts
  pure s!"ok {l.length} {rV2s l}"

def polyFn : P String := do
  let X1 : X4 α ← pX4; let X2 : X4 α ← pX4
  let n : V3 α ← pV3; let d : α ← pScalar
  match computeContactPolygon X1 X2 n d with
  | .ok (b, l) => pure s!"ok {b} {l.length} {rV3s l}"
  | .error e => pure (rErrS e)

def pairFn : P String := do
  let t1 : Tet α ← pTet; let e1 : Q4 α ← pQ4; let X1 : X4 α ← pX4
  let t2 : Tet α ← pTet; let e2 : Q4 α ← pQ4; let X2 : X4 α ← pX4
  let E1 : α ← pScalar; let E2 : α ← pScalar
  match intersectTetrahedronPair t1 e1 X1 t2 e2 X2 E1 E2 with
  | .ok r =>
    let poly := match r.polygon with
      | none => "-1"
      | some l => s!"{l.length} {rV3s l}"
    pure s!"ok {r.branch} {if r.intersecting then 1 else 0} {rRow4 r.plane} {poly}"
  | .error e => pure (rErrS e)

/-- `np.linalg.solve(X, b)` is a parameter of the model: the harness passes the inverse of
`X = [[tetrahedron.T],[1 1 1 1]]` (rows `[n, c]`), `solve b = Xinv · (b, 1)` -/
def forceFn : P String := do
  let Xi : X4 α ← pX4
  let e : Q4 α ← pQ4
  let pl : Row4 α ← pRow4
  let E : α ← pScalar
  let k ← pNat
  let poly : List (V3 α) ← pMany k pV3
  let solve (b : V3 α) : Q4 α :=
    ⟨V3.dot Xi.r0.n b + Xi.r0.c, V3.dot Xi.r1.n b + Xi.r1.c, V3.dot Xi.r2.n b + Xi.r2.c,
     V3.dot Xi.r3.n b + Xi.r3.c⟩
  match computeContactForce solve e pl poly E with
  | .ok r => pure s!"ok {r.nTriangles} {rV3 r.com} {rV3 r.force} {rScalars [r.area, r.totalForce]}"
  | .error e => pure (rErrS e)

def dispatch (fn : String) : Option (P String) :=
  match fn with
  | "C15.cross2d" => some (cross2dFn (α := α))
  | "C15.i2h" => some (i2hFn (α := α))
  | "C15.poh" => some (pohFn (α := α))
  | "C15.ih" => some (ihFn (α := α) false)
  | "C15.ih.before_fix" => some (ihFn (α := α) true)
  | "C15.basis" => some (basisFn (α := α))
  | "C15.mh" => some (mhFn (α := α) false)
  | "C15.mh.before_fix" => some (mhFn (α := α) true)
  | "C15.cp" => some (cpFn (α := α))
  | "C15.same" => some (sameFn (α := α))
  | "C15.chk" => some (chkFn (α := α))
  | "C15.order" => some (orderFn (α := α))
  | "C15.uniq" => some (uniqFn (α := α))
  | "C15.poly" => some (polyFn (α := α))
  | "C15.pair" => some (pairFn (α := α))
  | "C15.force" => some (forceFn (α := α))
  | _ => none

end D3.Drv15
