import D3.Model.PoseAlg
import D3.Driver.VecCodec

namespace D3.Drv12
open D3 D3.PoseAlg

scalar_variables
variable [HasAtan2 α] [HasTrig α] [Codec α]

def rPose (A : Pose α) : String := rScalars (A.R.toList ++ A.t.toList)

def rRes (r : Res α) : String :=
  s!"ok {r.br} {Codec.render r.d} {rV3 r.p1} {rV3 r.p2} {Codec.render r.t1} {Codec.render r.t2}"

def rPL (r : PL α) : String := s!"ok {Codec.render r.d} {rV3 r.p} {Codec.render r.t}"

def fTransformPoint : P String := do
  let A : Pose α ← pPose; let p ← pV3
  pure s!"ok {rV3 (transformPoint A p)}"

def fInverseTransformPoint : P String := do
  let A : Pose α ← pPose; let p ← pV3
  pure s!"ok {rV3 (inverseTransformPoint A p)}"

def fInvertTransform : P String := do
  let A : Pose α ← pPose
  pure s!"ok {rPose (invertTransform A)}"

def fTransformPoints : P String := do
  let A : Pose α ← pPose; let n ← pNat; let ps ← pMany n pV3
  pure ("ok " ++ " ".intercalate ((transformPoints A ps).map rV3))

def fTransformDirections : P String := do
  let A : Pose α ← pPose; let n ← pNat; let ps ← pMany n pV3
  pure ("ok " ++ " ".intercalate ((transformDirections A ps).map rV3))

def fCompose : P String := do
  let A : Pose α ← pPose; let B ← pPose
  pure s!"ok {rPose (compose A B)}"

def fRelativePose : P String := do
  let A : Pose α ← pPose; let B ← pPose
  pure s!"ok {rPose (relativePose A B)}"

def fSupportCapsule : P String := do
  let d : V3 α ← pV3; let A ← pPose; let r ← pScalar; let h ← pScalar
  let ld := A.R.tmulVec d
  let br : Nat := if 0 < ld.z then 1 else 0
  pure s!"ok {br} {rV3 (supportCapsule d A r h)}"

def fPointToLine : P String := do
  let p : V3 α ← pV3; let lp ← pV3; let ld ← pV3
  pure (rPL (pointToLineK p lp ld))

def fPointToSegment : P String := do
  let p : V3 α ← pV3; let a ← pV3; let b ← pV3
  match pointToSegment p a b with
  | .ok r => pure (rPL r)
  | .error e => pure (rErrS e)

def fLineToLine : P String := do
  let p1 : V3 α ← pV3; let d1 ← pV3; let p2 ← pV3; let d2 ← pV3
  match lineToLine p1 d1 p2 d2 with
  | .ok r => pure (rRes r)
  | .error e => pure (rErrS e)

def fSegToSeg : P String := do
  let s1 : V3 α ← pV3; let e1 ← pV3; let s2 ← pV3; let e2 ← pV3
  match segToSeg s1 e1 s2 e2 with
  | .ok r => pure (rRes r)
  | .error e => pure (rErrS e)

def fPointToPlane : P String := do
  let p : V3 α ← pV3; let pp ← pV3; let pn ← pV3; let sg ← pNat
  let r := pointToPlaneK p pp pn (sg = 1)
  pure s!"ok {Codec.render r.1} {rV3 r.2}"

def fPointToBox : P String := do
  let p : V3 α ← pV3; let A ← pPose; let size ← pV3
  let r := pointToBox p A size
  pure s!"ok {Codec.render r.1} {rV3 r.2}"

def dispatch (fn : String) : Option (P String) :=
  match fn with
  | "C12.transform_point" => some (fTransformPoint (α := α))
  | "C12.inverse_transform_point" => some (fInverseTransformPoint (α := α))
  | "C12.invert_transform" => some (fInvertTransform (α := α))
  | "C12.transform_points" => some (fTransformPoints (α := α))
  | "C12.transform_directions" => some (fTransformDirections (α := α))
  | "C12.compose" => some (fCompose (α := α))
  | "C12.relative_pose" => some (fRelativePose (α := α))
  | "C12.support_capsule" => some (fSupportCapsule (α := α))
  | "C12.point_to_line" => some (fPointToLine (α := α))
  | "C12.point_to_segment" => some (fPointToSegment (α := α))
  | "C12.line_to_line" => some (fLineToLine (α := α))
  | "C12.seg_to_seg" => some (fSegToSeg (α := α))
  | "C12.point_to_plane" => some (fPointToPlane (α := α))
  | "C12.point_to_box" => some (fPointToBox (α := α))
  | _ => none

end D3.Drv12
