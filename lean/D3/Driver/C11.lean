import D3.Model.DistPoly
import D3.Gen.Constants
import D3.Driver.VecCodec

namespace D3.Drv11
open D3 D3.DistPoly

scalar_variables
variable [HasAtan2 α] [HasTrig α] [Codec α]

def rPt (r : Except Err (PtRes α)) : String :=
  match r with
  | .ok r => s!"ok {r.branch} {Codec.render r.dist} {rV3 r.cp}"
  | .error e => rErrS e

def rLn (r : Except Err (LnRes α)) : String :=
  match r with
  | .ok r => s!"ok {r.branch} {Codec.render r.dist} {rV3 r.cpLine} {rV3 r.cpPrim} {Codec.render r.t}"
  | .error e => rErrS e

/-- `p a b c` -/
def triFn : P String := do
  let p : V3 α ← pV3; let a ← pV3; let b ← pV3; let c ← pV3
  pure (rPt (pointToTriangle p a b c))

/-- `p center ax0 ax1 l0 l1` -/
def rectFn : P String := do
  let p : V3 α ← pV3; let c ← pV3; let a0 ← pV3; let a1 ← pV3
  let l0 ← pScalar; let l1 ← pScalar
  pure (rPt (pointToRectangle p c a0 a1 l0 l1))

/-- `p pose(12) size(3)` -/
def boxFn : P String := do
  let p : V3 α ← pV3; let A ← pPose; let s ← pV3
  pure (rPt (pointToBox p A s))

/-- `p center radius normal` -/
def diskFn : P String := do
  let p : V3 α ← pV3; let c ← pV3; let r ← pScalar; let n ← pV3
  pure (rPt (pointToDisk p c r n))

/-- `p pose(12) radius length` -/
def cylFn : P String := do
  let p : V3 α ← pV3; let A ← pPose; let r ← pScalar; let l ← pScalar
  pure (rPt (pointToCylinder p A r l))

/-- `p center radius normal` (default epsilon, regenerated from /repo) -/
def circleFn : P String := do
  let p : V3 α ← pV3; let c ← pV3; let r ← pScalar; let n ← pV3
  pure (rPt (pointToCircle p c r n Gen.distance__circle__point_to_circle__epsilon))

/-- `lp ld a b c` (default epsilon) -/
def lineTriFn : P String := do
  let lp : V3 α ← pV3; let ld ← pV3; let a ← pV3; let b ← pV3; let c ← pV3
  pure (rLn (lineToTriangleFull lp ld a b c Gen.distance__triangle__line_to_triangle__epsilon
    Gen.utils__MAX_FLOAT))

/-- `s e a b c` (default epsilon) -/
def segTriFn : P String := do
  let s : V3 α ← pV3; let e ← pV3; let a ← pV3; let b ← pV3; let c ← pV3
  pure (rLn (lineSegmentToTriangle s e a b c
    Gen.distance__triangle__line_segment_to_triangle__epsilon Gen.utils__MAX_FLOAT))

def dispatch (fn : String) : Option (P String) :=
  match fn with
  | "C11.point_to_triangle" => some (triFn (α := α))
  | "C11.point_to_rectangle" => some (rectFn (α := α))
  | "C11.point_to_box" => some (boxFn (α := α))
  | "C11.point_to_disk" => some (diskFn (α := α))
  | "C11.point_to_cylinder" => some (cylFn (α := α))
  | "C11.point_to_circle" => some (circleFn (α := α))
  | "C11.line_to_triangle" => some (lineTriFn (α := α))
  | "C11.line_segment_to_triangle" => some (segTriFn (α := α))
  | _ => none

end D3.Drv11
