import D3.Model.ColliderState
import D3.Driver.VecCodec

/-!
Driver of C14: runs the collider state machine on an op sequence.

`<id> C14.run <F|Q> <interp|jit> <now|before> <shape> <pose> <nops> <op>*`

* layout   : `C` | `F` | `A`
* pose     : `<layout> <16 scalars row-major>`
* shape    : `box <layout> sx sy sz` | `sphere r` | `capsule r h` | `cylinder r l` | `cone r h`
             | `ellipsoid <layout> rx ry rz` | `disk r` | `ellipse <layout> r0 r1`
             | `mesh nv <3nv scalars> nt <3nt nats>` | `margin m <shape>`
* op       : `u <pose>` | `s <layout> dx dy dz <idx>` | `a` | `c` | `f` | `o`
  (`idx` = the vertex index the implementation's hill climb returned for this call, `-1` when
  the collider has no mesh: the hill-climbing kernel is a parameter of the model and is
  answered from the trace; a negative answer for a mesh means KeyError)

Output: `ok <r_0> | <r_1> | …` with `r_k = <status> ; <value> ; <cached fields after the op>`,
`status` = `ok` or `err <Err>` (the model's case analysis is class × operation × outcome of the
typed call, so class/op/status *is* the branch id the harness histograms); `r_0` is the state
after construction; or `err <Err>` if the constructor raises.
The support/AABB kernels of the closed-form shapes are C03/C04's business: they are instantiated by
placeholders here and only the status of such calls is printed (value `-`).
-/

namespace D3.Drv14
open D3 D3.CS

scalar_variables
variable [HasAtan2 α] [HasTrig α] [Codec α]

def pLayout : P Layout := do
  match (← tok) with
  | "C" => pure .c | "F" => pure .f | "A" => pure .a
  | t => throw s!"layout expected: {t}"

def rLayout : Layout → String
  | .c => "C" | .f => "F" | .a => "A"

def pM4 : P (Arr (M4 α)) := do
  let l ← pLayout
  let r0 ← pV3; let t0 ← pScalar
  let r1 ← pV3; let t1 ← pScalar
  let r2 ← pV3; let t2 ← pScalar
  let b ← pV3; let w ← pScalar
  pure ⟨⟨⟨⟨r0, r1, r2⟩, ⟨t0, t1, t2⟩⟩, b, w⟩, l⟩

def rM4 (m : M4 α) : String :=
  rScalars [m.P.R.r0.x, m.P.R.r0.y, m.P.R.r0.z, m.P.t.x,
            m.P.R.r1.x, m.P.R.r1.y, m.P.R.r1.z, m.P.t.y,
            m.P.R.r2.x, m.P.R.r2.y, m.P.R.r2.z, m.P.t.z,
            m.b.x, m.b.y, m.b.z, m.w]

def rArrM4 (a : Arr (M4 α)) : String := s!"{rLayout a.layout} {rM4 a.val}"
def rArrV3 (a : Arr (V3 α)) : String := s!"{rLayout a.layout} {rV3 a.val}"

partial def pShape : P (Shape α) := do
  match (← tok) with
  | "box" => let l ← pLayout; let v ← pV3; pure (.box ⟨v, l⟩)
  | "sphere" => let r ← pScalar; pure (.sphere r)
  | "capsule" => let r ← pScalar; let h ← pScalar; pure (.capsule r h)
  | "cylinder" => let r ← pScalar; let h ← pScalar; pure (.cylinder r h)
  | "cone" => let r ← pScalar; let h ← pScalar; pure (.cone r h)
  | "ellipsoid" => let l ← pLayout; let v ← pV3; pure (.ellipsoid ⟨v, l⟩)
  | "disk" => let r ← pScalar; pure (.disk r)
  | "ellipse" => let l ← pLayout; let a ← pScalar; let b ← pScalar; pure (.ellipse ⟨(a, b), l⟩)
  | "mesh" =>
    let nv ← pNat
    let vs ← pMany nv (pV3 (α := α))
    let nt ← pNat
    let ts ← pMany nt (do let i ← pNat; let j ← pNat; let k ← pNat; pure (i, j, k))
    pure (.mesh vs.toArray ts)
  | "margin" => let m ← pScalar; let s ← pShape; pure (.margin s m)
  | t => throw s!"shape expected: {t}"

/-! concrete kernels (only those whose values are printed) -/

/-- `plane_basis_from_normal` -/
def planeBasisImpl (n : V3 α) : V3 α × V3 α :=
  if absS n.y ≤ absS n.x then
    let length := sqrt (n.x * n.x + n.z * n.z)
    let x : V3 α := ⟨-n.z / length, 0, n.x / length⟩
    (x, ⟨n.y * x.z, n.z * x.x - n.x * x.z, -n.y * x.x⟩)
  else
    let length := sqrt (n.y * n.y + n.z * n.z)
    let x : V3 α := ⟨0, n.z / length, -n.y / length⟩
    (x, ⟨n.y * x.z - n.z * x.y, -n.x * x.z, n.x * x.y⟩)

/-- `vertices[np.argmax(vertices.dot(d))]` : first maximum -/
def supHullImpl (vs : List (V3 α)) (d : V3 α) : V3 α :=
  match vs with
  | [] => V3.zero
  | v :: rest => rest.foldl (fun best w => if V3.dot best d < V3.dot w d then w else best) v

/-- `axis_aligned_bounding_box` -/
def aabbPointsImpl (vs : List (V3 α)) : AabbV α :=
  match vs with
  | [] => ⟨V3.zero, V3.zero⟩
  | v :: rest =>
    rest.foldl (fun b w =>
      ⟨⟨min b.mins.x w.x, min b.mins.y w.y, min b.mins.z w.z⟩,
       ⟨max b.maxs.x w.x, max b.maxs.y w.y, max b.maxs.z w.z⟩⟩) ⟨v, v⟩

/-- `np.mean(vertices, axis=0)` -/
def meanImpl (vs : Array (V3 α)) : V3 α :=
  let s := vs.foldl (fun acc v => acc + v) V3.zero
  let n : α := vs.foldl (fun acc _ => acc + 1) 0
  s.sdiv n

/-- kernels of the driver; `hc` = the hill-climb answer recorded from the implementation -/
def kernels (hc : Option Nat) : Kernels α where
  supCapsule := fun _ _ _ _ => V3.zero
  supCylinder := fun _ _ _ _ => V3.zero
  supCone := fun _ _ _ _ => V3.zero
  supEllipsoid := fun _ _ _ => V3.zero
  supSphere := fun _ _ _ => V3.zero
  supDisk := fun _ _ _ _ => V3.zero
  supEllipse := fun _ _ _ _ => V3.zero
  supHull := supHullImpl
  planeBasis := planeBasisImpl
  aabbPoints := aabbPointsImpl
  aabbSphere := fun _ _ => ⟨V3.zero, V3.zero⟩
  aabbCapsule := fun _ _ _ => ⟨V3.zero, V3.zero⟩
  aabbCylinder := fun _ _ _ => ⟨V3.zero, V3.zero⟩
  aabbCone := fun _ _ _ => ⟨V3.zero, V3.zero⟩
  aabbEllipsoid := fun _ _ => ⟨V3.zero, V3.zero⟩
  aabbDisk := fun _ _ _ => ⟨V3.zero, V3.zero⟩
  aabbEllipse := fun _ _ _ => ⟨V3.zero, V3.zero⟩
  hillClimb := fun _ _ _ _ _ => hc
  meanVerts := meanImpl
  connections := fun _ => []
  shortcuts := fun _ => []

/-- are support / aabb values of this collider computed by concrete kernels? -/
def concreteSA : Collider α → Bool
  | .box _ => true
  | .mesh _ => true
  | .margin c _ => concreteSA c
  | _ => false

/-- cached fields -/
def dump : Collider α → String
  | .box s =>
    s!"box {rArrM4 s.box2origin} {rArrV3 s.size} {s.vertices.length} {rScalars (s.vertices.flatMap V3.toList)}"
  | .sphere s => s!"sphere {rArrV3 s.c}"
  | .capsule s => s!"capsule {rArrM4 s.capsule2origin}"
  | .ellipsoid s => s!"ellipsoid {rArrM4 s.ellipsoid2origin} {rArrV3 s.radii}"
  | .cylinder s => s!"cylinder {rArrM4 s.cylinder2origin}"
  | .disk s => s!"disk {rArrV3 s.c} {rArrV3 s.normal}"
  | .ellipse s =>
    s!"ellipse {rArrV3 s.c} {rLayout s.axes.layout} {rV3 s.axes.val.1} {rV3 s.axes.val.2}"
  | .cone s => s!"cone {rArrM4 s.cone2origin}"
  | .mesh s => s!"mesh {rArrM4 s.mesh2origin} {rArrM4 s.sf.mesh2origin} {s.sf.firstIdx}"
  | .margin c _ => s!"margin {dump c}"

def rObs (printSA : Bool) (isSA : Bool) : Obs α → String
  | .none => "-"
  | .vec v => if isSA && !printSA then "-" else s!"v {rV3 v}"
  | .aabb b => if isSA && !printSA then "-" else s!"b {rV3 b.mins} {rV3 b.maxs}"
  | .mat m => s!"m {rM4 m}"

def pOp : P (Op α × Option Nat × Bool) := do
  match (← tok) with
  | "u" => let p ← pM4; pure (.updatePose p, none, false)
  | "s" =>
    let l ← pLayout; let d ← pV3; let idx ← pInt
    pure (.query (.support ⟨d, l⟩), if idx < 0 then none else some idx.toNat, true)
  | "a" => pure (.query .aabb, none, true)
  | "c" => pure (.query .center, none, false)
  | "f" => pure (.query .firstVertex, none, false)
  | "o" => pure (.query .collider2origin, none, false)
  | t => throw s!"op expected: {t}"

def runFn : P String := do
  let e : Engine ← (do match (← tok) with
    | "interp" => pure Engine.interp | "jit" => pure Engine.jit | t => throw s!"engine: {t}")
  let fixed : Bool ← (do match (← tok) with
    | "now" => pure true | "before" => pure false | t => throw s!"variant: {t}")
  let shape : Shape α ← pShape
  let p0 : Arr (M4 α) ← pM4
  let n ← pNat
  let ops ← pMany n (pOp (α := α))
  match atPose e (kernels (α := α) none) shape p0 with
  | .error err => pure (rErrS err)
  | .ok c0 =>
    let printSA := concreteSA c0
    let (_, outs) := ops.foldl (fun (acc : Collider α × Array String) (o : Op α × Option Nat × Bool) =>
      let (c, outs) := acc
      let (op, hc, isSA) := o
      let r := stepV fixed e (kernels hc) c op
      let status := match r.2 with
        | .ok v => s!"ok ; {rObs printSA isSA v}"
        | .error err => s!"{rErrS err} ; -"
      (r.1, outs.push s!"{status} ; {dump r.1}")) (c0, #[s!"ok ; - ; {dump c0}"])
    pure ("ok " ++ " | ".intercalate outs.toList)

/-- `convert_box_to_vertices` alone -/
def boxFn : P String := do
  let p : Arr (M4 α) ← pM4
  let s : V3 α ← pV3
  pure s!"ok {rScalars ((convertBox p.val.P s).flatMap V3.toList)}"

def dispatch (fn : String) : Option (P String) :=
  match fn with
  | "C14.run" => some (runFn (α := α))
  | "C14.box" => some (boxFn (α := α))
  | _ => none

end D3.Drv14
