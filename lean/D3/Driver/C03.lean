import D3.Model.Support
import D3.Driver.VecCodec

namespace D3.Drv03
open D3 D3.Support

scalar_variables
variable [HasAtan2 α] [HasTrig α] [Codec α]

def sortNat (l : List Nat) : List Nat := (l.toArray.qsort (· < ·)).toList

def sameSet (a b : List Nat) : Bool := sortNat a.eraseDups == sortNat b.eraseDups

def pTri : P (Nat × Nat × Nat) := do
  let a ← pNat; let b ← pNat; let c ← pNat
  pure (a, b, c)

/-- `nkeys (key cnt nbr…)…` : the implementation's `connections` dict in its own order -/
def pConn : P (List (Nat × List Nat)) := do
  let nk ← pNat
  pMany nk (do
    let key ← pNat
    let cnt ← pNat
    let nb ← pMany cnt pNat
    pure (key, nb))

/-- `pose n verts ntri tris conn` ; construction by the model, neighbour order from the
implementation (must agree as sets) -/
def pMesh : P (Pose α × MeshData α × Nat) := do
  let A : Pose α ← pPose
  let n ← pNat
  let vs ← pMany n (pV3 (α := α))
  let nt ← pNat
  let tris ← pMany nt pTri
  let conn ← pConn
  match MeshData.build vs.toArray tris with
  | .error e => throw s!"build-{e}"
  | .ok (m, fi) =>
    let ok := m.conn.length == conn.length &&
      m.conn.all fun (k, nb) => match conn.lookup k with
        | some nb' => sameSet nb nb' && nb'.length == nb.length
        | none => false
    if ok then pure (A, { m with conn := conn }, fi) else throw "conn-mismatch"

partial def pCollider : P (Collider α) := do
  let kind ← tok
  match kind with
  | "sphere" => do let c ← pV3; let r ← pScalar; pure (.sphere c r)
  | "capsule" => do let A ← pPose; let r ← pScalar; let h ← pScalar; pure (.capsule A r h)
  | "ellipsoid" => do let A ← pPose; let radii ← pV3; pure (.ellipsoid A radii)
  | "cylinder" => do let A ← pPose; let r ← pScalar; let l ← pScalar; pure (.cylinder A r l)
  | "disk" => do let c ← pV3; let r ← pScalar; let n ← pV3; pure (.disk c r n)
  | "ellipse" => do
    let c ← pV3; let a0 ← pV3; let a1 ← pV3; let r0 ← pScalar; let r1 ← pScalar
    pure (.ellipse c a0 a1 r0 r1)
  | "cone" => do let A ← pPose; let r ← pScalar; let h ← pScalar; pure (.cone A r h)
  | "box" => do let A ← pPose; let size ← pV3; pure (.box A size)
  | "hull" => do let n ← pNat; let vs ← pMany n (pV3 (α := α)); pure (.hull vs)
  | "mesh" => do let (A, m, fi) ← pMesh (α := α); pure (.mesh A m fi)
  | "margin" => do let m ← pScalar; let c ← pCollider; pure (.margin c m)
  | _ => throw s!"unknown collider {kind}"

/-- cached vertex index of a mesh collider (through margins); −1 otherwise -/
def meshIdx : Collider α → Int
  | .mesh _ _ fi => fi
  | .margin c _ => meshIdx c
  | _ => -1

def rRes (r : Except Err (Nat × V3 α × Collider α)) : String :=
  match r with
  | .error e => rErrS e
  | .ok (br, p, c) => s!"ok {br} {rV3 p} {meshIdx c}"

def supportFn : P String := do
  let c : Collider α ← pCollider
  let d ← pV3
  pure (rRes (c.support d))

/-- `k d1 … dk` on one object; output `ok k ; r1 ; … ; rk` -/
def histFn : P String := do
  let c : Collider α ← pCollider
  let k ← pNat
  let ds ← pMany k (pV3 (α := α))
  let rec go (c : Collider α) (ds : List (V3 α)) (acc : List String) : List String :=
    match ds with
    | [] => acc.reverse
    | d :: ds =>
      match c.support d with
      | .error e => go c ds (rErrS e :: acc)
      | .ok (br, p, c') => go c' ds (s!"ok {br} {rV3 p} {meshIdx c'}" :: acc)
  let outs := go c ds []
  pure (s!"ok {k} ; " ++ " ; ".intercalate outs)

def firstFn : P String := do
  let c : Collider α ← pCollider
  match c.firstVertex with
  | .ok p => pure s!"ok {rV3 p}"
  | .error e => pure (rErrS e)

def centerFn : P String := do
  let c : Collider α ← pCollider
  pure s!"ok {rV3 c.center}"

def boxFn : P String := do
  let A : Pose α ← pPose
  let half ← pV3
  let d ← pV3
  let r := supportBoxFn d A half
  pure s!"ok {r.1} {rV3 r.2}"

def planeBasisFn : P String := do
  let n : V3 α ← pV3
  match planeBasisFromNormal n with
  | .ok (b, x, y) => pure s!"ok {b} {rV3 x} {rV3 y}"
  | .error e => pure (rErrS e)

def normVecFn : P String := do
  let v : V3 α ← pV3
  pure s!"ok {rV3 (normVector v)}"

/-- `n verts ntri tris` → `ok first_idx s0 … s5 nkeys (key cnt sorted-nbrs)…` (keys sorted) -/
def meshBuildFn : P String := do
  let n ← pNat
  let vs ← pMany n (pV3 (α := α))
  let nt ← pNat
  let tris ← pMany nt pTri
  match MeshData.build vs.toArray tris with
  | .error e => pure (rErrS e)
  | .ok (m, fi) =>
    let keys := sortNat (m.conn.map (·.1))
    let ent := keys.map fun k =>
      let nb := sortNat ((m.conn.lookup k).getD [])
      s!"{k} {nb.length} " ++ " ".intercalate (nb.map toString)
    pure (s!"ok {fi} " ++ " ".intercalate (m.shortcuts.map toString) ++ s!" {keys.length} " ++
      " ".intercalate ent)

/-- `<mesh collider tokens without the leading "mesh">` → `ok 1|0 first_idx` : the Lean-verified
well-formedness check on the data the model will climb on -/
def meshWfFn : P String := do
  let (_, m, fi) ← pMesh (α := α)
  pure s!"ok {if m.wfCheck && decide (fi < m.verts.size) && (m.conn.lookup fi).isSome then 1 else 0} {fi}"

/-- `<mesh tokens> tau' d(3)` → `ok 1|0` : `unimodalCheck PROJECTION_LENGTH_EPSILON tau' (Rᵀ d) mesh` -/
def unimodalFn : P String := do
  let (A, m, _) ← pMesh (α := α)
  let τ' : α ← pScalar
  let d : V3 α ← pV3
  let ok := unimodalCheck (Gen.mesh__PROJECTION_LENGTH_EPSILON : α) τ' (A.R.tmulVec d) m
  pure s!"ok {if ok then 1 else 0}"

/-- `<mesh tokens> start fuel d(3)` (d in the world frame) → `ok idx branch moves` | `err <Err>` :
the repaired `hill_climb_mesh_extreme` with explicit fuel, `PROJECTION_LENGTH_EPSILON` from Gen -/
def climbFn : P String := do
  let (A, m, _) ← pMesh (α := α)
  let start ← pNat
  let fuel ← pNat
  let d : V3 α ← pV3
  match hillClimbF (Gen.mesh__PROJECTION_LENGTH_EPSILON : α) (A.R.tmulVec d) start m fuel with
  | .ok (idx, br, mv) => pure s!"ok {idx} {br} {mv}"
  | .error e => pure (rErrS e)

/-- same input → `ok idx branch` | `err fuel` : the climb BEFORE repair e900ae9 -/
def climbAsIsFn : P String := do
  let (A, m, _) ← pMesh (α := α)
  let start ← pNat
  let fuel ← pNat
  let d : V3 α ← pV3
  match hillClimb_asIs_before_fix (A.R.tmulVec d) start m fuel with
  | .ok (idx, br) => pure s!"ok {idx} {br}"
  | .error e => pure (rErrS e)

def dispatch (fn : String) : Option (P String) :=
  match fn with
  | "C03.support" => some (supportFn (α := α))
  | "C03.hist" => some (histFn (α := α))
  | "C03.first" => some (firstFn (α := α))
  | "C03.center" => some (centerFn (α := α))
  | "C03.boxfn" => some (boxFn (α := α))
  | "C03.planebasis" => some (planeBasisFn (α := α))
  | "C03.normvec" => some (normVecFn (α := α))
  | "C03.meshbuild" => some (meshBuildFn (α := α))
  | "C03.meshwf" => some (meshWfFn (α := α))
  | "C03.unimodal" => some (unimodalFn (α := α))
  | "C03.climb" => some (climbFn (α := α))
  | "C03.climb.asis" => some (climbAsIsFn (α := α))
  | _ => none

end D3.Drv03
