import D3.Model.IntersectJolt
import D3.Model.IntersectMpr
import D3.Model.IntersectLibccd
import D3.Model.SimplexGood
import D3.Driver.Codec
import D3.Driver.VecCodec

namespace D3.Drv02
open D3

scalar_variables
variable [HasAtan2 α] [HasTrig α] [Codec α]

def rV3s (l : List (V3 α)) : String := " ".intercalate (l.map rV3)

def b2n (b : Bool) : Nat := if b then 1 else 0

/-! ### support queries answered from a recorded trace
`n` entries `(direction, support point of A ⊖ B)`; a query is answered by the entry whose recorded direction
is nearest (squared distance) to the queried one, and the deviation is accumulated by the caller -/

def pTrace : P (List (V3 α × V3 α)) := do
  let n ← pNat
  pMany n (do let d ← pV3; let w ← pV3; pure (d, w))

def traceSup (tr : List (V3 α × V3 α)) (d : V3 α) : V3 α :=
  let z : V3 α := ⟨0, 0, 0⟩
  match tr with
  | [] => z
  | e :: es =>
    let dist (x : V3 α × V3 α) : α := V3.dot (x.1 - d) (x.1 - d)
    (es.foldl (fun (best : V3 α × V3 α) x => if dist x < dist best then x else best) e).2

/-! ### Jolt -/

/-- `C02.jolt.step p q Y(4 pts) n tolSq prev dir` →
`ok <br> <state> <n'> <prev'> <dir'> <Y'(4 pts)>` -/
def joltStepFn : P String := do
  let p : V3 α ← pV3; let q ← pV3
  let ys : List (V3 α) ← pMany 4 pV3
  let n ← pNat
  let tolSq : α ← pScalar
  let prev : α ← pScalar
  let dir ← pV3
  match IsectJolt.intersectionLoop p q ys.toArray n tolSq prev dir with
  | .ok s => pure s!"ok {s.br} {s.state.code} {s.nPoints} {Codec.render s.prev} {rV3 s.dir} {rV3s s.Y.toList}"
  | .error e => pure (rErrS e)

/-- `C02.jolt.run tol fuel <trace>` → `ok <bool> <its> <br>` -/
def joltRunFn : P String := do
  let tol : α ← pScalar
  let fuel ← pNat
  let tr ← pTrace
  match IsectJolt.gjkIntersectionJolt (traceSup tr) (fun _ => ⟨0, 0, 0⟩) tol fuel with
  | .ok (b, its, br) => pure s!"ok {b2n b} {its} {br}"
  | .error e => pure (rErrS e)

/-- run-time evidence for the hypothesis `VisitedGood JoltGood` of the `C02.jolt_fn_*` / `jolt_reach_*`
theorems (D3/Properties/C02Link.lean): `C02.jolt.good p q Y(4 pts) n dir` →
`ok 2` if the call leaves through the separating-axis test (the solver is not called), otherwise
`ok 1` / `ok 0` = `joltGoodB` (the executable form of `JoltGood`, `D3.Gjk.joltGoodB_iff`) of the simplex that
call hands to `get_closest_point_to_origin`: rows `Y` with `p - q` written to row `n`, `n + 1` points.
Meant to be run at `Rat` on the recorded `_intersection_loop` calls of a run. -/
def joltGoodFn : P String := do
  let p : V3 α ← pV3; let q ← pV3
  let ys : List (V3 α) ← pMany 4 pV3
  let n ← pNat
  let dir ← pV3
  let w := p - q
  if V3.dot dir w < -IsectJolt.EPS then pure "ok 2" else
  match ys with
  | [a, b, c, d] =>
    match (⟨a, b, c, d⟩ : GjkJolt.A4 (V3 α)).set n w with
    | .ok Y1 => pure (if GjkJolt.joltGoodB Y1 (n + 1) then "ok 1" else "ok 0")
    | .error e => pure (rErrS e)
  | _ => pure (rErrS .indexOOB)

/-! ### MPR -/

def pPortal : P (IsectMpr.Portal α) := do
  let a ← pV3; let b ← pV3; let c ← pV3; let d ← pV3
  pure ⟨a, b, c, d⟩

def rPortal (P : IsectMpr.Portal α) : String := rV3s [P.v0, P.v1, P.v2, P.v3]

/-- `C02.mpr.iterate portal dir size` → `ok <br> <size'> <dir'> <portal'>` -/
def mprIterateFn : P String := do
  let P ← pPortal (α := α)
  let dir ← pV3
  let size ← pNat
  let r := IsectMpr.iterateDiscoverPortal P dir size
  pure s!"ok {r.2.2.2} {r.2.2.1} {rV3 r.2.1} {rPortal r.1}"

/-- `C02.mpr.searchdir portal` → `ok <br> <dir> <portal'>` -/
def mprSearchDirFn : P String := do
  let P ← pPortal (α := α)
  let r := IsectMpr.searchDirectionPerpV012 P
  pure s!"ok {r.2.2} {rV3 r.2.1} {rPortal r.1}"

/-- `C02.mpr.expand portal v4` → `ok <br> <portal'>` -/
def mprExpandFn : P String := do
  let P ← pPortal (α := α)
  let v4 ← pV3
  let r := IsectMpr.expandPortal P v4
  pure s!"ok {r.2} {rPortal r.1}"

/-- `C02.mpr.portaldir portal` → `ok 0 <dir>` -/
def mprPortalDirFn : P String := do
  let P ← pPortal (α := α)
  pure s!"ok 0 {rV3 (IsectMpr.portalDirection P)}"

/-- `C02.mpr.encaps v dir` → `ok <0|1>` -/
def mprEncapsFn : P String := do
  let v : V3 α ← pV3; let dir ← pV3
  pure s!"ok {b2n (IsectMpr.encapsulatesOrigin v dir)}"

/-- `C02.mpr.reach portal v4 dir tol` → `ok <0|1>` -/
def mprReachFn : P String := do
  let P ← pPortal (α := α)
  let v4 ← pV3; let dir ← pV3
  let tol : α ← pScalar
  pure s!"ok {b2n (IsectMpr.portalReachTolerance P v4 dir tol)}"

/-- `C02.mpr.run c1 c2 tol maxIt fuel <trace>` → `ok <bool> <discover br> <refine br>` -/
def mprRunFn : P String := do
  let c1 : V3 α ← pV3; let c2 ← pV3
  let tol : α ← pScalar
  let maxIt ← pNat
  let fuel ← pNat
  let tr ← pTrace
  match IsectMpr.mprIntersection c1 c2 (traceSup tr) (fun _ => ⟨0, 0, 0⟩) tol maxIt fuel with
  | .ok (b, dbr, rbr) => pure s!"ok {b2n b} {dbr} {rbr}"
  | .error e => pure (rErrS e)

/-- `C02.mpr.discover c1 c2 maxIt <trace>` → `ok <br> <state> <its> <portal>` -/
def mprDiscoverFn : P String := do
  let c1 : V3 α ← pV3; let c2 ← pV3
  let maxIt ← pNat
  let tr ← pTrace
  let d := IsectMpr.discoverPortal c1 c2 (traceSup tr) maxIt
  pure s!"ok {d.br} {d.state.code} {d.its} {rPortal d.P}"

/-! ### libccd -/

def pSx : P (IsectLibccd.Sx α) := do
  let a ← pV3; let b ← pV3; let c ← pV3; let d ← pV3
  pure ⟨a, b, c, d⟩

def rSx (S : IsectLibccd.Sx α) : String := rV3s [S.v0, S.v1, S.v2, S.v3]

/-- `C02.libccd.refine v(4 pts) n` → `ok <br> <state> <n'> <dir> <v'(4 pts)>` -/
def libccdRefineFn : P String := do
  let S ← pSx (α := α)
  let n ← pNat
  match IsectLibccd.refineSimplex S n with
  | .ok r => pure s!"ok {r.br} {r.state.code} {r.n} {rV3 r.dir} {rSx r.S}"
  | .error e => pure (rErrS e)

/-- `C02.libccd.pttri p a b c` → `ok <region> <distance>` -/
def libccdPtTriFn : P String := do
  let p : V3 α ← pV3; let a ← pV3; let b ← pV3; let c ← pV3
  match IsectLibccd.ptTriDist p a b c with
  | .ok (d, br) => pure s!"ok {br} {Codec.render d}"
  | .error e => pure (rErrS e)

/-- `C02.libccd.run f1 f2 maxIt <trace>` → `ok <bool> <its> <br>` -/
def libccdRunFn : P String := do
  let f1 : V3 α ← pV3; let f2 ← pV3
  let maxIt ← pNat
  let tr ← pTrace
  match IsectLibccd.gjkIntersectionLibccd f1 f2 (traceSup tr) (fun _ => ⟨0, 0, 0⟩) maxIt with
  | .ok (b, its, br) => pure s!"ok {b2n b} {its} {br}"
  | .error e => pure (rErrS e)

def dispatch (fn : String) : Option (P String) :=
  match fn with
  | "C02.jolt.step" => some (joltStepFn (α := α))
  | "C02.jolt.run" => some (joltRunFn (α := α))
  | "C02.jolt.good" => some (joltGoodFn (α := α))
  | "C02.mpr.iterate" => some (mprIterateFn (α := α))
  | "C02.mpr.searchdir" => some (mprSearchDirFn (α := α))
  | "C02.mpr.expand" => some (mprExpandFn (α := α))
  | "C02.mpr.portaldir" => some (mprPortalDirFn (α := α))
  | "C02.mpr.encaps" => some (mprEncapsFn (α := α))
  | "C02.mpr.reach" => some (mprReachFn (α := α))
  | "C02.mpr.run" => some (mprRunFn (α := α))
  | "C02.mpr.discover" => some (mprDiscoverFn (α := α))
  | "C02.libccd.refine" => some (libccdRefineFn (α := α))
  | "C02.libccd.pttri" => some (libccdPtTriFn (α := α))
  | "C02.libccd.run" => some (libccdRunFn (α := α))
  | _ => none

end D3.Drv02
