import D3.Model.HydroForce
import D3.Driver.Codec
import D3.Driver.VecCodec

namespace D3.Drv16
open D3 D3.Aabb D3.HydroForce

scalar_variables
variable [HasAtan2 α] [HasTrig α] [Codec α]

def pBox : P (Box α) := do
  let a ← pScalar; let b ← pScalar; let c ← pScalar
  let d ← pScalar; let e ← pScalar; let f ← pScalar
  pure ⟨a, b, c, d, e, f⟩

def rBox (b : Box α) : String := rScalars [b.lo0, b.hi0, b.lo1, b.hi1, b.lo2, b.hi2]
def rM3 (m : M3 α) : String := rScalars m.toList
def rPose (A : Pose α) : String := s!"{rM3 A.R} {rV3 A.t}"
def rWrench (w : Wrench α) : String := s!"{rV3 w.f} {rV3 w.t}"

def pTet : P (Tet α) := do
  let a ← pV3; let b ← pV3; let c ← pV3; let d ← pV3
  pure ⟨a, b, c, d⟩

def pTets : P (List (Tet α)) := do
  let n ← pNat
  pMany n pTet

def pIdx4 : P (Nat × Nat × Nat × Nat) := do
  let a ← pNat; let b ← pNat; let c ← pNat; let d ← pNat
  pure (a, b, c, d)

/-- `pose(12) nv verts(3 nv) nt tets(4 nt) pots(nv)` : a fresh `RigidBody` -/
def pBody : P (Body α) := do
  let pose ← pPose
  let nv ← pNat
  let verts ← pMany nv pV3
  let nt ← pNat
  let tets ← pMany nt pIdx4
  let pots ← pMany nv pScalar
  pure (Body.mk' pose verts tets pots)

def pContact : P (Contact α) := do
  let i ← pNat; let j ← pNat
  let c ← pV3; let f ← pV3
  pure ⟨i, j, c, f⟩

/-- arrays dumped from the implementation's AabbTree: `root filled n (4n ints) (6n scalars)` -/
def pCore : P (Core α) := do
  let root ← pInt
  let filled ← pNat
  let n ← pNat
  let nodes ← pMany n (do
    let a ← pInt; let b ← pInt; let c ← pInt; let d ← pInt
    pure (Node.mk a b c d))
  let boxes ← pMany n (pBox (α := α))
  pure { root := root, nodes := nodes.toArray, aabbs := boxes.toArray, filledLen := filled }

/-! ### utils -/

def invertFn : P String := do
  let A : Pose α ← pPose
  pure s!"ok {rPose (invertTransform A)}"

def adjointFn : P String := do
  let A : Pose α ← pPose
  let a := adjointFromTransform A
  -- 6 rows of the 6×6 matrix
  let rows : List (List α) :=
    [a.tl.r0.toList ++ a.tr.r0.toList, a.tl.r1.toList ++ a.tr.r1.toList, a.tl.r2.toList ++ a.tr.r2.toList,
     a.bl.r0.toList ++ a.br.r0.toList, a.bl.r1.toList ++ a.br.r1.toList, a.bl.r2.toList ++ a.br.r2.toList]
  pure s!"ok {rScalars rows.flatten}"

/-! ### mesh processing -/

def aabbsFn : P String := do
  let tp : List (Tet α) ← pTets
  pure s!"ok {tp.length} {" ".intercalate ((tetrahedralMeshAabbs tp).map rBox)}"

def comFn : P String := do
  let tp : List (Tet α) ← pTets
  match centerOfMass tp with
  | .ok c => pure s!"ok {rV3 c}"
  | .error e => pure (rErrS e)

/-! ### wrenches -/

def accumFn (old : Bool) : P String := do
  let frame : Pose α ← pPose
  let com1 ← pV3
  let com2 ← pV3
  let n ← pNat
  let cs ← pMany n (pContact (α := α))
  let w := if old then accumulateWrenchesAt_asIs_before_fix frame cs com1 com2
           else accumulateWrenchesAt frame cs com1 com2
  pure s!"ok {rWrench w.1} {rWrench w.2}"

/-! ### broad phase -/

def rPairs (l : List (Nat × Nat)) : String :=
  s!"{l.length} {" ".intercalate (l.map fun (i, j) => s!"{i} {j}")}"

def pBoxes : P (List (Box α)) := do
  let n ← pNat
  pMany n pBox

def bruteFn : P String := do
  let a1 : List (Box α) ← pBoxes
  let a2 : List (Box α) ← pBoxes
  pure s!"ok {rPairs (broadBrute a1 a2)}"

def wfCode (c : Core α) (boxes : List (Box α)) : String :=
  match wfCheck c with
  | none => "bad"
  | some none => "empty"
  | some (some t) => if leavesMatch t boxes then "wf" else "leafmismatch"

/-- `core1 core2 boxes1 boxes2` (dumped trees of both bodies and their aabbs): C05 well-formedness
check + leaf check (the hypotheses of `broad_phase_same_pairs`), the model's `broadTree` pair list,
and whether it is a permutation of the model's brute-force list -/
def treeFn : P String := do
  let c1 : Core α ← pCore
  let c2 : Core α ← pCore
  let a1 : List (Box α) ← pBoxes
  let a2 : List (Box α) ← pBoxes
  let w1 := wfCode c1 a1
  let w2 := wfCode c2 a2
  match broadTree c1 c2 with
  | .error e => pure s!"ok {w1} {w2} err {e}"
  | .ok ps =>
    let bf := broadBrute a1 a2
    let same := decide (ps.length = bf.length) && ps.all (fun p => bf.contains p) && bf.all (fun p => ps.contains p)
    pure s!"ok {w1} {w2} {if same then 1 else 0} {rPairs ps}"

/-! ### histories of `express_in` / `update_pose` / `contact_forces` on stateful bodies -/

def cacheFlags (b : Body α) : String :=
  let f (x : Bool) : String := if x then "1" else "0"
  s!"{f b.cTetPts.isSome}{f b.cCom.isSome}{f b.cAabbs.isSome}{f b.cTree.isSome}"

/-- narrow phase given as a table recorded from the implementation: the pair routine is looked
up by the *coordinates* of the two tetrahedra (as the model computes them), so that the model's
`PairFn` stays a function of coordinates only -/
def tablePairFn (tp1 tp2 : List (Tet α)) (table : List (Contact α)) : PairFn α :=
  fun t1 _ t2 _ =>
    match table.find? (fun c => (tp1[c.i]? == some t1) && (tp2[c.j]? == some t2)) with
    | some c => some (c.com, c.force)
    | none => none

def getBody (bs : Array (Body α)) (i : Nat) : P (Body α) :=
  match bs[i]? with
  | some b => pure b
  | none => throw s!"body index {i}"

def setBody (bs : Array (Body α)) (i : Nat) (b : Body α) : Array (Body α) := bs.set! i b

partial def runOps (bs : Array (Body α)) (outs : Array String) : P (Array String) := do
  match (← get) with
  | [] => pure outs
  | _ =>
    let op ← tok
    match op with
    | "ex" =>
      let a ← pNat
      let N : Pose α ← pPose
      let b := (← getBody bs a).expressIn N
      runOps (setBody bs a b) (outs.push s!"ok {cacheFlags b}")
    | "up" =>
      let a ← pNat
      let N : Pose α ← pPose
      let b := (← getBody bs a).updatePose N
      runOps (setBody bs a b) (outs.push s!"ok {cacheFlags b}")
    | "verts" =>
      let a ← pNat
      let b ← getBody bs a
      runOps bs (outs.push s!"ok {rPose b.pose} {b.verts.length} {" ".intercalate (b.verts.map rV3)}")
    | "aabbs" =>
      let a ← pNat
      match (← getBody bs a).aabbs with
      | .ok (x, b) => runOps (setBody bs a b) (outs.push s!"ok {x.length} {" ".intercalate (x.map rBox)}")
      | .error e => runOps bs (outs.push (rErrS e))
    | "com" =>
      let a ← pNat
      match (← getBody bs a).com with
      | .ok (x, b) => runOps (setBody bs a b) (outs.push s!"ok {rV3 x}")
      | .error e => runOps bs (outs.push (rErrS e))
    | "flags" =>
      let a ← pNat
      runOps bs (outs.push s!"ok {cacheFlags (← getBody bs a)}")
    | "cf" =>
      -- contact_forces(bodies[a], bodies[b]) with the recorded narrow-phase table
      let a ← pNat
      let b ← pNat
      let useTrees ← pNat
      let m ← pNat
      let table ← pMany m (pContact (α := α))
      let b1 ← getBody bs a
      let b2 ← getBody bs b
      let tp1 := match (b1.expressIn b2.pose).tetPtsPure with | .ok t => t | .error _ => []
      let tp2 := match b2.tetPtsPure with | .ok t => t | .error _ => []
      let pairFn := tablePairFn tp1 tp2 table
      if useTrees = 0 then
        match contactForces pairFn b1 b2 with
        | .ok (r, b1', b2') =>
          let hits := match contactsPure pairFn b1 b2 false with | .ok cs => cs.length | .error _ => 0
          runOps (setBody (setBody bs a b1') b b2')
            (outs.push s!"ok {if r.intersection then 1 else 0} {hits} {rWrench r.wrench12} {rWrench r.wrench21}")
        | .error e => runOps bs (outs.push (rErrS e))
      else
        match findContactSurface pairFn b1 b2 true with
        | .ok (s, b1', b2') =>
          match accumulateWrenches s b1' b2' with
          | .ok (w, b1'', b2'') =>
            runOps (setBody (setBody bs a b1'') b b2'')
              (outs.push s!"ok {if s.intersection then 1 else 0} {s.contacts.length} {rWrench w.1} {rWrench w.2}")
          | .error e => runOps bs (outs.push (rErrS e))
        | .error e => runOps bs (outs.push (rErrS e))
    | _ => throw s!"unknown op {op}"

/-- `nb body… ops…` -/
def histFn : P String := do
  let nb ← pNat
  let bodies ← pMany nb (pBody (α := α))
  let outs ← runOps bodies.toArray #[]
  pure ("ok " ++ " | ".intercalate outs.toList)

def dispatch (fn : String) : Option (P String) :=
  match fn with
  | "C16.invert" => some (invertFn (α := α))
  | "C16.adjoint" => some (adjointFn (α := α))
  | "C16.aabbs" => some (aabbsFn (α := α))
  | "C16.com" => some (comFn (α := α))
  | "C16.accum" => some (accumFn (α := α) false)
  | "C16.accum.old" => some (accumFn (α := α) true)
  | "C16.brute" => some (bruteFn (α := α))
  | "C16.tree" => some (treeFn (α := α))
  | "C16.hist" => some (histFn (α := α))
  | _ => none

end D3.Drv16
