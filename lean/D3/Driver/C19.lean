import D3.Model.Termination
import D3.Driver.Codec

namespace D3.Drv19
open D3 D3.Term

scalar_variables
variable [HasAtan2 α] [HasTrig α] [Codec α]

def pStep : P (StepIn α) := do
  let dot ← pScalar
  let succ ← pNat
  let vNew ← pScalar
  let full ← pNat
  let maxY ← pScalar
  pure ⟨dot, succ = 1, vNew, full = 1, maxY⟩

/-- `C19.distrun eps tolSq maxDistSq prev v n (dot succ vNew full maxY)*n` -/
def distRunFn : P String := do
  let eps : α ← pScalar
  let tolSq : α ← pScalar
  let maxD : α ← pScalar
  let prev : α ← pScalar
  let v : α ← pScalar
  let n ← pNat
  let steps ← pMany n (pStep (α := α))
  let (e, k) := distRun eps tolSq maxD prev v steps 0
  pure s!"ok {e.toString} {k}"

/-- `C19.interrun eps tolSq prev n (dot succ vNew full maxY)*n` -/
def interRunFn : P String := do
  let eps : α ← pScalar
  let tolSq : α ← pScalar
  let prev : α ← pScalar
  let n ← pNat
  let steps ← pMany n (pStep (α := α))
  let (e, k) := interRun eps tolSq prev steps 0
  pure s!"ok {e.toString} {k}"

def dispatch (fn : String) : Option (P String) :=
  match fn with
  | "C19.distrun" => some (distRunFn (α := α))
  | "C19.interrun" => some (interRunFn (α := α))
  | _ => none

end D3.Drv19
