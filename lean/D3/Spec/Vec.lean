/-
ℝ-level vocabulary and basic lemmas for vectors, rotations and point sets (Mathlib).
Everything is kept at the level where `simp [V3.dot, …]`, `ring` and `nlinarith` work on
unfolded components.
-/
import D3.Spec.Real
import D3.Model.Vec
import Mathlib.Tactic.Ring
import Mathlib.Tactic.Linarith
import Mathlib.Tactic.Positivity
import Mathlib.Tactic.FieldSimp
import Mathlib.Tactic.LinearCombination

namespace D3

abbrev V := V3 ℝ
abbrev Mat := M3 ℝ

@[ext] theorem V3.ext' {a b : V} (hx : a.x = b.x) (hy : a.y = b.y) (hz : a.z = b.z) : a = b := by
  cases a; cases b; simp_all

@[simp] theorem V3.add_x (a b : V) : (a + b).x = a.x + b.x := rfl
@[simp] theorem V3.add_y (a b : V) : (a + b).y = a.y + b.y := rfl
@[simp] theorem V3.add_z (a b : V) : (a + b).z = a.z + b.z := rfl
@[simp] theorem V3.sub_x (a b : V) : (a - b).x = a.x - b.x := rfl
@[simp] theorem V3.sub_y (a b : V) : (a - b).y = a.y - b.y := rfl
@[simp] theorem V3.sub_z (a b : V) : (a - b).z = a.z - b.z := rfl
@[simp] theorem V3.neg_x (a : V) : (-a).x = -a.x := rfl
@[simp] theorem V3.neg_y (a : V) : (-a).y = -a.y := rfl
@[simp] theorem V3.neg_z (a : V) : (-a).z = -a.z := rfl
@[simp] theorem V3.smul_x (s : ℝ) (a : V) : (s * a).x = s * a.x := rfl
@[simp] theorem V3.smul_y (s : ℝ) (a : V) : (s * a).y = s * a.y := rfl
@[simp] theorem V3.smul_z (s : ℝ) (a : V) : (s * a).z = s * a.z := rfl

theorem V3.dot_def (a b : V) : V3.dot a b = a.x * b.x + a.y * b.y + a.z * b.z := rfl
theorem V3.normSq_def (a : V) : V3.normSq a = a.x * a.x + a.y * a.y + a.z * a.z := rfl

theorem V3.dot_comm (a b : V) : V3.dot a b = V3.dot b a := by simp only [V3.dot_def]; ring
theorem V3.normSq_nonneg (a : V) : 0 ≤ V3.normSq a := by
  rw [V3.normSq_def]; nlinarith [mul_self_nonneg a.x, mul_self_nonneg a.y, mul_self_nonneg a.z]

theorem V3.norm_def (a : V) : V3.norm a = Real.sqrt (V3.normSq a) := rfl
theorem V3.norm_nonneg (a : V) : 0 ≤ V3.norm a := Real.sqrt_nonneg _
theorem V3.norm_sq (a : V) : V3.norm a * V3.norm a = V3.normSq a :=
  Real.mul_self_sqrt (V3.normSq_nonneg a)

theorem V3.normSq_eq_zero {a : V} (h : V3.normSq a = 0) : a = ⟨0, 0, 0⟩ := by
  rw [V3.normSq_def] at h
  have hx : a.x = 0 := by nlinarith [mul_self_nonneg a.x, mul_self_nonneg a.y, mul_self_nonneg a.z]
  have hy : a.y = 0 := by nlinarith [mul_self_nonneg a.x, mul_self_nonneg a.y, mul_self_nonneg a.z]
  have hz : a.z = 0 := by nlinarith [mul_self_nonneg a.x, mul_self_nonneg a.y, mul_self_nonneg a.z]
  exact V3.ext' hx hy hz

/-- Cauchy–Schwarz in the squared form used everywhere -/
theorem V3.dot_sq_le (a b : V) : V3.dot a b * V3.dot a b ≤ V3.normSq a * V3.normSq b := by
  simp only [V3.dot_def, V3.normSq_def]
  nlinarith [mul_self_nonneg (a.x * b.y - a.y * b.x), mul_self_nonneg (a.x * b.z - a.z * b.x),
    mul_self_nonneg (a.y * b.z - a.z * b.y)]

theorem V3.dot_le_norm_mul (a b : V) : V3.dot a b ≤ V3.norm a * V3.norm b := by
  have h := V3.dot_sq_le a b
  have ha := V3.norm_nonneg a
  have hb := V3.norm_nonneg b
  have : V3.dot a b * V3.dot a b ≤ (V3.norm a * V3.norm b) * (V3.norm a * V3.norm b) := by
    calc V3.dot a b * V3.dot a b ≤ V3.normSq a * V3.normSq b := h
      _ = (V3.norm a * V3.norm a) * (V3.norm b * V3.norm b) := by rw [V3.norm_sq, V3.norm_sq]
      _ = _ := by ring
  nlinarith [mul_nonneg ha hb]

/-- rows of `R` are orthonormal: `R Rᵀ = I` (equivalently `Rᵀ R = I` for square matrices;
both forms are provided as hypotheses where needed) -/
structure Orthonormal (R : Mat) : Prop where
  r00 : V3.dot R.r0 R.r0 = 1
  r11 : V3.dot R.r1 R.r1 = 1
  r22 : V3.dot R.r2 R.r2 = 1
  r01 : V3.dot R.r0 R.r1 = 0
  r02 : V3.dot R.r0 R.r2 = 0
  r12 : V3.dot R.r1 R.r2 = 0
  c00 : V3.dot R.col0 R.col0 = 1
  c11 : V3.dot R.col1 R.col1 = 1
  c22 : V3.dot R.col2 R.col2 = 1
  c01 : V3.dot R.col0 R.col1 = 0
  c02 : V3.dot R.col0 R.col2 = 0
  c12 : V3.dot R.col1 R.col2 = 0

/-- `⟨R a, R b⟩ = ⟨a, b⟩` -/
theorem Orthonormal.dot_mulVec {R : Mat} (h : Orthonormal R) (a b : V) :
    V3.dot (R.mulVec a) (R.mulVec b) = V3.dot a b := by
  obtain ⟨_, _, _, _, _, _, c00, c11, c22, c01, c02, c12⟩ := h
  simp only [V3.dot_def, M3.mulVec, M3.col0, M3.col1, M3.col2] at *
  linear_combination (a.x*b.x)*c00 + (a.y*b.y)*c11 + (a.z*b.z)*c22 + (a.x*b.y + a.y*b.x)*c01 +
    (a.x*b.z + a.z*b.x)*c02 + (a.y*b.z + a.z*b.y)*c12

/-- `⟨Rᵀ a, Rᵀ b⟩ = ⟨a, b⟩` -/
theorem Orthonormal.dot_tmulVec {R : Mat} (h : Orthonormal R) (a b : V) :
    V3.dot (R.tmulVec a) (R.tmulVec b) = V3.dot a b := by
  obtain ⟨r00, r11, r22, r01, r02, r12, _, _, _, _, _, _⟩ := h
  simp only [V3.dot_def, M3.tmulVec, M3.col0, M3.col1, M3.col2] at *
  linear_combination (a.x*b.x)*r00 + (a.y*b.y)*r11 + (a.z*b.z)*r22 + (a.x*b.y + a.y*b.x)*r01 +
    (a.x*b.z + a.z*b.x)*r02 + (a.y*b.z + a.z*b.y)*r12

/-- `⟨d, R x⟩ = ⟨Rᵀ d, x⟩` (no orthonormality needed) -/
theorem M3.dot_mulVec (R : Mat) (d x : V) : V3.dot d (R.mulVec x) = V3.dot (R.tmulVec d) x := by
  simp only [V3.dot_def, M3.mulVec, M3.tmulVec, M3.col0, M3.col1, M3.col2]; ring

theorem Orthonormal.tmulVec_mulVec {R : Mat} (h : Orthonormal R) (a : V) :
    R.tmulVec (R.mulVec a) = a := by
  obtain ⟨_, _, _, _, _, _, c00, c11, c22, c01, c02, c12⟩ := h
  simp only [V3.dot_def, M3.col0, M3.col1, M3.col2] at *
  apply V3.ext' <;> simp only [M3.tmulVec, M3.mulVec, V3.dot_def, M3.col0, M3.col1, M3.col2]
  · linear_combination a.x * c00 + a.y * c01 + a.z * c02
  · linear_combination a.x * c01 + a.y * c11 + a.z * c12
  · linear_combination a.x * c02 + a.y * c12 + a.z * c22

theorem Orthonormal.mulVec_tmulVec {R : Mat} (h : Orthonormal R) (a : V) :
    R.mulVec (R.tmulVec a) = a := by
  obtain ⟨r00, r11, r22, r01, r02, r12, _, _, _, _, _, _⟩ := h
  simp only [V3.dot_def] at *
  apply V3.ext' <;> simp only [M3.tmulVec, M3.mulVec, V3.dot_def, M3.col0, M3.col1, M3.col2]
  · linear_combination a.x * r00 + a.y * r01 + a.z * r02
  · linear_combination a.x * r01 + a.y * r11 + a.z * r12
  · linear_combination a.x * r02 + a.y * r12 + a.z * r22

/-- `transform_point ∘ inverse_transform_point = id` -/
theorem Pose.apply_applyInv {A : Pose ℝ} (h : Orthonormal A.R) (p : V) :
    A.apply (A.applyInv p) = p := by
  unfold Pose.apply Pose.applyInv
  rw [h.mulVec_tmulVec]
  apply V3.ext' <;> simp

theorem Pose.applyInv_apply {A : Pose ℝ} (h : Orthonormal A.R) (p : V) :
    A.applyInv (A.apply p) = p := by
  unfold Pose.apply Pose.applyInv
  have : A.R.mulVec p + A.t - A.t = A.R.mulVec p := by apply V3.ext' <;> simp
  rw [this, h.tmulVec_mulVec]

/-! ### point sets and the support / enclosure vocabulary -/

/-- `p` is a support point of the set `K` in direction `d` -/
def IsSupport (K : V → Prop) (d p : V) : Prop := K p ∧ ∀ x, K x → V3.dot d x ≤ V3.dot d p

/-- image of a local set under a pose -/
def poseImage (A : Pose ℝ) (K : V → Prop) : V → Prop := fun p => ∃ q, K q ∧ p = A.apply q

/-- a support point of the local set for the pulled-back direction maps to a support point
of the posed set (holds for **every** matrix `R`, orthonormal or not) -/
theorem IsSupport.poseImage {K : V → Prop} {A : Pose ℝ} {d q : V}
    (h : IsSupport K (A.R.tmulVec d) q) : IsSupport (poseImage A K) d (A.apply q) := by
  refine ⟨⟨q, h.1, rfl⟩, ?_⟩
  rintro x ⟨y, hy, rfl⟩
  have := h.2 y hy
  simp only [Pose.apply, V3.dot_def, V3.add_x, V3.add_y, V3.add_z] at *
  simp only [M3.mulVec, M3.tmulVec, V3.dot_def, M3.col0, M3.col1, M3.col2] at *
  nlinarith [this]

end D3
