/-
ℝ instances of the model's own scalar classes (Mathlib's instances are used for all
standard classes, so `ring`, `nlinarith`, `positivity` see ordinary real arithmetic).
-/
import Mathlib.Analysis.Real.Sqrt
import D3.Model.Scalar

namespace D3

noncomputable instance : HasSqrt ℝ := ⟨Real.sqrt⟩

@[simp] theorem sqrt_real (x : ℝ) : HasSqrt.sqrt x = Real.sqrt x := rfl

theorem absS_real (x : ℝ) : absS x = |x| := by
  unfold absS
  split
  · rename_i h; rw [abs_of_neg h]
  · rename_i h; rw [abs_of_nonneg (not_lt.mp h)]

end D3
